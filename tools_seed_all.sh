#!/bin/sh
# tools_seed_all.sh <dir with patch.diff> : apply the seeded patch to /repo, run EVERY check (quick), print what fires, revert
D=$1
git -C /repo apply $D/patch.diff || exit 3
cd /verif
for c in $(/venv/bin/python -c "import json;print(' '.join(x['property_id'] for x in json.load(open('/verif/MANIFEST.json'))['checks']))"); do
  timeout 600 ./check $c --no-write 2>&1 | grep -E "ANALYSIS-ERROR|^  " | grep -v KNOWN-FINDING | sed "s/^/[$c] /" | cut -c1-260 | head -4
done
git -C /repo checkout -- .
git -C /repo status --short | head -3
