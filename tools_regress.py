#!/venv/bin/python
"""tools_regress.py [seeds|benign|all] : replay the archived seeded changes (must be reported) and behaviour-preserving patches (must stay
silent) against the current checks, each in its own scratch worktree under /tmp (removed afterwards).  Development aid, not a check."""
import json, os, subprocess, sys
from concurrent.futures import ThreadPoolExecutor

V = "/verif"
PIDS = [c["property_id"] for c in json.load(open(f"{V}/MANIFEST.json"))["checks"]]


def sh(cmd, **kw):
    return subprocess.run(cmd, shell=True, capture_output=True, text=True, **kw)


def run_checks(wt, pids):
    fired, undecided = {}, {}
    for pid in pids:
        r = sh(f"cd {V} && timeout 900 ./check {pid} --no-write --root {wt}")
        lines = [l.strip() for l in r.stdout.splitlines() if l.startswith("  ") and "KNOWN-FINDING" not in l]
        if "ANALYSIS-ERROR" in r.stdout:
            undecided[pid] = [l for l in r.stdout.splitlines() if "ANALYSIS-ERROR" in l][0][:200]
        if lines:
            fired[pid] = lines[0][:220]
    return fired, undecided


def one(args):
    kind, d = args
    name = os.path.basename(d.rstrip("/"))
    wt = f"/tmp/rg_{name}"
    sh(f"git -C /repo worktree remove --force {wt}")
    r = sh(f"git -C /repo worktree add -q --detach {wt} HEAD && cd {wt} && git apply {d}/patch.diff")
    try:
        if r.returncode != 0:
            return kind, name, "PATCH-DOES-NOT-APPLY", {}, {}
        if kind == "seed":
            pid = json.load(open(f"{d}/meta.json")).get("property")
            fired, und = run_checks(wt, [pid])
            if not fired:
                f2, u2 = run_checks(wt, [p for p in PIDS if p != pid])
                fired.update(f2)
                und.update(u2)
            return kind, name, pid, fired, und
        fired, und = run_checks(wt, PIDS)
        return kind, name, "", fired, und
    finally:
        sh(f"git -C /repo worktree remove --force {wt}")


def main():
    what = sys.argv[1] if len(sys.argv) > 1 else "all"
    jobs = []
    if what in ("seeds", "all"):
        jobs += [("seed", f"{V}/seeded/{n}") for n in sorted(os.listdir(f"{V}/seeded")) if os.path.exists(f"{V}/seeded/{n}/patch.diff")]
    if what in ("benign", "all"):
        jobs += [("benign", f"{V}/benign/{n}") for n in sorted(os.listdir(f"{V}/benign")) if os.path.exists(f"{V}/benign/{n}/patch.diff")]
    bad = 0
    with ThreadPoolExecutor(max_workers=int(os.environ.get("VERIF_JOBS", "8"))) as ex:
        for kind, name, pid, fired, und in ex.map(one, jobs):
            if kind == "seed":
                own = pid in fired
                if pid == "PATCH-DOES-NOT-APPLY":
                    print(f"SEED {name}: patch does not apply to the current tree")
                    bad += 1
                elif not fired:
                    print(f"SEED {name}: MISSED by every check {('undecided: ' + str(und)) if und else ''}")
                    bad += 1
                elif not own:
                    print(f"seed {name}: not reported by {pid}; reported by {sorted(fired)}")
            else:
                if pid == "PATCH-DOES-NOT-APPLY":
                    print(f"BENIGN {name}: patch does not apply to the current tree (its silence is not being measured)")
                    bad += 1
                elif fired or und:
                    print(f"BENIGN {name}: FALSE ALARM {fired} {und}")
                    bad += 1
    print(f"{len(jobs)} patches replayed, {bad} problem(s)")
    sh("git -C /repo worktree prune")


main()
