#!/venv/bin/python
"""print the markdown table of kept seeded changes (DESIGN.md section 9.5) from seeded/*/meta.json"""
import json, os
rows = []
for n in sorted(os.listdir("/verif/seeded")):
    mp = f"/verif/seeded/{n}/meta.json"
    if not os.path.exists(mp):
        continue
    m = json.load(open(mp))
    what = " ".join(str(m.get("summary", m.get("description", ""))).split())[:150].replace("|", "/")
    rows.append(f"| `{n}` | {m.get('property','')} | {what} | {str(m.get('detected_by','')).replace('|','/')} |")
print("| seeded change | property | what it does | caught by |")
print("|---|---|---|---|")
print("\n".join(rows))
