#!/venv/bin/python
"""tools_triage_round.py <glob of agent out dirs, e.g. '/tmp/wt16_C*/out/1'> : confirm each seeded change and its twin in scratch worktrees of
/repo HEAD (clean demo passes; patched: tests pass + demo fails; twin: tests pass + demo passes) and run the checks against both (--root).
Development aid, not a check."""
import glob, json, os, re, subprocess, sys
from concurrent.futures import ThreadPoolExecutor

V = "/verif"
PIDS = [c["property_id"] for c in json.load(open(f"{V}/MANIFEST.json"))["checks"]]


def sh(cmd):
    return subprocess.run(cmd, shell=True, capture_output=True, text=True)


def checks(wt, pids):
    fired = {}
    for pid in pids:
        r = sh(f"cd {V} && timeout 900 ./check {pid} --no-write --root {wt}")
        lines = [l.strip() for l in r.stdout.splitlines() if l.startswith("  ") and "KNOWN-FINDING" not in l]
        if "ANALYSIS-ERROR" in r.stdout:
            fired[pid] = "UNDECIDED " + [l for l in r.stdout.splitlines() if "ANALYSIS-ERROR" in l][0][:200]
        elif lines:
            fired[pid] = lines[0][:230]
    return fired


def one(d):
    pid = re.search(r"_(C\d\d)", d).group(1)
    tag = d.replace("/", "_")
    wt = f"/tmp/tr{tag}"
    res = {"dir": d, "pid": pid}
    sh(f"git -C /repo worktree remove --force {wt}")
    sh(f"git -C /repo worktree add -q --detach {wt} HEAD")
    try:
        # demos may locate the package relative to their own path: run a copy that lives inside the scratch worktree
        sh(f"mkdir -p {wt}/out/1 && cp {d}/demo.py {wt}/out/1/demo.py")
        demo = f"cd {wt} && PYTHONPATH={wt} timeout 120 /venv/bin/python out/1/demo.py"
        res["clean_demo"] = sh(demo).returncode
        for kind, pf in (("seed", "patch.diff"), ("twin", "benign.diff")):
            sh(f"cd {wt} && git checkout -q -- .")
            if not os.path.exists(f"{d}/{pf}"):
                res[kind] = "missing"
                continue
            a = sh(f"cd {wt} && git apply {d}/{pf}")
            if a.returncode:
                a = sh(f"cd {wt} && git apply --3way {d}/{pf} && git reset -q")
                if a.returncode:
                    res[kind] = "DOES-NOT-APPLY"
                    sh(f"cd {wt} && git reset -q --hard")
                    continue
                res[kind + "_rebased"] = True
                open(f"{d}/{pf}.rebased", "w").write(sh(f"cd {wt} && git diff HEAD").stdout)
            t = sh(f"cd {wt} && /venv/bin/python -m pytest -q -p no:cacheprovider 2>&1 | tail -1").stdout.strip()
            res[kind + "_tests"] = t
            res[kind + "_demo"] = sh(demo).returncode
            if kind == "seed":
                f = checks(wt, [pid])
                if not f:
                    f = checks(wt, [p for p in PIDS if p != pid])
                res["seed_fired"] = f
            else:
                res["twin_fired"] = checks(wt, PIDS)
    finally:
        sh(f"git -C /repo worktree remove --force {wt}")
    return res


def main():
    dirs = sorted(glob.glob(sys.argv[1]))
    with ThreadPoolExecutor(max_workers=int(os.environ.get("VERIF_JOBS", "6"))) as ex:
        for r in ex.map(one, dirs):
            ok_seed = r.get("clean_demo") == 0 and "312 passed" in str(r.get("seed_tests")) and r.get("seed_demo") == 1
            ok_twin = "312 passed" in str(r.get("twin_tests")) and r.get("twin_demo") == 0
            print(f"== {r['dir']} [{r['pid']}] seed-confirmed={ok_seed} twin-confirmed={ok_twin}"
                  f"{' seed-rebased' if r.get('seed_rebased') else ''}{' twin-rebased' if r.get('twin_rebased') else ''}")
            if not ok_seed or not ok_twin:
                print("   ", {k: v for k, v in r.items() if k not in ("seed_fired", "twin_fired", "dir")})
            print("    SEED:", "REPORTED " + json.dumps(r.get("seed_fired"))[:300] if r.get("seed_fired") else "MISSED")
            print("    TWIN:", "ALARM " + json.dumps(r.get("twin_fired"))[:400] if r.get("twin_fired") else "silent")
            sys.stdout.flush()


main()
