#!/venv/bin/python
"""tools_keep_seed.py <srcdir> <seed-id> <pid> <detected-by> : keep a confirmed seeded change under /verif/seeded/<seed-id>/"""
import json, os, shutil, sys
src, sid, pid, by = sys.argv[1:5]
dst = f"/verif/seeded/{sid}"
os.makedirs(dst, exist_ok=True)
shutil.copy(f"{src}/patch.diff", f"{dst}/patch.diff")
shutil.copy(f"{src}/demo.py", f"{dst}/demo.py")
m = json.load(open(f"{src}/meta.json")) if os.path.exists(f"{src}/meta.json") else {}
m.update({"property": pid, "seed_id": sid, "origin": "independent sub-agent given only the property text and a scratch worktree",
          "confirmed": "in a fresh scratch worktree of /repo HEAD: demo exits 0 on the clean tree; with patch.diff applied the 312 tests pass and demo exits 1",
          "ran": f"git -C /repo apply patch.diff; ./check {pid} --no-write; git -C /repo checkout -- .",
          "detected_by": by})
json.dump(m, open(f"{dst}/meta.json", "w"), indent=1)
print("kept", dst)
