#!/bin/sh
# run every archived behaviour-preserving patch (benign/*/patch.diff) through every check; any output line is a false alarm
for d in /verif/benign/*/; do
  echo "== $(basename $d)"
  /verif/tools_try_benign.sh $d/patch.diff 2>&1 | grep -v "benign patch evaluated"
done
