"""E7 - linear ownership of cuckoo table entries along enumerated paths.

A *token* is a fingerprint (weight 1) or a (fingerprint, count) bin (weight = count).  Along a path the analysis tracks
which tokens are held outside the table: the function's token parameter, a table slot's old content once it has been
read into a variable and the slot is overwritten (capture), a bin object built from a held fingerprint (materialise).
Events: sink (append under the capacity guard, or store into a slot), capture, exit.  The eviction loop is walked as one
generic iteration under the invariant "exactly one token is held, in the in-hand variable, and the current bucket index
is one of its candidates"; the invariant must be re-established at the end of the body.
"""
from __future__ import annotations

from dataclasses import dataclass, field
from typing import Dict, List, Optional, Tuple

from .common import nshow, outer_field
from .expr import C, SELF, canon, strip_epochs, walk
from .walk import Event, State

TABLE = "_buckets"
BINF = "_CountingCuckooBin__bin"


def is_bucket(e) -> Optional[tuple]:
    """self._buckets[i] -> i"""
    e = strip_epochs(e)
    if e[0] == "sub" and e[1] == ("f", SELF, TABLE, 0):
        return e[2]
    return None


def is_slot(cont, index) -> Optional[Tuple[tuple, tuple]]:
    b = is_bucket(cont)
    if b is not None:
        return b, strip_epochs(index)
    return None


@dataclass
class Token:
    ident: tuple          # value expression identifying the token (fingerprint value, or bin object)
    finger: tuple         # fingerprint expression
    count: tuple          # weight expression (C(1) for plain fingerprints)
    origin: str           # 'param' | 'captured' | 'in-hand' | 'materialised'
    cands: List[tuple] = field(default_factory=list)  # bucket index expressions known to be candidates


@dataclass
class Flow:
    sunk: List[Tuple[Token, tuple, Event]] = field(default_factory=list)      # token, bucket index, event
    captured: List[Tuple[Token, Event]] = field(default_factory=list)
    problems: List[Tuple[str, str, Event]] = field(default_factory=list)      # (rule, message, event)
    held: List[Token] = field(default_factory=list)
    counter: List[Tuple[str, tuple, Event]] = field(default_factory=list)     # (field, delta expr, event)
    inhand_var: Optional[str] = None
    end_idx: Optional[tuple] = None


def bin_parts(obj):
    """finger / count expressions of a bin object expression"""
    o = strip_epochs(obj)
    return ("sub", ("f", o, BINF, 0), C(0), 0), ("sub", ("f", o, BINF, 0), C(1), 0)


# the two candidate-index formulas, as functions of ('p', 'fingerprint'), read off _indicies_from_fingerprint of the tree under
# analysis (set by the rules before the ownership analysis runs): lets `finger % capacity` stand for candidate 0 of `finger`
CAND_DEFS: List[tuple] = []


def set_candidate_defs(prog, ctx) -> None:
    from .common import paths
    from .expr import canon
    CAND_DEFS.clear()
    try:
        f = prog.method(ctx, "_indicies_from_fingerprint")
    except Exception:
        return
    outs = set()
    for p in paths(prog, ctx, f):
        if p.exit[0] == "return" and strip_epochs(p.exit[1])[0] == "tup":
            outs.add(tuple(canon(strip_epochs(x)) for x in strip_epochs(p.exit[1])[1]))
    if len(outs) == 1 and len(f.params) >= 2:
        CAND_DEFS.extend((f.params[-1], d) for d in next(iter(outs)))


def cand_of(idx, tok: Token) -> bool:
    """is bucket index expression idx one of tok's candidates?"""
    idx = strip_epochs(idx)
    if idx in [strip_epochs(c) for c in tok.cands]:
        return True
    if CAND_DEFS:
        from .expr import canon, mapx
        fg = strip_epochs(tok.finger)
        for (pn, d) in CAND_DEFS:
            if canon(idx) == canon(mapx(d, lambda n: fg if n == ("p", pn) else None)):
                return True
    if idx[0] == "phi":
        return cand_of(idx[2], tok) and cand_of(idx[3], tok)
    if idx[0] == "call" and idx[1] == ("ext", "random", "choice") and idx[2] and idx[2][0][0] == "lst":
        return all(cand_of(x, tok) for x in idx[2][0][1])
    # result k of _indicies_from_fingerprint(self, <finger of tok>)
    if idx[0] == "sub" and idx[1][0] == "ret" and idx[1][1].endswith("._indicies_from_fingerprint") and idx[2][0] == "c":
        arg = strip_epochs(idx[1][3][-1])
        return arg == strip_epochs(tok.finger)
    return False


def analyse(p: State, counting: bool, token_params: Dict[str, Tuple[str, str, List[str]]], counters=("_inserted_elements",)) -> Flow:
    """token_params: param name -> (kind 'fp'|'bin'|'maybe', count param name or '', candidate param names)"""
    fl = Flow()
    names: Dict[str, tuple] = {}
    for pn, (kind, cnt, cands) in token_params.items():
        v = ("p", pn)
        if kind == "bin":
            fg, ct = bin_parts(v)
            fl.held.append(Token(v, fg, ct, "param", [("p", c) for c in cands]))
        else:
            fl.held.append(Token(v, v, ("p", cnt) if cnt else C(1), "param", [("p", c) for c in cands]))
    in_loop = None
    loop_idx_var = None

    def find(v):
        v = strip_epochs(v)
        for t in fl.held:
            if strip_epochs(t.ident) == v:
                return t
        return None

    for e in p.events:
        if e.loops and in_loop is None:
            # entering the generic iteration: the single held token lives on in the havocked in-hand variable
            in_loop = e.loops[0]
            if len(fl.held) == 1:
                t = fl.held[0]
                holder = [n for n, v in names.items() if strip_epochs(v) == strip_epochs(t.ident)] + \
                         [pn for pn in token_params if strip_epochs(t.ident) == ("p", pn)]
                if holder:
                    fl.inhand_var = holder[-1]
                    hv = ("hv", fl.inhand_var, in_loop)
                    idxs = [n for n, v in names.items() if cand_of(v, t)]
                    if counting:
                        fg, ct = bin_parts(hv)
                        # weight of the in-hand bin: established when it was materialised (checked there)
                        nt = Token(hv, fg, ct, "in-hand", [("hv", n, in_loop) for n in idxs])
                    else:
                        nt = Token(hv, hv, C(1), "in-hand", [("hv", n, in_loop) for n in idxs])
                    nt.entry_token = t  # type: ignore
                    fl.held = [nt]
                    loop_idx_var = idxs
            elif len(fl.held) != 1:
                fl.problems.append(("own.loop-invariant", f"{len(fl.held)} tokens held at the head of the eviction loop; exactly one is required", e))
        if e.kind in ("bind", "loopinit"):
            # (loopinit: what a loop-carried variable - possibly a parameter of a helper that was looked through - holds at loop entry)
            names[e.name] = e.value
        elif e.kind == "new" and e.cls == "CountingCuckooBin":
            a = [strip_epochs(x) for x in e.args]
            src = None
            for t in fl.held:
                if len(a) == 2 and a[0] == strip_epochs(t.finger):
                    src = t
            if src is not None and not any(strip_epochs(x.ident) == strip_epochs(e.obj) for x in fl.held):
                # materialise: a bin object for a held fingerprint
                if a[1] != strip_epochs(src.count):
                    fl.problems.append(("own.weight", f"a bin for the held fingerprint is built with count {nshow(a[1])}, but the token's weight is {nshow(src.count)}", e))
                fg, ct = bin_parts(e.obj)
                nt = Token(e.obj, src.finger, src.count, "materialised", list(src.cands))
                nt.pending_of = src  # type: ignore
                fl.held.remove(src)  # the bin object now stands for the held fingerprint
                fl.held.append(nt)
        elif e.kind == "setelem" and is_slot(e.cont, e.index) is not None:
            b, j = is_slot(e.cont, e.index)
            old = strip_epochs(("sub", strip_epochs(e.cont), j, 0))
            holders = [n for n, v in names.items() if strip_epochs(v) == old]
            v = strip_epochs(e.value)
            t = find(v)
            if t is None:
                fl.problems.append(("own.sink-unheld", f"slot is overwritten with {nshow(v)}, which is not a token in hand", e))
            else:
                fl.held.remove(t)
                src = getattr(t, "pending_of", None)
                if src is not None and src in fl.held:
                    fl.held.remove(src)
                if not cand_of(b, t) and not (t.origin == "in-hand" and b[0] == "hv"):
                    fl.problems.append(("own.candidate", f"token {nshow(t.ident)} is stored into bucket {nshow(b)}, which is not known to be one of its two candidate buckets", e))
                fl.sunk.append((t, b, e))
            if not holders:
                fl.problems.append(("own.overwrite-without-capture", f"slot {nshow(old)} is overwritten without its old content being kept: the stored entry is lost", e))
            else:
                if counting:
                    fg, ct = bin_parts(old)
                    ct_tok = Token(old, fg, ct, "captured", [])
                else:
                    ct_tok = Token(old, old, C(1), "captured", [])
                fl.held.append(ct_tok)
                fl.captured.append((ct_tok, e))
        elif e.kind == "call" and e.target is None and e.name == "append" and e.recv is not None and is_bucket(e.recv) is not None:
            b = is_bucket(e.recv)
            v = strip_epochs(e.args[0]) if e.args else None
            t = find(v) if v is not None else None
            if t is None and v is not None and v[0] == "new":
                # bin object built in place (already materialised above)
                t = find(v)
            if t is None:
                fl.problems.append(("own.sink-unheld", f"{nshow(v) if v else '?'} is appended to a bucket but is not a token in hand (entry duplicated or invented)", e))
                continue
            fl.held.remove(t)
            src = getattr(t, "pending_of", None)
            if src is not None and src in fl.held:
                fl.held.remove(src)
            if not cand_of(b, t) and not (src is not None and cand_of(b, src)):
                fl.problems.append(("own.candidate", f"token {nshow(t.finger)} is appended to bucket {nshow(b)}, which is not one of its two candidate buckets", e))
            # capacity guard
            fl.sunk.append((t, b, e))
        elif e.kind == "setfield" and e.base == SELF and e.name in counters:
            prev = ("f", SELF, e.name, 0)
            v = strip_epochs(e.value)
            delta = None
            if v[0] == "nary" and v[1] == "+" and prev in v[2]:
                rest = [x for x in v[2] if x != prev]
                delta = rest[0] if len(rest) == 1 else ("nary", "+", tuple(rest))
            elif v[0] == "bin" and v[1] == "-" and v[2] == prev:
                delta = ("un", "-", v[3])
            fl.counter.append((e.name, delta if delta is not None else ("unk", nshow(v)), e))
    # drop unconsumed materialisations whose source is still held (object built but never stored)
    fl.held = [t for t in fl.held if not (t.origin == "materialised" and getattr(t, "pending_of", None) in fl.held and False)]
    # end of generic iteration: which variable holds the remaining token, and the index variable's value
    if in_loop is not None:
        fl.end_names = dict(names)  # type: ignore
    return fl
