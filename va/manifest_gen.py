"""Regenerates /verif/MANIFEST.json from the claim table below:  python -m va.manifest_gen"""
import json
import os

VERIF = os.path.dirname(os.path.dirname(os.path.abspath(__file__)))

TRUST = ("Home-made static analyses over stdlib ast (program model, path walker, normal forms, intervals, effects); "
         "trusted: CPython semantics of the statement kinds the package uses, the builtin-container mutability table, "
         "struct native sizes on x86-64. Nothing from the repository is executed.")

CLAIMS = {
    "C16": dict(
        technique="interval abstract interpretation over reconstructed store values (path-sensitive, cells re-read)",
        text="Sound-under-assumptions bound proof: every element store into the array('I')/array('i') counter fields and "
             "every element-total left by a mutator in countingbloom.py/countminsketch.py is shown to stay inside the "
             "typecode / footer-slot range on every syntactic path, for all amounts num_els >= 1; a pinned counting-Bloom "
             "cell is never decremented; the constants a cell or the total can be pinned at are exactly the limits of that storage. Decides the 'no OverflowError, no half-updated call, value pinned' clauses for "
             "all inputs at once; does not decide the lower bound 0 of counting-Bloom cells under over-removal. The lower limit 0 of the unsigned counting-Bloom cells and of the unsigned element total is decided too (no waiver for decrements any more: a cell is lowered by cell - min(amount, cell), the total is pinned with max(.., 0)) - written from the repaired defects D17 / D18.",
        design_ref="DESIGN.md section 4 C16, section 3 E5"),
    "C19": dict(
        technique="interprocedural write-effect (mod-set) analysis per concrete class; clear-vs-mutator field-set comparison",
        text="Effect proof under stated assumptions: for each of the concrete classes every public query (look-ups, estimates, "
             "statistics, string conversion, hashes, exports, getters, Bloom set operations) has an empty transitive write effect "
             "on the receiver, on parameter state and on class state (closed over the resolved call graph incl. function-pointer "
             "slots; reading from a mapping the structure keeps open counts as an effect on its cursor); set operations never write the "
             "non-receiver operand and never leave in the receiver the operand's own mutable object or a shallow copy that shares its inner array; clear() writes every field a state mutator writes, with the constructor's initial value and arrays "
             "zeroed over their full range (a cell may be skipped only where it already is zero). Structural, near-sufficient: what is trusted is the "
             "mutability table of builtin containers and the purity contract of user hash callables.",
        design_ref="DESIGN.md section 4 C19, section 3 E3"),
    "C20": dict(
        technique="guard dominance via ordering sets + intervals on every array access; normal-form comparison of address/mask shapes",
        text="Near-sufficient structural decision: every access to Bitarray's byte array is dominated on every path by a guard whose "
             "admitted orderings are exactly 0 <= idx < size (rejecting paths raise IndexError before any store; __setitem__ stores "
             "exactly for val in {0,1}); all accesses agree on byte idx//8 and mask 1<<(idx%8); set is old|m, clear is old&~m, read is "
             "(old&m)!=0; stored bytes stay in [0,255]; allocation is ceil(size/8) bytes; clear/as_string/num_bits_set cover the full "
             "range through the guarded reader (or read bit x of every x in range(size) directly with the documented byte/mask: the domain is the guard) and return nothing but what is recomputed from the bits (no remembered count). Accesses "
             "are compared in positional row form, so helper extraction, mask tables, divmod and |= spellings are the same program. "
             "Does not decide non-integer arguments.",
        design_ref="DESIGN.md section 4 C20"),
    "C01": dict(
        technique="normal-form agreement of add/check address expressions, who-may-write effect analysis, path-shape rules on the expanding scan",
        text="Structural, near-sufficient: in contexts BloomFilter and BloomFilterOnDisk every reachable element store into the bit "
             "array outside clear() is old|m, the array is rebound only by constructors/loaders; check_alt probes exactly the byte "
             "index, mask and loop domain that add_alt sets and only a zero probe yields False; add/check hash with the same call; "
             "the expanding filter scans all sub-filters, never removes one, inserts into the newest, builds all with the same "
             "parameters; union is cell-wise OR over the full range; every loader path takes the payload from its input. Decides "
             "these for all inputs/histories at once; does not decide determinism of user hash callables. check() calls the hashing strategy with exactly the arguments add() uses (a probe with another depth is accepted only under an identity test with a shipped strategy).",
        design_ref="DESIGN.md section 4 C01"),
    "C12": dict(
        technique="normal-form comparison of combine expressions; full-range loop-domain rule against allocation lengths",
        text="Structural part: union (Bloom, on-disk, counting) and count-min join store self-cell (op) operand-cell at the same "
             "index with op = |, + (clamped), + (clamped) over exactly the allocated range, into a fresh result built from the "
             "receiver's parameters (join: in place, adding the operand's total). The equality with a single-stream structure is the "
             "consequence (with C01/C02 agreement), not a checked fact.",
        design_ref="DESIGN.md section 4 C12, R-RANGE"),
    "C13": dict(
        technique="guard-dominance on enumerated paths, ordering-set decision tables for non-zero tests, mirror-comparison components, effects",
        text="Structural, near-sufficient: in all 9 Bloom set operations the type test is the first decision (TypeError) and the "
             "similarity test the second (None) before any allocation; the similarity test compares hash count, bit count and probe "
             "hash; intersection keeps exactly positions set in both (a&b / both-non-zero table) over the full range; Jaccard is "
             "|both|/|either| over the full range with 1.0 for an empty union (symmetric by normal form); join refuses foreign types "
             "and mismatched geometry/hash before any store; no operation writes its operand. Does not decide the numeric value. The counting intersection / Jaccard index may also be written in one expression over zip of all cells (V if <both in use> else 0; sum(1 for ... if ...)): whether a test means both / either non-zero is decided by a truth table over sample cell values.",
        design_ref="DESIGN.md section 4 C13"),
    "C02": dict(
        technique="normal-form agreement of cell-index expressions across add/remove/check; per-branch stored-vs-reported comparison",
        text="Structural part: add_alt, remove_alt and check_alt of the count-min sketch address the same cell per row "
             "((hash % width) + row*width over enumerate(hashes)); each row gets exactly one store per call of cell +/- num_els or "
             "the clamp constant; on every branch the stored value equals the value reported for that row; all three return "
             "query(sorted(rows)) and the default query is element 0 (or query(rows) with the default query min(rows): if not every caller sorts, no query may rely on the order); the total moves by +/- num_els before the query runs. The "
             "numeric lower/upper bound is the consequence under array('i') semantics, not a checked fact.",
        design_ref="DESIGN.md section 4 C02"),
    "C09": dict(
        technique="path-shape rules (must-precede, exactly-once) and ordering-set judgement of the growth predicate under an inductive hypothesis",
        text="Structural part: on every path of ExpandingBloomFilter.add_alt the total is incremented exactly once, the key is "
             "inserted into the newest sub-filter exactly when force or not present (a skipped scan counts as 'not present' only where the path pins the filter to one sub-filter with counter 0 and the empty-filter lemmas hold), and the growth check runs once before the "
             "insertion (judged on the whole paths of add_alt with the private growth helpers looked through, so the rule does not "
             "depend on which helper holds the decision); the growth predicate admits growth only at count >= est and never leaves count = est without growth "
             "(judged by ordering sets under count <= est, so >=/==/not< pass and >, >= est-1 fail); growth appends one sub-filter "
             "built with the filter's own est_elements; a sub-filter counts one per add_alt. The closed form for the number of "
             "expansions is the arithmetic consequence.",
        design_ref="DESIGN.md section 4 C09, E8"),
    "C10": dict(
        technique="decision table over enumerated paths of the rotation with predicates judged by ordering sets; FIFO orientation rule",
        text="Structural part (judged through the two callers add_alt and push with the private helpers looked through): the rotation "
             "appends exactly when forced (push) or ready; appends without room are preceded by "
             "exactly one pop(0), appends with room by none, a pop is always followed by an append; only pop(0)/append touch the "
             "queue (FIFO); pop() refuses a single-element queue before mutating; push forces; add_alt counts every call, inserts "
             "exactly when force or not present and rotates first; max_queue_size is written only by the constructor; the constructor and the alternate constructors "
             "remove sub-filters from a freshly built / restored queue only as the trimming of an over-long one (len > limit on the path, or a slice stop clamped at 0). Bounded "
             "queue, never empty and the sliding-window clause follow from FIFO plus these bounds.",
        design_ref="DESIGN.md section 4 C10, E8"),
    "C17": dict(
        technique="decision tables (predicate abstraction by ordering sets) over enumerated paths; stored-vs-returned comparison",
        text="Structural part: StreamThreshold.add_alt/remove_alt set table[key] = estimate exactly on paths with estimate >= "
             "threshold and pop the key exactly on paths below it (a table method remembered in a field is followed, and reported stale if the table is re-bound without refreshing it); HeavyHitters.add_alt grows the table only with room (size < "
             "limit), replaces by storing then evicting exactly the minimum, leaves a key untracked only when its estimate cannot "
             "exceed the cached smallest; recorded and returned values are the sketch's estimate; cached size/smallest are "
             "len(table)/table minimum. Does not decide tie-breaking or the relation of estimates to true counts.",
        design_ref="DESIGN.md section 4 C17, E8"),
    "C05": dict(
        technique="codec agreement: writer emission lists vs reader slot-to-field must-assign (label flow through full inlining), intervals for the sentinel",
        text="Structural part: for the five formats the writer's emission list is extracted from export and compared with every load "
             "entry point (path, file object, bytes, hex; 20+ readers): same struct format, every field packed at slot i is "
             "must-assigned from slot i on every reader path, payload taken from the input data with the allocation's typecode and "
             "itemsize x length, expanding frames consumed with an exactly advancing cursor (a frame whose counter reads 0 may be left as built when an empty sub-filter provably has zero cells, the cursor still advancing), __bytes__/path export delegate to one "
             "body (or spell out its emission list), the cuckoo empty-slot marker is outside the fingerprint interval, inherited alternate "
             "constructors build cls, a raw array initialiser is bytes (not an iterated buffer), Bloom constructors take the documented "
             "precedence file / hex string / parameters; a field the parameter branch of a constructor computes is not left at a placeholder constant by the loading branch; "
             "sub-structures built while loading are given the hashing strategy the structure ends up with (constructor and every alternate constructor that takes it); "
             "a field packed into an unsigned footer slot is not given the answer of a method that can return a negative constant (open finding D16: the estimate's -1 "
             "reaches elements_added of a saturated union / intersection, which then cannot be exported); the error rate a reloaded cuckoo filter reports is the one its loaded geometry gives "
             "(D19, repaired in /repo 3f701ff: frombytes kept the rate computed for the default bucket size). "
             "Query-by-query equality and byte-exact re-export are consequences, not checked facts.",
        design_ref="DESIGN.md section 4 C05, E6"),
    "C07": dict(
        technique="tolerant normal-form comparison of sizing formulas; provenance of geometry arguments; effect analysis",
        text="Formula/determinism part only: the three sizing computations are compared in normal form (float constants exactly: the documented divisor 0.4804530139182 is not ln(2)**2) "
             "with the formulas quoted in the property (Bloom bits/hashes incl. float32 narrowing and the zero-hash rejection; "
             "count-min width/depth on every constructor path that keeps the caller's accuracy pair, for the base class and for every subclass with its own constructor looked through; cuckoo fingerprint bits and its inverse); they have no write effect and call only pure "
             "functions; every write of the Bloom geometry goes through _set_values with arguments originating from "
             "_get_optimized_params applied to the stored (est_elements, rate), in constructors and all loaders, which is what makes a "
             "reload reproduce the geometry. NOT decided: the numeric inequalities (7% allowance, 2/width <= eps, ...) under "
             "floating point at specific parameter pairs.",
        design_ref="DESIGN.md section 4 C07"),
    "C06": dict(
        technique="normal-form comparison of emission lists, address functions, query formulas and hash kernels against the documented layout",
        text="Layout description only: footer formats, field order and sizes with cells first; Bloom bit addressing and array length; "
             "one uint32 cell per counting position; count-min cell formula and int32 cells; mean and mean-min query formulas incl. "
             "the median rule and the query-type setter (each name selects its estimator, anything else the minimum); the expanding filter's per-sub-filter record (uint64 count immediately followed by its bit array); "
             "cuckoo buckets of bucket_size uint32 slots padded with 0; seeded FNV-1a 64/32 kernels and constants; "
             "the default hash strategy of each structure. The numbers are the specification quoted in the property. NOT decided: "
             "that a C compiler lays out the reference reader identically, or agreement of answers as such (the consequence).",
        design_ref="DESIGN.md section 4 C06"),
    "C18": dict(
        technique="effect analysis, non-interference (label flow of depth), normal-form comparison with published FNV-1a, append-count rule",
        text="Structural, near-sufficient for the shipped strategies: the seven hash functions have no write effect and call only "
             "digest/unpack/ord/list/map/range/encode and the wrapped function; exactly depth values are appended to a fresh list; "
             "depth flows only into the loop bound (prefix stability as non-interference); FNV values are masked to 64/32 bits and "
             "digests read as 'Q' of the first 8 bytes; constants and kernel are the published FNV-1a with basis + 31*seed and the "
             "index as seed; str keys are utf-8 encoded before the first digest / mapped through ord for FNV; the int decorator hashes the key "
             "itself in round 0 and the lower-case hex of the previous round's value afterwards (generic iteration instantiated at round 0 "
             "and at a later round). Purity of "
             "user-supplied callables is a contract, not decided.",
        design_ref="DESIGN.md section 4 C18"),
    "C11": dict(
        technique="must-precede ordering on inlined event sequences, struct-literal offset arithmetic, who-may-write rule, path-provenance label flow",
        text="Ordering/provenance part only: on every path add_alt performs bit stores, counter, flush mapping, seek, 8-byte write, flush "
             "file in that order; close syncs before releasing; the rewritten bytes are exactly slot 1 of the footer (computed from the "
             "struct literals); after creation only OR-stores and that slot write touch the file; every public mutator of persisted state "
             "reaches the sync; a created file is ceil(bits/8) zero bytes followed by the footer (where creation is a tofile/seek/write sequence); every path handed to open/copyfile/_load is the resolved path without lossy projection; no rename / "
             "replace / unlink is reachable without a guard comparing the backing path with the resolved destination; every open-for-writing "
             "the constructor reaches discards what the path held before (mode w/x, O_TRUNC/O_EXCL, truncate to 0); reopening "
             "restores the count. NOT decided: crash atomicity of the 8-byte write, page-cache / msync behaviour (OS semantics).",
        design_ref="DESIGN.md section 4 C11"),
    "C03": dict(
        technique="linear-ownership typestate of table entries over enumerated paths incl. raise exits; loop summarised by an invariant",
        text="Structural part: in both cuckoo contexts no table slot is overwritten before its content was captured; at every success "
             "exit of the insert nothing is held outside the table and a returned left-over is exactly what is in hand (the eviction "
             "loop is covered for ALL random choices by the invariant 'one entry in hand, in the in-hand variable'); expansion collects "
             "the left-over and every bucket over the full old range before replacing the table and re-inserts the whole list; add() "
             "passes the left-over on; remove mutates only after the presence test. KNOWN FINDINGS (genuine defect D6, not repaired): "
             "_deal_with_insertion and _expand_logic raise CuckooFilterFullError with entries held only in locals, in both contexts. "
             "Does not decide that an expansion into a larger table always succeeds.",
        design_ref="DESIGN.md section 4 C03, section 5 D6, E7"),
    "C08": dict(
        technique="normal-form agreement of cell addressing under checked lemmas; ordering-set guards; weighted ownership analysis of bins",
        text="Structural part: counting Bloom add/remove/check address hash mod number-of-positions over the key's hash list (lemma "
             "bloom_length = number_bits checked on every construction path); add and remove walk the same index list with amounts "
             "num_els and min(num_els, minimum); remove's no-op exits are guarded exactly by minimum == 0 / == limit before any store. "
             "Counting cuckoo: every bin built for a held entry carries that entry's count (new key: the caller's count, also on the "
             "eviction path; kicked bin: its own), expansion re-inserts each bin with its own count, a present key's add increments "
             "its bin, a bin matches a value exactly when the value is its fingerprint, check reports the count of the one holding bin (each candidate bucket visited once), remove decrements / drops at zero / "
             "is a no-op returning False when absent. Counts under collisions are not decided.",
        design_ref="DESIGN.md section 4 C08"),
    "C14": dict(
        technique="pairing and delta agreement between storage events and counter updates per enumerated path; ownership weights; formula conformance",
        text="Structural part: per mutator path the element counter is updated exactly when storage changes and by the matching amount "
             "for all seven structures (table in DESIGN.md section 4 C14), incl. cuckoo success exits (+weight of the entry that entered), "
             "removals, recount on expansion and load, quotient +1/-1/0/reset; load factors read the counter over capacity x bucket size (a remembered "
             "product counts only when every writer of its factors refreshes it); estimate_elements and "
             "current_false_positive_rate conform to the standard formulas and set-operation results take the estimate. Agreement with "
             "an external model of the history is not decided.",
        design_ref="DESIGN.md section 4 C14"),
    "C15": dict(
        technique="guard dominance by ordering sets on every bucket-level append; candidate relation from the ownership analysis; who-may-write",
        text="Structural part: every append of an entry to a bucket is dominated by len(bucket) < bucket_size (or sits in a loader loop over "
             "range(bucket_size)), in-place extension (+=) of anything that may alias a bucket included; the candidate buckets are recomputed from the fingerprint and the current capacity only (no "
             "remembered indices); every sink goes to a candidate bucket of the entry sunk and the eviction loop recomputes the next "
             "index from the entry now in hand; callers pass an entry with its own candidate indices; insertion only on the not-present "
             "branch; counting bins are never built with a possibly-zero count and a decrement is followed by the ==0 -> remove test; "
             "capacity is written only by constructor/loaders and as capacity * expansion_rate (a value handed to a private helper is "
             "decided at its call sites); a bucket appended to the table in a loop is built or copied in that round (never one object created before the loop) and the table is not [bucket] * n. Tables loaded from foreign files are "
             "outside the claim.",
        design_ref="DESIGN.md section 4 C15"),
    "C04": dict(
        technique="three-point index-range lattice with assume-guarantee at calls; counter pairing; guard dominance; call-order rules",
        text="THIN SLICE, claimed at the weakest level: decides (a) elements_added moves +1 per slot filled, -1 per slot emptied, 0 when "
             "absent, reset with the arrays; every method that assigns q, r, size, mod_size or an array (private helpers looked through) "
             "leaves size = 1<<q, mod_size = size-1, r = 32-q, arrays of that length (fresh, or adopted together with the donor's quotient), "
             "and refreshes every field the constructor derives from the quotient; (b) every index into the remainder array and the three bit vectors is in [0, size) on "
             "every path (masked / mod size / range(size) / 32-bit-hash quotient / guarded location / inductive loop variable; every "
             "call passes in-range index arguments); (c) _add is reached only under 'not contained'; (d) resize reads the hashes before "
             "replacing the arrays and re-inserts all, merge re-inserts all; (e) four necessary conditions of the layout logic that are "
             "visible in the shape of the code: a look-up reports a slot only inside the element's own run, removing a run's only "
             "element clears its occupied bit, the bits of an inserted element follow their definitions (shifted iff slot != "
             "quotient, continuation iff slot != run start, occupied[q] set), and hashes() starts its walk at an empty slot or, "
             "failing that, a cluster start; (f) in the removal routine a cyclic walk that leaves only through the metadata bits, after the routine has "
             "stored into them, is also bounded by an index comparison, and a walk that ended at that bound is followed by the re-marking pass "
             "(written from defect D14: removal from a table without an empty slot did not return; repaired in /repo). NOT decided - and this is the heart of the property: that "
             "run/cluster shifting keeps the layout canonical for every neighbourhood shape, and termination of the other cyclic walks (insertion shift, start search), "
             "which rest on 'the table is not full' / 'a non-empty table has a cluster start'. merge walks a snapshot of the operand's hashes (a list), or excludes second is self, "
             "while it inserts into the receiver (written from defect D15, repaired in /repo).",
        design_ref="DESIGN.md section 4 C04"),
}

NA_DEFAULT = "check not built yet (build phase in progress; DESIGN.md section 4 gives the planned rule)"
NA = {}


def main():
    props = [json.loads(l) for l in open(os.path.join(VERIF, "properties.jsonl"))]
    checks = []
    na = []
    for p in props:
        pid = p["id"]
        if pid in CLAIMS and os.path.exists(os.path.join(VERIF, "va", "rules", pid + ".py")):
            c = CLAIMS[pid]
            checks.append({
                "property_id": pid,
                "quick_cmd": f"./check {pid} --tier quick",
                "thorough_cmd": f"./check {pid} --tier thorough",
                "evidence_file": f"/verif/evidence/{pid}.json",
                "replay_cmd_template": f"./check {pid} --replay {{path}}",
                "engine": "va",
                "level_claimed": {"category": "other", "text": c["text"], "design_ref": c["design_ref"]},
                "level_note": c.get("note", TRUST),
                "technique": "static analysis: " + c["technique"],
            })
        else:
            na.append({"property_id": pid, "reason": NA.get(pid, NA_DEFAULT)})
    m = {
        "version": 1,
        "setup_cmd": "./check --self-check",
        "hooks": {
            "guard": "PYPROBABLES_VERIF",
            "enable": "no hooks: the checks are static analyses of /repo/probables and execute nothing from it",
            "baseline_off_cmd": "cd /repo && /venv/bin/python -m pytest -ra -q -p no:cacheprovider --timeout=900 --continue-on-collection-errors",
            "source_commits": [],
            "add_only": True,
        },
        "engines": [{
            "name": "va", "path": "/verif/va",
            "serves_properties": [c["property_id"] for c in checks],
            "kind_free_text": "custom static analyser for pyprobables over stdlib ast: program model with MRO/mangling/"
                              "property aliasing, syntax-directed path walker with gated value reconstruction and bounded "
                              "inlining, expression normal forms, interval domain, effect summaries, ownership typestate, "
                              "decision tables; in-memory mutation self-test in the thorough tier",
        }],
        "checks": checks,
        "notes": "All checks parse /repo/probables on every run and never import it. Exit 0 holds, 1 VIOLATION, 2 ANALYSIS-ERROR "
                 "(undecided / anchor vanished). Known findings: /verif/known_findings.jsonl.",
        "not_applicable": na,
    }
    with open(os.path.join(VERIF, "MANIFEST.json"), "w") as fh:
        json.dump(m, fh, indent=1)
    print(f"{len(checks)} checks, {len(na)} not applicable")


if __name__ == "__main__":
    main()
