"""The anchor table: qualified names of every function of the pinned tree that is more than a single return statement.

A call to one of these is kept as a call (the rules are written against them); every other function - the single-return wrappers and
property getters of the pinned tree, and any helper a later change extracts, renames or adds - is looked through (inlined).  The decision
is by NAME, never by the shape a function happens to have after a change: turning a loop into `return any(...)`, or splitting a
one-liner into two statements, does not change what a rule sees.

Generated once from the pinned tree by tools_gen_anchors.py; not regenerated at run time.
"""
OPAQUE = frozenset("""
    Bitarray.__init__ Bitarray.__setitem__ Bitarray.check_bit Bitarray.clear Bitarray.clear_bit Bitarray.set_bit BloomFilter.__bytes__
    BloomFilter.__init__ BloomFilter.__str__ BloomFilter._cnt_number_bits_set BloomFilter._get_optimized_params BloomFilter._load
    BloomFilter._load_hex BloomFilter._load_init BloomFilter._parse_bloom_array BloomFilter._parse_footer BloomFilter._set_values
    BloomFilter._verify_bloom_similarity BloomFilter.add BloomFilter.add_alt BloomFilter.check_alt BloomFilter.clear
    BloomFilter.current_false_positive_rate BloomFilter.estimate_elements BloomFilter.export BloomFilter.export_c_header BloomFilter.export_hex
    BloomFilter.frombytes BloomFilter.hashes BloomFilter.intersection BloomFilter.jaccard_index BloomFilter.union BloomFilterOnDisk.__del__
    BloomFilterOnDisk.__init__ BloomFilterOnDisk.__update BloomFilterOnDisk._load BloomFilterOnDisk._load_init BloomFilterOnDisk.add_alt
    BloomFilterOnDisk.clear BloomFilterOnDisk.close BloomFilterOnDisk.export BloomFilterOnDisk.frombytes CountMeanMinSketch.__init__
    CountMeanSketch.__init__ CountMinSketch.__bytes__ CountMinSketch.__init__ CountMinSketch.__load CountMinSketch.__mean_min_query
    CountMinSketch.__str__ CountMinSketch._parse_bytes CountMinSketch._parse_footer CountMinSketch.add_alt CountMinSketch.check_alt
    CountMinSketch.clear CountMinSketch.export CountMinSketch.frombytes CountMinSketch.join CountMinSketch.query_type
    CountMinSketch.query_type.setter CountMinSketch.remove_alt CountMinSketchError.__init__ CountingBloomFilter.__init__ CountingBloomFilter.__str__
    CountingBloomFilter._load_init CountingBloomFilter.add_alt CountingBloomFilter.frombytes CountingBloomFilter.intersection
    CountingBloomFilter.jaccard_index CountingBloomFilter.remove_alt CountingBloomFilter.union CountingCuckooBin.__init__ CountingCuckooBin.decrement
    CountingCuckooBin.increment CountingCuckooFilter.__bucket_decomposition CountingCuckooFilter.__contains__ CountingCuckooFilter.__init__
    CountingCuckooFilter.__insert_element CountingCuckooFilter._check_if_present CountingCuckooFilter._expand_logic
    CountingCuckooFilter._insert_fingerprint_alt CountingCuckooFilter._load CountingCuckooFilter._parse_buckets CountingCuckooFilter.add
    CountingCuckooFilter.check CountingCuckooFilter.expand CountingCuckooFilter.export CountingCuckooFilter.frombytes
    CountingCuckooFilter.init_error_rate CountingCuckooFilter.load_error_rate CountingCuckooFilter.remove CuckooFilter.__bytes__
    CuckooFilter.__init__ CuckooFilter.__insert_element CuckooFilter._check_if_present CuckooFilter._deal_with_insertion CuckooFilter._expand_logic
    CuckooFilter._generate_fingerprint_info CuckooFilter._indicies_from_fingerprint CuckooFilter._insert_fingerprint CuckooFilter._load
    CuckooFilter._parse_bucket CuckooFilter._parse_buckets CuckooFilter._parse_footer CuckooFilter._set_error_rate CuckooFilter._setup_expand
    CuckooFilter.add CuckooFilter.check CuckooFilter.expand CuckooFilter.export CuckooFilter.fingerprint_size.setter CuckooFilter.frombytes
    CuckooFilter.init_error_rate CuckooFilter.load_error_rate CuckooFilter.remove CuckooFilterFullError.__init__
    ExpandingBloomFilter.__add_bloom_filter ExpandingBloomFilter.__bytes__ ExpandingBloomFilter.__check_for_growth ExpandingBloomFilter.__init__
    ExpandingBloomFilter.__load ExpandingBloomFilter._parse_blooms ExpandingBloomFilter._parse_footer ExpandingBloomFilter.add
    ExpandingBloomFilter.add_alt ExpandingBloomFilter.check ExpandingBloomFilter.check_alt ExpandingBloomFilter.export ExpandingBloomFilter.frombytes
    ExpandingBloomFilter.push HeavyHitters.__init__ HeavyHitters.__str__ HeavyHitters.add_alt HeavyHitters.clear HeavyHitters.frombytes
    HeavyHitters.join HeavyHitters.remove_alt InitializationError.__init__ MMap.__exit__ MMap.__init__ MMap.close MMap.seek
    NotSupportedError.__init__ ProbablesBaseException.__init__ QuotientFilter.__init__ QuotientFilter.__set_params QuotientFilter._add
    QuotientFilter._contained_at_loc QuotientFilter._element_is QuotientFilter._get_start_index QuotientFilter._is_run_or_cluster_start
    QuotientFilter._remove_element QuotientFilter._shift_insert QuotientFilter.add QuotientFilter.add_alt QuotientFilter.check
    QuotientFilter.check_alt QuotientFilter.hashes QuotientFilter.merge QuotientFilter.print QuotientFilter.remove QuotientFilter.remove_alt
    QuotientFilter.resize QuotientFilter.validate_metadata QuotientFilterError.__init__ RotatingBloomFilter.__add_bloom_filter
    RotatingBloomFilter.__init__ RotatingBloomFilter.__rotate_bloom_filter RotatingBloomFilter.add_alt RotatingBloomFilter.frombytes
    RotatingBloomFilter.pop RotatingBloomFilter.push RotatingBloomFilterError.__init__ StreamThreshold.__init__ StreamThreshold.__str__
    StreamThreshold.add_alt StreamThreshold.clear StreamThreshold.frombytes StreamThreshold.join StreamThreshold.remove_alt
    probables.hashes.default_fnv_1a probables.hashes.fnv_1a probables.hashes.fnv_1a_32 probables.hashes.hash_with_depth_bytes
    probables.hashes.hash_with_depth_bytes.<locals>.hashing_func probables.hashes.hash_with_depth_int
    probables.hashes.hash_with_depth_int.<locals>.hashing_func probables.utilities.get_x_bits probables.utilities.is_hex_string
    probables.utilities.is_valid_file
""".split())

# The single-return functions of the pinned tree (wrappers, property getters).  They are looked through - but only while they still
# are what a rule can see through at no cost: if a later change turns one of them into a function with several paths (say, a memo in
# front of the computation), calls to it are kept as calls, exactly as for the anchors above.
SIMPLE = frozenset("""
    Bitarray.__getitem__ Bitarray.as_string Bitarray.bitarray Bitarray.is_bit_set Bitarray.num_bits_set Bitarray.size Bitarray.size_bytes
    BloomFilter.__contains__ BloomFilter._get_element BloomFilter.bloom BloomFilter.bloom_length BloomFilter.check BloomFilter.elements_added
    BloomFilter.elements_added.setter BloomFilter.estimated_elements BloomFilter.export_size BloomFilter.false_positive_rate
    BloomFilter.hash_function BloomFilter.is_on_disk BloomFilter.number_bits BloomFilter.number_hashes BloomFilterOnDisk.__bytes__
    BloomFilterOnDisk._get_element CountMinSketch.__contains__ CountMinSketch.__mean_query CountMinSketch.__min_query CountMinSketch.add
    CountMinSketch.check CountMinSketch.confidence CountMinSketch.depth CountMinSketch.elements_added CountMinSketch.error_rate CountMinSketch.hashes
    CountMinSketch.remove CountMinSketch.width CountingBloomFilter._cnt_number_bits_set CountingBloomFilter.add CountingBloomFilter.check
    CountingBloomFilter.check_alt CountingBloomFilter.remove CountingCuckooBin.__contains__ CountingCuckooBin.__repr__ CountingCuckooBin.__str__
    CountingCuckooBin.count CountingCuckooBin.finger CountingCuckooBin.get_array CountingCuckooFilter.buckets CountingCuckooFilter.load_factor
    CountingCuckooFilter.unique_elements CuckooFilter.__contains__ CuckooFilter.__str__ CuckooFilter._calc_error_rate
    CuckooFilter._calc_fingerprint_size CuckooFilter.auto_expand CuckooFilter.auto_expand.setter CuckooFilter.bucket_size CuckooFilter.buckets
    CuckooFilter.capacity CuckooFilter.elements_added CuckooFilter.error_rate CuckooFilter.expansion_rate CuckooFilter.expansion_rate.setter
    CuckooFilter.fingerprint_size CuckooFilter.fingerprint_size_bits CuckooFilter.load_factor CuckooFilter.max_swaps
    ExpandingBloomFilter.__contains__ ExpandingBloomFilter.elements_added ExpandingBloomFilter.estimated_elements ExpandingBloomFilter.expansions
    ExpandingBloomFilter.false_positive_rate ExpandingBloomFilter.hash_function HeavyHitters.add HeavyHitters.heavy_hitters
    HeavyHitters.number_heavy_hitters MMap.__enter__ MMap.closed MMap.map MMap.path MMap.read ProbablesBaseException.__str__
    QuotientFilter.__contains__ QuotientFilter._is_cluster_start QuotientFilter._is_empty_element QuotientFilter._is_run_start
    QuotientFilter.auto_expand QuotientFilter.auto_expand.setter QuotientFilter.bits_per_elm QuotientFilter.elements_added QuotientFilter.get_hashes
    QuotientFilter.load_factor QuotientFilter.max_load_factor QuotientFilter.max_load_factor.setter QuotientFilter.num_elements
    QuotientFilter.quotient QuotientFilter.remainder QuotientFilter.size RotatingBloomFilter.current_queue_size RotatingBloomFilter.max_queue_size
    StreamThreshold.add StreamThreshold.meets_threshold StreamThreshold.remove StreamThreshold.threshold
    probables.blooms.bloom._verify_not_type_mismatch probables.blooms.countingbloom._verify_not_type_mismatch probables.hashes.default_md5
    probables.hashes.default_sha256 probables.utilities.resolve_path
""".split())
