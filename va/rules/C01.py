"""C01 - Bloom filters never report an added key as absent."""
from __future__ import annotations

import ast as _ast

from ..common import all_conds, conds_at, mro_methods, nshow, outer_field, paths, visible_methods
from ..effects import Effects, fmt_eff
from ..expr import C, SELF, canon, mapx, norm, posform, posroot, rowform, show, strip_epochs, walk
from ..model import AnalysisError
from ._setops import combine_rule, similarity_components

EXPL = ("(a) monotone storage: every element store into the bit array reachable outside clear() is old|m at the index it read "
        "(normal form), and the array is rebound only from constructors/loaders (effect analysis over the resolved call graph); "
        "(b) add/check agreement: the probe in check_alt uses the same byte index, bit mask and loop domain as the store in "
        "add_alt, and its only early exit is 'probe == 0 -> False'; add and check hash the key with the same call; "
        "(c) expanding filter: check scans the whole list with 'found -> True' as only early exit, nothing reachable from its "
        "public API removes or rebinds sub-filters, insertion goes to the last one, growth appends, all sub-filters are built "
        "with the same parameters; (d) union is cell-wise OR over the full range; (e) every loader path assigns the payload "
        "from its input.  Together with Python's array semantics these make a false negative impossible; determinism of a "
        "user-supplied hash function is assumed.")
FILES = ["blooms/bloom.py", "blooms/expandingbloom.py"]
LOADER_NAMES = {"__init__", "_load_init", "_load", "_load_hex", "_parse_bloom_array", "frombytes", "_set_values", "close", "__del__"}


def _probe_parts(atom):
    """(read-index, mask) of an atom ((mask & cells[idx]) == 0), else None"""
    if atom[0] == "nary" and atom[1] == "&":
        atom = ("cmp", "!=", atom, C(0))  # truthiness of the masked cell
    if atom[0] != "cmp" or atom[1] not in ("==", "!=") or atom[3] != C(0):
        return None
    x = atom[2]
    if x[0] != "nary" or x[1] != "&" or len(x[2]) != 2:
        return None
    rd = [t for t in x[2] if t[0] == "sub" and outer_field(t[1]) == "_bloom"]
    ms = [t for t in x[2] if not (t[0] == "sub" and outer_field(t[1]) == "_bloom")]
    if len(rd) != 1 or len(ms) != 1:
        return None
    return rd[0][2], ms[0]


def _loop_dom(e):
    for n in walk(rowform(e)):
        if n[0] in ("it", "ix"):
            return posroot(n[2])
    return None


def _shape(idx, mask):
    """(byte index, mask, walked domain) with loop positions named abstractly: the same for a statement loop, a comprehension,
    divmod / tuple unpacking and hoisted locals"""
    return canon(posform(idx)), canon(posform(mask)), canon(_loop_dom(idx) or C(None))


def storage_rules(prog, rep, E, ctx):
    K = prog.cls(ctx)
    add_sig = None
    shadowed = [f for f in mro_methods(prog, ctx) if f not in visible_methods(prog, ctx)]
    for f in visible_methods(prog, ctx) + shadowed:
        if f.prop:
            continue
        ps = paths(prog, ctx, f)
        rep.analysed(f, ctx, len(ps))
        for p in ps:
            for e in p.events:
                if e.kind != "setelem" or outer_field(e.cont) != "_bloom" or strip_epochs(e.cont) != ("f", SELF, "_bloom", 0):
                    continue
                where = f"{ctx}.{f.src_name}"
                if f.src_name == "clear":
                    continue
                idx = strip_epochs(e.index)
                v = canon(e.value)
                rd = ("sub", ("f", SELF, "_bloom", 0), idx, 0)
                ok = v[0] == "nary" and v[1] == "|" and canon(rd) in v[2]
                if ok:
                    rep.ok("C01.monotone-store", f"{where}: {nshow(e.cont)}[i] = old | m")
                else:
                    rep.bad("C01.monotone-store", where, f"store {nshow(e.value)}",
                            f"bit array cell is overwritten with {nshow(e.value)}, which is not (old value at the same index) | mask: bits can be lost", e.where())
        # rebinding only from loaders
        if f.src_name in LOADER_NAMES or f.kind == "classmethod" or f.src_name.startswith("_") or f in shadowed:
            continue
        for ef in E.of(ctx, f):
            if ef[0] == "self" and ef[1] == "_bloom" and ef[2] == "rebind":
                rep.bad("C01.no-rebind", f"{ctx}.{f.src_name}", "rebinds _bloom",
                        f"public method {f.src_name} can replace the bit array: {fmt_eff(ef)}", ef[3].split("@")[-1])
                break
        else:
            rep.ok("C01.no-rebind", f"{ctx}.{f.src_name}")


def add_check_agreement(prog, rep, ctx):
    add = prog.method(ctx, "add_alt")
    chk = prog.method(ctx, "check_alt")
    aps = paths(prog, ctx, add, inline="deep")
    cps = paths(prog, ctx, chk, inline="deep")
    rep.analysed(add, ctx, len(aps))
    rep.analysed(chk, ctx, len(cps))
    where = f"{ctx}.add_alt/check_alt"
    stores = {}
    for p in aps:
        for e in p.events:
            if e.kind == "setelem" and strip_epochs(e.cont) == ("f", SELF, "_bloom", 0):
                v = canon(e.value)
                idx = canon(e.index)
                rd = canon(("sub", ("f", SELF, "_bloom", 0), strip_epochs(e.index), 0))
                if v[0] == "nary" and v[1] == "|" and rd in v[2] and len(v[2]) == 2:
                    raw = [t for t in (e.value[2] if e.value[0] == "nary" else ()) if canon(t) != rd]
                    if len(raw) == 1:
                        stores[_shape(e.index, raw[0])] = e
    if len(stores) != 1:
        rep.bad("C01.add-check-agree", where, f"{len(stores)} store shapes in add_alt", "add_alt does not have exactly one OR-store shape", add.where())
        return
    (aidx, amask, adom), ae = next(iter(stores.items()))
    if adom == C(None):
        rep.bad("C01.add-check-agree", where, "store outside a loop", "add_alt sets a single position, not one per hash", ae.where())
        return
    probes = set()
    for p in cps:
        if p.exit[0] != "return":
            continue
        rv = p.exit[1]
        inloop_ret = bool([e for e in p.events if e.kind == "return" and e.loops])
        rvs = strip_epochs(rv)
        if rvs[0] == "call" and rvs[1] == ("g", "all") and len(rvs[2]) == 1 and rvs[2][0][0] == "comp" and not [c for c in p.conds if c.atom[0] != "loop0"]:
            # all(<probe> for ...): False exactly when some probed bit is clear
            el = rowform(("it", "Lq", rv[2][0]))
            pp = _probe_parts(strip_epochs(el)) if not (el[0] == "cmp" and el[1] == "==") else None
            if pp is None:
                rep.bad("C01.add-check-agree", where, f"all({nshow(el)})", f"check_alt returns all({nshow(el)}), whose element is not a probe of the bit array", chk.where(p.exit[2]))
                return
            probes.add(_shape(pp[0], pp[1]))
            continue
        pcs = [(c, _probe_parts(strip_epochs(c.atom))) for c in p.conds if c.atom[0] != "loop0"]
        for c, pp in pcs:
            if pp is None:
                rep.bad("C01.add-check-agree", where, f"decision {nshow(c.atom)}",
                        f"check_alt decides on {nshow(c.atom)}, which is not a probe of the bit array", chk.where(c.node))
                return
            zero = ((c.atom[1] == "==") == c.truth) if c.atom[0] == "cmp" else (not c.truth)
            probes.add(_shape(pp[0], pp[1]))
            if zero and rv != C(False):
                rep.bad("C01.add-check-agree", where, "zero bit not reported absent", "a zero probe does not lead to False", chk.where(c.node))
                return
            if not zero and rv == C(False):
                rep.bad("C01.add-check-agree", where, "set bit reported absent",
                        "check_alt returns False on a path where every probed bit is set: an added key can be reported absent", chk.where(p.exit[2]))
                return
        if not pcs and rv == C(False):
            rep.bad("C01.add-check-agree", where, "unconditional False", "check_alt returns False without probing", chk.where(p.exit[2]))
            return
    if len(probes) != 1:
        rep.bad("C01.add-check-agree", where, f"{len(probes)} probe shapes", "check_alt does not have exactly one probe shape", chk.where())
        return
    (cidx, cmask, cdom) = next(iter(probes))
    if (cidx, cmask, cdom) != (aidx, amask, adom):
        what = "byte index" if cidx != aidx else ("bit mask" if cmask != amask else "loop domain")
        rep.bad("C01.add-check-agree", where, f"{what} differs",
                f"add_alt sets cells[{nshow(aidx)}] |= {nshow(amask)} for {nshow(adom)} but check_alt probes cells[{nshow(cidx)}] & {nshow(cmask)} for {nshow(cdom)}",
                chk.where())
        return
    rep.ok("C01.add-check-agree", f"{where}: index {nshow(aidx)}, mask {nshow(amask)}, domain {nshow(adom)}")
    # add / check use the same hash call
    fa, fc = prog.method(ctx, "add"), prog.method(ctx, "check")
    ha = [canon(e.args[0]) for p in paths(prog, ctx, fa) for e in p.events if e.kind == "call" and e.name == "add_alt" and e.args]
    hc = [canon(e.args[0]) for p in paths(prog, ctx, fc) for e in p.events if e.kind == "call" and e.name == "check_alt" and e.args]
    if ha and hc and set(ha) == set(hc) and len(set(ha)) == 1:
        rep.ok("C01.same-hash-call", f"{ctx}.add/check: {nshow(ha[0])}")
    else:
        rep.bad("C01.same-hash-call", f"{ctx}.add/check", "hash lists differ",
                f"add passes {sorted(nshow(x) for x in set(ha))} but check passes {sorted(nshow(x) for x in set(hc))}", fc.where())


def expanding_rules(prog, rep, E):
    ctx = "ExpandingBloomFilter"
    chk = prog.method(ctx, "check_alt")
    ps = paths(prog, ctx, chk)
    rep.analysed(chk, ctx, len(ps))
    where = f"{ctx}.check_alt"
    blooms = ("f", SELF, "_blooms", 0)
    good = True
    seen_true = False
    for p in ps:
        if p.exit[0] != "return":
            continue
        rets = [e for e in p.events if e.kind == "return"]
        inloop = bool(rets and rets[-1].loops)
        conds = [c for c in p.conds if c.atom[0] != "loop0"]
        rv = strip_epochs(p.exit[1])
        if rv[0] == "call" and rv[1] == ("g", "any") and len(rv[2]) == 1 and not rv[3] and not conds:
            # any(<sub-filter>.check_alt(hashes) for <sub-filter> in self._blooms): True iff some sub-filter reports the key
            g = rv[2][0]
            okany = g[0] == "comp" and g[1] in ("gen", "list") and len(g[3]) == 1 and not g[3][0][3] and g[3][0][2] == blooms
            if okany:
                a = g[2]
                okany = a[0] == "ret" and a[1].endswith("BloomFilter.check_alt") and a[3][0][0] == "it" and a[3][0][1] == g[3][0][1] \
                    and a[3][0][2] == blooms and a[3][1:] == (("p", "hashes"),)
            if not okany:
                rep.bad("C01.expanding-scan-all", where, f"returns {nshow(rv)}",
                        f"check_alt returns {nshow(rv)}; expected any(sub-filter.check_alt(hashes)) over the whole sub-filter list", chk.where(p.exit[2]))
                return
            seen_true = True
            continue
        for c in conds:
            a = strip_epochs(c.atom)
            if not (a[0] == "ret" and a[1].endswith("BloomFilter.check_alt") and a[3][0][0] == "it" and a[3][0][2] == blooms
                    and a[3][1:] == (("p", "hashes"),)):
                rep.bad("C01.expanding-scan-all", where, f"decision {nshow(a)}",
                        f"check_alt decides on {nshow(a)}; expected sub-filter.check_alt(hashes) for every element of the whole sub-filter list", chk.where(c.node))
                return
        if p.exit[1] == C(False) and inloop:
            rep.bad("C01.expanding-scan-all", where, "False from inside the scan", "the scan gives up before all sub-filters were checked", chk.where(p.exit[2]))
            return
        if p.exit[1] == C(False) and any(c.truth for c in conds):
            rep.bad("C01.expanding-scan-all", where, "found but False", "a sub-filter reports the key and the result is still False", chk.where(p.exit[2]))
            return
        if p.exit[1] == C(True) and any(c.truth for c in conds):
            seen_true = True
        if p.exit[1] not in (C(True), C(False)):
            rep.bad("C01.expanding-scan-all", where, f"returns {nshow(p.exit[1])}", "check_alt does not return a boolean decided by the scan", chk.where(p.exit[2]))
            return
    if not seen_true:
        rep.bad("C01.expanding-scan-all", where, "never True", "no path reports a found key", chk.where())
        return
    rep.ok("C01.expanding-scan-all", f"{where}: scans all of _blooms, early exit only on found")
    # no shrink / rebind reachable from the public API
    pub = [f for f in visible_methods(prog, ctx) if not f.prop and not f.src_name.startswith("_") and f.kind != "classmethod"]
    pub += [prog.method(ctx, n) for n in ("__contains__", "__bytes__")]
    for f in pub:
        bad = None
        for (k, q) in E.reach(ctx, f):
            g = None
            for c in prog.classes.values():
                for m in list(c.methods.values()) + list(c.setters.values()) + list(c.getters.values()):
                    if m.qualname == q:
                        g = m
            if g is None or (g.cls and g.cls.name not in [x.name for x in prog.cls(ctx).mro()]):
                continue
            for p in paths(prog, ctx, g):
                for e in p.events:
                    if e.kind == "setfield" and e.name == "_blooms" and e.base == SELF:
                        bad = (e, "rebinds the sub-filter list")
                    elif e.kind == "setelem" and strip_epochs(e.cont) == blooms:
                        bad = (e, "overwrites a sub-filter")
                    elif e.kind == "call" and e.target is None and e.recv is not None and strip_epochs(e.recv) == blooms \
                            and e.d.get("mutates") and e.name != "append":
                        bad = (e, f"calls {e.name}() on the sub-filter list")
        if bad:
            rep.bad("C01.expanding-no-shrink", f"{ctx}.{f.src_name}", bad[1], f"{f.src_name} {bad[1]}: previously added keys can be forgotten", bad[0].where())
        else:
            rep.ok("C01.expanding-no-shrink", f"{ctx}.{f.src_name}")
    # insertion into the last sub-filter, after which nothing but append
    from .C09 import entry_paths
    add, add_paths = entry_paths(prog, ctx, "add_alt")  # growth / rotation helpers looked through
    tgt = set()
    for p in add_paths:
        for i, e in enumerate(p.events):
            if e.kind == "call" and e.name == "add_alt" and e.recv is not None and not e.d.get("inlined"):
                r = strip_epochs(e.recv)
                # the object appended last before this call IS _blooms[-1]
                app = [x.args[0] for x in p.events[:i] if x.kind == "call" and x.target is None and x.name == "append" and x.d.get("recv") is not None
                       and strip_epochs(x.recv) == blooms and x.args]
                if app and strip_epochs(app[-1]) == r:
                    r = ("sub", blooms, C(-1), 0)
                tgt.add(r)
    if tgt == {("sub", blooms, C(-1), 0)}:
        rep.ok("C01.expanding-insert-last", f"{ctx}.add_alt inserts into _blooms[-1]")
    else:
        rep.bad("C01.expanding-insert-last", f"{ctx}.add_alt", f"insert into {sorted(nshow(t) for t in tgt)}", "insertion does not go to the newest sub-filter", add.where())
    # construction sites agree
    for c2 in ("ExpandingBloomFilter", "RotatingBloomFilter"):
        sites = {}
        for f in visible_methods(prog, c2):
            if f.prop or f.kind == "classmethod":
                continue
            for p in paths(prog, c2, f):
                for e in p.events:
                    if e.kind == "new" and e.cls == "BloomFilter":
                        got = dict(e.kwargs)
                        for i, a_ in enumerate(e.args):
                            got[["est_elements", "false_positive_rate", "filepath", "hex_string", "hash_function"][i]] = a_
                        # inside the constructor a field that was just assigned reads as the assigned value: name it by the field again
                        back = {strip_epochs(fv): ("f", SELF, fn, 0) for (b_, fn), fv in p.fields.items() if b_ == SELF and fv[0] not in ("c",)}
                        got = {k: back.get(strip_epochs(v), v) for k, v in got.items()}
                        sites[(f.qualname, e.where())] = tuple(sorted((k, canon(v)) for k, v in got.items()))
        # a site inside a private helper that builds the sub-filter from its own PARAMETERS says nothing by itself: it is judged at
        # every call of that helper (helper looked through), where the arguments are read back as the fields of the object the helper
        # was called on - if they are the values that object's parameter fields hold at that moment
        names_ = ["est_elements", "false_positive_rate", "filepath", "hex_string", "hash_function"]
        by_param = {}
        for (fq, loc), tup in list(sites.items()):
            if any(n[0] == "p" for _, v in tup for n in walk(v)):
                by_param[(fq, loc)] = tup
        for (fq, loc) in by_param:
            helper = next((m for m in visible_methods(prog, c2) if m.qualname == fq), None)
            if helper is None or not helper.src_name.startswith("_"):
                continue
            resolved = []
            K2 = prog.cls(c2)
            private = tuple(sorted({m.qualname for k_ in K2.mro() for m in k_.methods.values()
                                    if m.src_name.startswith("_") and not (m.src_name.startswith("__") and m.src_name.endswith("__"))}))
            callers = [m for k_ in K2.mro() for m in list(k_.methods.values()) if m.qualname not in private]
            for g in callers:
                inits = tuple(sorted({k_.methods["__init__"].qualname for k_ in K2.mro() if "__init__" in k_.methods}))
                for p in paths(prog, c2, g, force_inline=private + inits):
                    calls = [e for e in p.events if e.kind == "call" and e.target is not None and e.target.qualname in private]
                    for ei, e in enumerate(p.events):
                        if e.kind == "new" and e.cls == "BloomFilter" and e.where() == loc and calls:
                            prior = [c_ for c_ in calls if p.events.index(c_) < ei]
                            if not prior:
                                continue
                            obj = strip_epochs(prior[-1].recv) if prior[-1].recv is not None else SELF
                            got = dict(e.kwargs)
                            for i, a_ in enumerate(e.args):
                                got[names_[i]] = a_
                            # the values the object's fields were last given before this construction
                            last_ = {}
                            for x in p.events[:ei]:
                                if x.kind == "setfield" and strip_epochs(x.base) == obj:
                                    last_[x.name] = strip_epochs(x.value)
                            back = {canon(norm(fv)): ("f", SELF, fn, 0) for fn, fv in last_.items() if fv[0] not in ("c",)}
                            # a constant argument is the field only where the field of that very meaning holds that constant
                            for k_, suffixes in (("est_elements", ("est_elements",)), ("false_positive_rate", ("fpr", "false_positive_rate"))):
                                if k_ in got and strip_epochs(got[k_])[0] == "c":
                                    for fn, fv in last_.items():
                                        if fn.endswith(suffixes) and fv == strip_epochs(got[k_]) and type(fv[1]) is type(strip_epochs(got[k_])[1]):
                                            got[k_] = ("f", SELF, fn, 0)
                            fix = lambda v: mapx(strip_epochs(v), lambda n: ("f", SELF, n[2], 0) if (n[0] == "f" and strip_epochs(n[1]) == obj) else back.get(canon(n)))  # noqa: E731
                            resolved.append(tuple(sorted((k, canon(fix(v))) for k, v in got.items())))
            if resolved:
                del sites[(fq, loc)]
                for i, r in enumerate(sorted(set(resolved), key=repr)):
                    sites[(fq, f"{loc} (as called, {i})")] = r
        vals = set(sites.values())
        import os as _os
        if _os.environ.get("VA_DEBUG_SITES"):
            for k_, v_ in sorted(sites.items(), key=repr):
                print("SITE", c2, k_, [(a, show(b)[:90]) for a, b in v_])
        if len(sites) >= 1 and len(vals) == 1:
            rep.ok("C01.expanding-same-params", f"{c2}: {len(sites)} construction site(s) agree")
        elif len(vals) > 1:
            rep.bad("C01.expanding-same-params", c2, "construction sites differ",
                    f"sub-filters are built with different parameters at {sorted(k[1] for k in sites)}: one hash list is not valid for all of them", sorted(sites)[0][1])
        else:
            raise AnalysisError(f"anchor vanished: no BloomFilter construction site in {c2}")


def _direct_input(e, label) -> bool:
    """the input reaches e as data, not merely through values unpacked from the footer"""
    if not isinstance(e, tuple) or not e:
        return False
    if e == ("p", label) or (e[0] == "fileobj" and e[2] == "MMap"):
        return True
    if e[0] in ("unp", "unpall"):
        return False
    if e[0] in ("slice", "sub"):
        return _direct_input(e[1], label)  # bounds/indices are metadata
    if e[0] == "call":
        if e[1][0] == "g" and e[1][1] in ("len",):
            return False
        return any(_direct_input(a, label) for a in e[2])
    if e[0] in ("lst", "tup"):
        return any(_direct_input(a, label) for a in e[1])
    if e[0] == "comp":
        return any(_direct_input(g[2], label) for g in e[3])
    if e[0] == "phi":
        return _direct_input(e[2], label) and _direct_input(e[3], label)
    return False


def loader_payload(prog, rep):
    """every loader path assigns the bit array from its input"""
    for ctx, fname, label in (("BloomFilter", "frombytes", "b"), ("CountingBloomFilter", "frombytes", "b"),
                              ("BloomFilter", "_load", "file"), ("BloomFilter", "_load_hex", "hex_string"),
                              ("CountingBloomFilter", "_load", "file"), ("CountingBloomFilter", "_load_hex", "hex_string")):
        f = prog.method(ctx, fname)
        ps = [p for p in paths(prog, ctx, f, inline="deep") if p.exit[0] == "return"]
        rep.analysed(f, ctx, len(ps))
        bad = None
        for p in ps:
            obj = p.exit[1] if f.kind == "classmethod" else SELF
            v = p.fields.get((obj, "_bloom"))
            srcs = set()
            if v is not None and v[0] == "newb" and v[1] == "array" and len(v[3]) >= 2:
                if _direct_input(v[3][1], label):  # the initialiser of array(typecode, initialiser)
                    srcs.add("input")
            if v is not None and v[0] == "newb" and v[1] == "array" and len(v[3]) == 1:
                # array(typecode) filled by .frombytes(<input>)
                if any(e.kind == "call" and e.name == "frombytes" and e.recv is not None and strip_epochs(e.recv)[:3] == strip_epochs(v)[:3] and e.args
                       and _direct_input(e.args[0], label) for e in p.events):
                    srcs.add("input")
            if "input" not in srcs:
                bad = (p, v)
                break
        if bad:
            rep.bad("C01.loader-payload", f"{ctx}.{fname}", "payload not loaded",
                    f"a normal path of {fname} leaves the bit array = {nshow(bad[1]) if bad[1] else 'unassigned'}, not read from {label}: loaded filter forgets its keys", f.where())
        elif ps:
            rep.ok("C01.loader-payload", f"{ctx}.{fname}: _bloom assigned from {label} on {len(ps)} path(s)")
        else:
            rep.bad("C01.loader-payload", f"{ctx}.{fname}", "loader cannot succeed", f"no path through {ctx}.{fname} returns normally: an exported filter can never be loaded back", f.where())


def check(prog, rep, tier):
    rep.extra["explanation"] = EXPL
    rep.rule("C01.monotone-store", "stores into the bit array outside clear() are old|m at the index read", floor=2)
    rep.rule("C01.no-rebind", "no public non-loader method can replace the bit array", floor=20)
    rep.rule("C01.add-check-agree", "check_alt probes exactly the byte, mask and domain add_alt sets; its only early exit is zero -> False", floor=2)
    rep.rule("C01.same-hash-call", "add and check derive the hash list with the same call", floor=2)
    rep.rule("C01.expanding-scan-all", "expanding check scans the whole sub-filter list", floor=1)
    rep.rule("C01.expanding-no-shrink", "nothing reachable from the expanding filter's public API removes or replaces sub-filters", floor=5)
    rep.rule("C01.expanding-insert-last", "insertion goes to the newest sub-filter", floor=1)
    rep.rule("C01.expanding-same-params", "all sub-filters are constructed with the same parameters", floor=2)
    rep.rule("C01.union-or", "union is cell-wise OR over the full range", floor=2)
    rep.rule("C01.union-compatible", "union combines only filters with equal hash count, bit count and probe hash (else positions do not correspond and keys are lost)", floor=2)
    rep.rule("C01.loader-payload", "every loader path assigns the bit array from its input", floor=6)
    rep.rule("C01.loader-hash", "a structure built or loaded with a caller-supplied hashing strategy hashes with exactly that strategy (else every added key probes other positions after a reload)", floor=4)
    rep.assume("a user-supplied hash function is deterministic (C18 decides it for the shipped strategies)")
    E = Effects(prog)
    for ctx in ("BloomFilter", "BloomFilterOnDisk"):
        storage_rules(prog, rep, E, ctx)
        add_check_agreement(prog, rep, ctx)
        combine_rule(prog, rep, "C01.union-or", ctx, "union", "|")
        similarity_components(prog, rep, "C01.union-compatible", ctx)
    expanding_rules(prog, rep, E)
    loader_payload(prog, rep)
    from .C05 import resupplied_rule
    resupplied_rule(prog, rep, "C01.loader-hash", ("BloomFilter", "BloomFilterOnDisk", "ExpandingBloomFilter", "RotatingBloomFilter"))
    rep.rule("C01.check-hashes-like-add", "check() calls the hashing strategy with exactly the arguments add() uses (same depth)", floor=3)
    from ..common import query_hashes_like_update
    for ctx_ in ("BloomFilter", "BloomFilterOnDisk", "CountingBloomFilter", "ExpandingBloomFilter", "RotatingBloomFilter"):
        bad_ = query_hashes_like_update(prog, ctx_, "check")
        if bad_:
            rep.bad("C01.check-hashes-like-add", f"{ctx_}.check", "other hash arguments than add", f"{bad_[1]}: for a strategy whose k-th hash depends on the requested depth "
                    "the look-up probes positions the insertion never set, and an added key is reported absent", bad_[0].where())
        else:
            rep.ok("C01.check-hashes-like-add", f"{ctx_}.check")


from ..selftest import Mutant, add_method, del_stmt, insert_stmt, replace_expr, replace_stmt, swap_binop

_B, _E = "blooms/bloom.py", "blooms/expandingbloom.py"
MUTANTS = [
    Mutant("check() first probes with a depth-1 hash (wrong for a strategy whose hashes depend on the depth)", _B,
           replace_stmt("BloomFilter", "check", "return self.check_alt(self.hashes(key))",
                        "if not self.check_alt(self._hash_func(key, 1)[:0]):\n    return False\nreturn self.check_alt(self.hashes(key))"), rule="C01.check-hashes"),
    Mutant("frombytes drops the caller's hashing strategy", _B, replace_expr("BloomFilter", "frombytes", "blm._load(b, hash_function=blm.hash_function)", "blm._load(b)"), rule="C01.loader-hash"),
    Mutant("add_alt | -> ^", _B, swap_binop("BloomFilter", "add_alt", _ast.BitOr, _ast.BitXor), rule="C01.monotone"),
    Mutant("add_alt range(1, k)", _B, replace_expr("BloomFilter", "add_alt", "range(0, self._number_hashes)", "range(1, self._number_hashes)"), rule="C01.add-check"),
    Mutant("check_alt probes one hash more", _B, replace_expr("BloomFilter", "check_alt", "range(self._number_hashes)", "range(self._number_hashes + 1)"), rule="C01.add-check"),
    Mutant("add_alt modulus bloom_length*8 (differs from check)", _B, replace_expr("BloomFilter", "add_alt", "hashes[i] % self._num_bits", "hashes[i] % (self._bloom_length * 8)"), rule="C01.add-check"),
    Mutant("check_alt mask 1 << (k % 7)", _B, replace_expr("BloomFilter", "check_alt", "k % 8", "k % 7"), rule="C01.add-check"),
    Mutant("check_alt: True and False swapped at the end", _B, replace_stmt("BloomFilter", "check_alt", "return True", "return False"), rule="C01.add-check"),
    Mutant("check hashes with depth+1, add with default", _B, replace_expr("BloomFilter", "check", "self.hashes(key)", "self.hashes(key, self._number_hashes + 1)[1:]"), rule="C01.same-hash"),
    Mutant("expanding check over _blooms[1:]", _E, replace_expr("ExpandingBloomFilter", "check_alt", "self._blooms", "self._blooms[1:]"), rule="C01.expanding-scan"),
    Mutant("expanding check over _blooms[-1:]", _E, replace_expr("ExpandingBloomFilter", "check_alt", "self._blooms", "self._blooms[-1:]"), rule="C01.expanding-scan"),
    Mutant("expanding check gives up after the first miss", _E, replace_stmt("ExpandingBloomFilter", "check_alt", "if blm.check_alt(hashes)", "if blm.check_alt(hashes):\n    return True\nelse:\n    return False"), rule="C01.expanding-scan"),
    Mutant("expanding push pops the oldest", _E, insert_stmt("ExpandingBloomFilter", "push", "self._blooms.pop(0)", at_end=True), rule="C01.expanding-no-shrink"),
    Mutant("expanding growth replaces the list", _E, replace_stmt("ExpandingBloomFilter", "__check_for_growth", "if self._blooms[-1].elements_added", "if self._blooms[-1].elements_added >= self.__est_elements:\n    self._blooms = []\n    self.__add_bloom_filter()"), rule="C01.expanding-no-shrink"),
    Mutant("expanding add inserts into _blooms[0]", _E, replace_expr("ExpandingBloomFilter", "add_alt", "self._blooms[-1]", "self._blooms[0]"), rule="C01.expanding-insert"),
    Mutant("_parse_blooms builds sub-filters with default hash", _E, replace_expr("ExpandingBloomFilter", "_parse_blooms", "BloomFilter(est_elements=self.__est_elements, false_positive_rate=self.__fpr, hash_function=self.__hash_func)", "BloomFilter(est_elements=self.__est_elements, false_positive_rate=self.__fpr)"), rule="C01.expanding-same"),
    Mutant("union | -> ^", _B, swap_binop("BloomFilter", "union", _ast.BitOr, _ast.BitXor), rule="C01.union"),
    Mutant("similarity compares the byte length instead of the bit count", _B, replace_stmt("BloomFilter", "_verify_bloom_similarity", "same_bits = ", "same_bits = self.bloom_length != second.bloom_length"), rule="C01.union-compatible"),
    Mutant("frombytes without _load", _B, del_stmt("BloomFilter", "frombytes", "blm._load("), rule="C01.loader"),
    Mutant("_load_hex: array from zeros", _B, replace_expr("BloomFilter", "_load_hex", "unhexlify(hex_string[:-offset])", "bytes(self._bloom_length)"), rule="C01.loader"),
    Mutant("estimate_elements resets a saturated filter", _B, replace_stmt("BloomFilter", "estimate_elements", "return -1", "self._bloom = array(self._typecode, [0]) * self._bloom_length\nreturn -1"), rule="C01.no-rebind"),
    Mutant("on-disk add_alt clears a stale byte first", _B, insert_stmt("BloomFilterOnDisk", "add_alt", "self._bloom[0] = self._bloom[0] & 254"), rule="C01.monotone"),
    Mutant("check loop written with all() (same meaning)", _B,
           replace_stmt("BloomFilter", "check_alt", "for i in range", "for i in range(self._number_hashes):\n    k = hashes[i] % self._num_bits\n    if not self._bloom[k >> 3] & 1 << (k & 7):\n        return False"), expect="silent"),
]
