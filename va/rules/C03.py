"""C03 - cuckoo filters lose no key through kicks, expansion or a failed insert (linear ownership, E7)."""
from __future__ import annotations

import ast as _ast

from ..common import all_conds, nshow, outer_field, paths
from ..expr import rowform, C, SELF, canon, show, strip_epochs, walk
from ..model import AnalysisError
from ..own import TABLE, analyse, is_bucket

EXPL = ("Linear-ownership analysis of table entries over every enumerated path (returns and raises) of the insert, eviction, "
        "expansion and failure-handling functions in both cuckoo contexts.  A slot may be overwritten only after its old "
        "content was read into a variable (capture); whatever is held outside the table must, at every exit, have been put "
        "back (sink) or be the returned left-over; a raise with something held is a leak.  The eviction loop is summarised by "
        "the invariant 'exactly one entry in hand, in the in-hand variable', re-established at the end of the body for ALL "
        "resolutions of the random choices (their values are never inspected).  Expansion must collect every bucket over the "
        "full old range, plus the left-over, before the table is replaced or the capacity changes, and must re-insert the "
        "whole list.  add() must hand the left-over of a failed insert to the failure handler.  Does not decide that an "
        "expansion into a larger table always succeeds.")
FILES = ["cuckoo/cuckoo.py", "cuckoo/countingcuckoo.py"]
CTXS = {"CuckooFilter": "_insert_fingerprint", "CountingCuckooFilter": "_insert_fingerprint_alt"}
# functions whose calls stay summarised as call events; every other helper (including ones a refactoring may introduce) is inlined
ANCHORS = ("_check_if_present", "_insert_fingerprint", "_insert_fingerprint_alt", "_deal_with_insertion", "_expand_logic", "_setup_expand",
           "_generate_fingerprint_info", "_indicies_from_fingerprint", "add", "remove", "check", "expand", "export", "_load", "_parse_buckets",
           "_parse_bucket", "_parse_footer", "__init__", "increment", "decrement", "_set_error_rate", "_calc_error_rate", "_calc_fingerprint_size",
           "load_factor", "get_x_bits", "resolve_path", "is_valid_file")


def cpaths(prog, ctx, f, extra_inline=()):
    """paths with every non-anchor helper inlined"""
    return paths(prog, ctx, f, inline="deep", no_inline=tuple(a for a in ANCHORS if a != f.src_name and a not in extra_inline))


def insert_paths(prog, ctx):
    f = prog.method(ctx, CTXS[ctx])
    return f, cpaths(prog, ctx, f)


def insert_flows(prog, ctx):
    f, ps = insert_paths(prog, ctx)
    counting = ctx == "CountingCuckooFilter"
    from ..own import set_candidate_defs
    set_candidate_defs(prog, ctx)
    tp = {"fingerprint": ("fp", "count" if counting else "", ["idx_1", "idx_2"])}
    return f, [(p, analyse(p, counting, tp, counters=("_inserted_elements", "_CountingCuckooFilter__unique_elements"))) for p in ps]


def stale_candidate_sinks(prog, ctx, p, fl):
    """[(sink event, re-sizing call event)]: an entry stored into a bucket addressed by a candidate index that was handed in as a parameter,
    after a call on the path changed the capacity - the parameter was computed for the old table, so the bucket is not one of the entry's
    candidates in the new one and no look-up will find it there"""
    from ..effects import Effects
    E = _EFF.setdefault(id(prog), Effects(prog))
    resize = [i for i, e in enumerate(p.events) if e.kind == "call" and e.target is not None and not e.d.get("inlined")
              and any(x[0] == "self" and x[1] == "_cuckoo_capacity" for x in E.of(ctx, e.target))]
    out = []
    if resize:
        for (t, b, e) in fl.sunk:
            b_ = strip_epochs(b)
            if b_[0] == "p" and e in p.events and p.events.index(e) > resize[0]:
                out.append((e, p.events[resize[0]]))
    return out


_EFF = {}


def check_insert(prog, rep, ctx):
    f, flows = insert_flows(prog, ctx)
    rep.analysed(f, ctx, len(flows))
    where = f"{ctx}.{f.src_name}"
    good = True
    exits = 0
    for p, fl in flows:
        exits += 1
        for (rule, msg, e) in fl.problems:
            if rule in ("own.overwrite-without-capture", "own.sink-unheld", "own.loop-invariant"):
                rep.bad("C03.no-loss-on-insert", where, rule.split(".")[1], msg, e.where())
                good = False
        for (e, rz) in stale_candidate_sinks(prog, ctx, p, fl):
            rep.bad("C03.no-loss-on-insert", where, "stored at a stale candidate",
                    f"after {rz.name}() changed the capacity the entry is stored into a bucket addressed by an index computed before it: that bucket is not one of its "
                    "candidates in the new table, so the key is reported absent", e.where())
            good = False
        rv = strip_epochs(p.exit[1])
        held = fl.held
        loc = f.where(p.exit[2]) if p.exit[2] is not None else f.where()
        if p.exit[0] == "raise":
            if held:
                rep.bad("C03.leak-on-raise", where, f"raise holding {len(held)} entr{'y' if len(held) == 1 else 'ies'}",
                        f"the function raises while {[nshow(t.ident) for t in held]} is held outside the table: that entry is lost", loc)
                good = False
            continue
        if rv == C(None):
            if held:
                rep.bad("C03.no-loss-on-insert", where, f"returns None holding {[nshow(t.ident) for t in held]}",
                        f"the function reports success (None) while {[nshow(t.ident) for t in held]} is still held outside the table: that entry is lost", loc)
                good = False
            continue
        # returns a left-over
        if fl.inhand_var is not None and rv[0] == "hv" and rv[1] == fl.inhand_var:
            # generic iteration then exhaustion: the invariant must hold at the end of the body
            names = getattr(fl, "end_names", {})
            if len(held) != 1 or strip_epochs(names.get(fl.inhand_var, C(None))) != strip_epochs(held[0].ident):
                rep.bad("C03.no-loss-on-insert", where, "loop invariant", "at the end of an eviction round the evicted entry is not the one kept in the in-hand variable: "
                        f"held {[nshow(t.ident) for t in held]}, in-hand variable {fl.inhand_var} = {nshow(names.get(fl.inhand_var, C(None)))}", loc)
                good = False
            continue
        if len(held) == 1 and (strip_epochs(held[0].ident) == rv or (rv[0] == "new" and held[0].origin == "materialised")):
            continue
        if len(held) == 2 and any(t.origin == "materialised" and strip_epochs(t.ident) == rv for t in held):
            continue  # the bin object built for the still-held fingerprint is returned
        rep.bad("C03.no-loss-on-insert", where, f"returns {nshow(rv)} holding {[nshow(t.ident) for t in held]}",
                f"the function returns {nshow(rv)} but holds {[nshow(t.ident) for t in held]}: the left-over handed to the caller is not what is in hand", loc)
        good = False
    if good:
        rep.ok("C03.no-loss-on-insert", f"{where}: {exits} exits balance (nothing overwritten uncaptured, nothing held at a success exit)")
    return good


def check_flag_tests(prog, rep, ctx):
    """the expand-or-raise decision (and every other decision on the caller's flags along the insert path) goes by the flag's truth
    value: an identity test against True / False sends auto_expand=1 down the raise path, where the entry in hand is lost"""
    from ..common import raw_flag_identity_tests
    for fname in ("add", "_deal_with_insertion", CTXS[ctx]):
        try:
            f = prog.method(ctx, fname)
        except Exception:
            continue
        hits = raw_flag_identity_tests(prog, ctx, f, cpaths(prog, ctx, f))
        if hits:
            c, x, why = hits[0]
            rep.bad("C03.no-loss-on-insert", f"{ctx}.{fname}", f"identity test on {nshow(x)}",
                    f"{fname} decides by `{nshow(strip_epochs(c.atom))}` on {why}: a truthy value that is not the object True (auto_expand=1) takes the branch for False - "
                    "the filter raises instead of growing and the entry in hand is dropped", f.where(c.node))
            return
    rep.ok("C03.no-loss-on-insert", f"{ctx}: flags along the insert path are tested by truth value")


def check_expand(prog, rep, ctx):
    se = prog.method(ctx, "_setup_expand")
    where = f"{ctx}._setup_expand"
    good = True
    cap = ("f", SELF, "_cuckoo_capacity", 0)
    for p in cpaths(prog, ctx, se):
        if p.exit[0] != "return":
            continue
        lst = p.exit[1]
        evs = p.events
        pos = {id(e): i for i, e in enumerate(evs)}
        ext = [e for e in evs if e.kind == "call" and e.name == "extend" and e.recv == lst and e.loops]
        kill = [e for e in evs if e.kind == "setfield" and e.name == TABLE and e.base == SELF]
        capw = [e for e in evs if e.kind == "setfield" and e.name == "_cuckoo_capacity" and e.base == SELF]
        extra_known = [c for c in p.conds if strip_epochs(c.atom) == ("cmp", "isnot", ("p", "extra_fingerprint"), C(None))]
        def fresh_leaves(v):
            if v[0] == "phi":
                return fresh_leaves(v[2]) + fresh_leaves(v[3])
            return [v]
        leaves = fresh_leaves(lst)
        if not all(v[0] in ("newb", "lst") for v in leaves):
            rep.bad("C03.capture-all", where, f"returns {nshow(lst)}", "the collected entries are not returned as a fresh list", se.where())
            good = False
            break
        if lst[0] == "phi":
            # conditional-expression form:  [extra] if extra is not None else []
            c_ = strip_epochs(lst[1])
            isnot = c_ == ("cmp", "isnot", ("p", "extra_fingerprint"), C(None))
            isn = c_ == ("cmp", "is", ("p", "extra_fingerprint"), C(None))
            with_extra = lst[2] if isnot else (lst[3] if isn else None)
            if with_extra is None or not (with_extra[0] == "lst" and ("p", "extra_fingerprint") in with_extra[1]):
                rep.bad("C03.capture-all", where, "left-over not collected", "the left-over entry handed to the expansion is not added to the list of entries to re-insert", se.where())
                good = False
                break
            extra_known = [type("C_", (), {"truth": False})()]  # handled
        if extra_known and extra_known[0].truth:
            app = [e for e in evs if e.kind == "call" and e.name == "append" and e.recv == lst and e.args and e.args[0] == ("p", "extra_fingerprint")]
            if not app:
                rep.bad("C03.capture-all", where, "left-over not collected", "the left-over entry handed to the expansion is not added to the list of entries to re-insert", se.where())
                good = False
                break
        elif not extra_known:
            rep.bad("C03.capture-all", where, "left-over not considered", "the expansion does not look at the left-over entry", se.where())
            good = False
            break
        loop0 = any(c.atom[0] == "loop0" and "extend" not in "" for c in p.conds)
        if ext:
            a = strip_epochs(ext[0].args[0])
            okdom = (a[0] == "sub" and a[1] == ("f", SELF, TABLE, 0) and a[2][0] == "it" and _whole_table(a[2][2], cap)) or \
                (a[0] == "it" and _whole_table(a[2], cap))
            if not okdom:
                rep.bad("C03.capture-all", where, f"collects {nshow(a)}",
                        f"the expansion collects {nshow(a)}; it must collect every bucket of range(capacity) of the old table: entries of the skipped buckets are lost", ext[0].where())
                good = False
                break
            for k in kill + capw:
                if pos[id(k)] < pos[id(ext[0])]:
                    rep.bad("C03.capture-all", where, "table replaced before collecting", "the table or its capacity is replaced before the old entries were collected", k.where())
                    good = False
        else:
            # zero-iteration variant of the collect loop is fine; but a path with no collect loop at all is not
            if not any(c.atom[0] == "loop0" and _whole_table(strip_epochs(c.atom[2]), cap) for c in p.conds):
                rep.bad("C03.capture-all", where, "no collection", "the old buckets are not collected (over range(old capacity)) before the table is replaced", se.where())
                good = False
                break
        if not kill or not capw:
            rep.bad("C03.capture-all", where, "table not rebuilt", "the expansion does not install a new table / capacity", se.where())
            good = False
            break
    if good:
        rep.ok("C03.capture-all", f"{where}: left-over + every bucket of range(old capacity) collected before the table is replaced")
    # ---- _expand_logic: whole list re-inserted; failure raises with entries held
    el = prog.method(ctx, "_expand_logic")
    where = f"{ctx}._expand_logic"
    ins_name = CTXS[ctx]
    okl = True
    seen_loop = False
    for p in cpaths(prog, ctx, el):
        calls = [e for e in p.events if e.kind == "call" and e.target is not None]
        su = [e for e in calls if e.name == "_setup_expand"]
        if len(su) != 1 or su[0].args[:1] != [("p", "extra_fingerprint")]:
            rep.bad("C03.reinsert-all", where, "setup call", "the expansion does not collect the entries together with the left-over it was given", el.where())
            okl = False
            break
        lst = strip_epochs(su[0].result)
        ins = [e for e in calls if e.name == ins_name and e.loops]
        if not ins:
            # a walk over the collected entries that does not go through the insert routine: each entry must at least have been
            # placed (an append into a bucket on this path); a generic iteration that neither inserts nor places the entry drops it
            walks = [e for e in p.events if e.kind == "bind" and e.loops and strip_epochs(e.value)[0] == "it" and strip_epochs(strip_epochs(e.value)[2]) == lst]
            if walks and p.exit[0] == "return":
                lid = walks[0].loops[-1]
                placed = any(e.kind == "call" and e.target is None and e.name in ("append", "insert") and lid in e.loops for e in p.events)
                if not placed:
                    rep.bad("C03.reinsert-all", where, "entry neither inserted nor placed",
                            "a walk over the collected entries carries on past an entry that was neither handed to the insert routine nor appended to a bucket "
                            "(both of its buckets were full): that entry is dropped silently", el.where())
                    okl = False
                    break
            continue
        seen_loop = True
        tok = strip_epochs(ins[0].args[0])
        elem = tok
        for n in walk(tok):
            if n[0] == "it":
                elem = n
        if elem[0] != "it" or strip_epochs(elem[2]) != lst:
            rep.bad("C03.reinsert-all", where, f"re-inserts {nshow(tok)}", f"the expansion re-inserts {nshow(tok)}, not every element of the collected list", ins[0].where())
            okl = False
            break
        res = strip_epochs(ins[0].result)
        failed = [c for c in p.conds if strip_epochs(c.atom) in (("cmp", "isnot", res, C(None)), ("cmp", "is", res, C(None)))]
        if not failed:
            rep.bad("C03.reinsert-all", where, "result ignored", "the result of a re-insertion is not inspected: a rejected entry would be dropped silently", ins[0].where())
            okl = False
            break
        rejected = (failed[0].atom[1] == "isnot") == failed[0].truth
        if rejected:
            if p.exit[0] == "raise":
                rep.bad("C03.leak-on-raise", where, "raise holding the rejected entry and the rest of the collected entries",
                        "when a re-insertion is rejected the expansion raises while the rejected entry and all not yet re-inserted entries exist only "
                        "in local variables: keys present before the call are lost", el.where(p.exit[2]))
            else:
                rep.bad("C03.reinsert-all", where, "rejected entry dropped", "a rejected re-insertion is ignored and the expansion carries on: that entry is lost", el.where())
                okl = False
    if okl and seen_loop:
        rep.ok("C03.reinsert-all", f"{where}: every collected entry is re-inserted and its result inspected")
    elif okl:
        rep.bad("C03.reinsert-all", where, "no re-insertion", "the expansion never re-inserts the collected entries", el.where())


def check_failure_handling(prog, rep, ctx):
    d = prog.method(ctx, "_deal_with_insertion")
    where = f"{ctx}._deal_with_insertion"
    fin = ("p", "finger")
    ok = True
    for p in cpaths(prog, ctx, d):
        none = [c for c in p.conds if strip_epochs(c.atom) in (("cmp", "is", fin, C(None)), ("cmp", "isnot", fin, C(None)))]
        if not none:
            rep.bad("C03.left-over-handled", where, "left-over not inspected", "the handler does not look at the left-over entry", d.where())
            ok = False
            break
        has_tok = (none[0].atom[1] == "isnot") == none[0].truth
        if not has_tok:
            continue
        sunk = [e for e in p.events if e.kind == "call" and e.target is not None and e.name == "_expand_logic" and e.args[:1] == [fin]]
        if sunk and p.exit[0] == "return":
            continue
        if p.exit[0] == "raise":
            rep.bad("C03.leak-on-raise", where, "raise CuckooFilterFullError holding finger",
                    "with auto_expand off a failed insert raises while the entry evicted last is held only in `finger`: "
                    "a key that was present before the call is no longer stored", d.where(p.exit[2]))
        else:
            rep.bad("C03.left-over-handled", where, "left-over dropped", "a path returns normally without re-inserting the left-over entry: it is lost silently", d.where())
            ok = False
    if ok:
        rep.ok("C03.left-over-handled", f"{where}: the left-over is re-inserted through the expansion (or the failure is raised)")
    # add: the result of the insert is handed to the handler
    add = prog.method(ctx, "add")
    ins_name = CTXS[ctx]
    oka = True
    for p in cpaths(prog, ctx, add):
        ins = [e for e in p.events if e.kind == "call" and e.name == ins_name]
        if not ins:
            continue
        res = strip_epochs(ins[0].result)
        dl = [e for e in p.events if e.kind == "call" and e.name == "_deal_with_insertion" and e.args and strip_epochs(e.args[0]) == res]
        if not dl and p.exit[0] == "return":
            rep.bad("C03.left-over-handled", f"{ctx}.add", "insert result dropped", "add() ignores what the insert could not place: the evicted entry is lost without any error", ins[0].where())
            oka = False
    if oka:
        rep.ok("C03.left-over-handled", f"{ctx}.add: insert result -> _deal_with_insertion")
    ex = prog.method(ctx, "expand")
    oke = any(e.kind == "call" and e.name == "_expand_logic" and e.args[:1] == [C(None)] for p in cpaths(prog, ctx, ex) for e in p.events)
    if oke:
        rep.ok("C03.left-over-handled", f"{ctx}.expand -> _expand_logic(None)")
    else:
        rep.bad("C03.left-over-handled", f"{ctx}.expand", "expand", "expand() does not run the expansion logic", ex.where())


def check_remove_and_candidates(prog, rep, ctx):
    rm = prog.method(ctx, "remove")
    where = f"{ctx}.remove"
    ok = True
    for p in cpaths(prog, ctx, rm):
        mut = [e for e in p.events if (e.kind == "call" and e.d.get("mutates") and e.recv is not None and outer_field(e.recv) == TABLE)
               or e.kind == "setelem" and outer_field(e.cont) == TABLE]
        pres = [c for c in p.conds if c.atom[0] == "cmp" and c.atom[1] in ("is", "isnot") and strip_epochs(c.atom[2])[0] == "ret"
                and strip_epochs(c.atom[2])[1].endswith("._check_if_present")]
        pr = presence(p)
        present = pr is not None and pr[0] == "present"
        if mut and not present:
            rep.bad("C03.remove-guarded", where, "removal without presence test", "an entry is removed on a path where the key was not found", mut[0].where())
            ok = False
        for e in mut:
            if e.kind == "call" and e.name == "remove":
                b = is_bucket(e.recv)
                idxv = strip_epochs(pres[0].atom[2]) if pres else (strip_epochs(pr[1][2][2]) if present and pr[1] is not None else None)
                if b is None or b != idxv:
                    rep.bad("C03.remove-guarded", where, f"removes from {nshow(e.recv)}", "the entry is removed from a bucket other than the one where it was found", e.where())
                    ok = False
            elif e.kind == "call" and e.name in ("__delitem__", "pop") and is_bucket(e.recv) is not None:
                # positional removal: exactly the position at which the key's entry was found, in the bucket being walked
                ix = strip_epochs(rowform(e.args[0])) if e.args else None
                hitpos = pr[1] if present and pr[1] is not None else None
                okpos = ix is not None and ix[0] == "ix" and hitpos is not None and hitpos[0] == "it" and hitpos[1] == ix[1] \
                    and strip_epochs(e.recv) == strip_epochs(hitpos[2])
                if not okpos:
                    rep.bad("C03.remove-guarded", where, f"{e.name}({nshow(e.args[0]) if e.args else ''}) on {nshow(e.recv)}",
                            f"remove takes {'a range of entries' if ix is not None and ix[0] == 'slc' else 'an entry'} out of a bucket by position "
                            f"({nshow(e.args[0]) if e.args else 'last'}) that is not exactly the position where the key's own entry was found: other keys' entries are dropped", e.where())
                    ok = False
            elif e.kind == "call" and e.name in ("clear", "sort", "reverse", "extend", "insert") and is_bucket(e.recv) is not None:
                rep.bad("C03.remove-guarded", where, f"{e.name} on {nshow(e.recv)}", f"remove performs {e.name}() on a bucket", e.where())
                ok = False
    if ok:
        rep.ok("C03.remove-guarded", where)
    candidates_stable(prog, rep, ctx, "C03.candidates-stable")
    own_candidates(prog, rep, ctx, "C03.candidates-stable")


def own_candidates(prog, rep, ctx, rid) -> bool:
    """the indices handed out together with a fingerprint are the candidate indices of THAT fingerprint (the value that is stored)"""
    gen = prog.method(ctx, "_generate_fingerprint_info")
    ok, seen = True, False
    for p in cpaths(prog, ctx, gen):
        if p.exit[0] == "return" and not (p.exit[1][0] == "tup" and len(p.exit[1][1]) == 3) and any(n[0] == "f" and n[1] == SELF for n in walk(p.exit[1])):
            # a remembered answer: as good as a fresh one only if the memo is sound (its key covers the capacity and the fingerprint width)
            from .C19 import memo_sound
            okm, why = memo_sound(prog, ctx, gen)
            if not okm:
                rep.bad(rid, f"{ctx}._generate_fingerprint_info", "remembered indices",
                        f"the indices handed out for a key can come from a remembered answer that is not known to be current ({why}): after the capacity changes the key is "
                        "looked for, and inserted, in buckets it no longer maps to", gen.where(p.exit[2]))
                ok = False
                break
        if p.exit[0] == "return" and p.exit[1][0] == "tup" and len(p.exit[1][1]) == 3:
            seen = True
            i1, i2, fp = (strip_epochs(x) for x in p.exit[1][1])
            okg = all(x[0] == "sub" and x[1][0] == "ret" and x[1][1].endswith("._indicies_from_fingerprint") and strip_epochs(x[1][3][-1]) == fp for x in (i1, i2)) \
                and {i1[2], i2[2]} == {C(0), C(1)}
            if not okg:
                rep.bad(rid, f"{ctx}._generate_fingerprint_info", "indices not from the fingerprint",
                        "the indices returned with a fingerprint are not the two candidate indices of the fingerprint that is returned (and stored): the entry is placed where "
                        "look-ups, and the re-insertion after an expansion, will not look for it", gen.where())
                ok = False
                break
    if ok and seen:
        rep.ok(rid, f"{ctx}._generate_fingerprint_info: indices are those of the returned fingerprint")
    return ok


def key_triple(p):
    """(idx_1, idx_2, fingerprint) as handed out by _generate_fingerprint_info on this path, or None"""
    for e in p.events:
        if e.kind == "call" and e.name == "_generate_fingerprint_info" and e.d.get("result") is not None:
            r = strip_epochs(e.result)
            return ("sub", r, C(0), 0), ("sub", r, C(1), 0), ("sub", r, C(2), 0)
    return None


def _search_facts(p, fp, buckets):
    """facts the path holds about a search for fingerprint fp in the given bucket expressions:
    (found bin expression or None, set of buckets searched to the end without a hit)"""
    hit, walked = None, set()
    for c in p.conds:
        a = strip_epochs(c.atom)
        if a[0] == "loop0" and c.truth and a[2] in buckets:
            walked.add(a[2])
        elif a[0] == "cmp" and a[1] in ("in", "notin") and (fp is None or a[2] == fp) and a[3][0] == "it" and a[3][2] in buckets and c.loops:
            if (a[1] == "in") == c.truth:
                hit = a[3]
            else:
                walked.add(a[3][2])
        elif a[0] == "call" and a[1] == ("g", "any") and len(a[2]) == 1 and a[2][0][0] == "comp" and len(a[2][0][3]) == 1 and not c.truth:
            g = a[2][0]
            if g[3][0][2] in buckets and g[2][0] == "cmp" and g[2][1] == "in" and (fp is None or g[2][2] == fp):
                walked.add(g[3][0][2])
        elif a[0] == "cmp" and a[1] in ("is", "isnot") and a[3] == C(None) and a[2][0] == "call" and a[2][1] == ("g", "next") and len(a[2][2]) == 2 \
                and a[2][2][1] == C(None) and a[2][2][0][0] == "comp" and len(a[2][2][0][3]) == 1:
            # next((b for b in bucket if fp in b), None): the first bin holding the fingerprint, or None
            g = a[2][2][0]
            gen = g[3][0]
            okf = gen[2] in buckets and g[2] == ("it", gen[1], gen[2]) and len(gen[3]) == 1 and gen[3][0][0] == "cmp" and gen[3][0][1] == "in" \
                and (fp is None or gen[3][0][2] == fp) and gen[3][0][3] == g[2]
            if okf:
                if (a[1] == "isnot") == c.truth:
                    hit = a[2]
                else:
                    walked.add(gen[2])
    return hit, walked


def presence(p):
    """what a path of add / remove / check knows about the key's fingerprint being stored:
    ('present', bin expression or None) / ('absent',) / ('infeasible',) / None.  Recognised through the presence helper's
    result, or - when the search is written out (a helper looked through) - through a hit `fingerprint in <bin of a candidate
    bucket>` or two candidate buckets walked to the end without one.  'infeasible': the presence helper named a bucket and a
    complete search of that very bucket found nothing (excluded by the helper's own rule, C15.no-duplicate)."""
    kt = key_triple(p)
    fp = kt[2] if kt else None
    tab = ("f", SELF, TABLE, 0)
    for c in p.conds:
        a = c.atom
        if a[0] == "cmp" and a[1] in ("is", "isnot") and a[3] == C(None) and not c.loops and strip_epochs(a[2])[0] == "ret" \
                and strip_epochs(a[2])[1].endswith("._check_if_present"):
            if (a[1] == "isnot") != c.truth:
                return ("absent",)
            where_ = ("sub", tab, strip_epochs(a[2]), 0)
            hit, walked = _search_facts(p, None, {where_})
            if hit is not None:
                return ("present", hit)
            if where_ in walked:
                return ("infeasible",)
            return ("present", None)
    if kt is None:
        return None
    i1, i2, _ = kt
    b1, b2 = ("sub", tab, i1, 0), ("sub", tab, i2, 0)
    hit, walked = _search_facts(p, fp, {b1, b2})
    if hit is not None:
        return ("present", hit)
    if walked == {b1, b2}:
        return ("absent",)
    if walked and _same_bucket(p, i1, i2):
        return ("absent",)  # the two candidate buckets are one and the same, and it was searched
    return None


def _same_bucket(p, i1, i2) -> bool:
    for c in p.conds:
        a = strip_epochs(c.atom)
        if a[0] == "cmp" and a[1] in ("==", "!=") and {a[2], a[3]} == {i1, i2} and ((a[1] == "==") == c.truth):
            return True
    return False


def bin_drops(p, after=0):
    """events that take an entry out of a bucket: bucket.remove(x), del bucket[i], bucket.pop(i)"""
    out = []
    for e in p.events[after:]:
        if e.kind == "call" and e.target is None and e.d.get("recv") is not None and is_bucket(e.recv) is not None \
                and e.name in ("remove", "__delitem__", "pop"):
            out.append(e)
    return out


def _whole_table(dom, cap) -> bool:
    """a walk over every bucket of the (old) table: range(capacity), the bucket list itself, or its prefix [:capacity]"""
    dom = strip_epochs(dom)
    tab = ("f", SELF, TABLE, 0)
    if dom == ("call", ("g", "range"), (cap,), ()) or dom == tab:
        return True
    return dom[0] == "slice" and dom[1] == tab and dom[2] in (C(None), C(0)) and dom[3] in (cap, C(None)) and dom[4] in (C(None), C(1))


def candidates_stable(prog, rep, ctx, rid):
    """candidate buckets depend on the fingerprint and the CURRENT capacity only (no remembered result)"""
    ix = prog.method(ctx, "_indicies_from_fingerprint")
    reads = set()
    for p in cpaths(prog, ctx, ix):
        if p.exit[0] == "return":
            for n in walk(p.exit[1]):
                if n[0] == "f" and n[1] == SELF:
                    reads.add(n[2])
                if n[0] == "p":
                    reads.add("param:" + n[1])
    extra = reads - {"_cuckoo_capacity", "_CuckooFilter__hash_func", "param:fingerprint"}
    if extra or "_cuckoo_capacity" not in reads:
        rep.bad(rid, f"{ctx}._indicies_from_fingerprint", f"reads {sorted(reads)}",
                f"candidate buckets depend on {sorted(extra) or 'not the capacity'}: an entry may not be found where it was placed, or sits in a bucket it does not map to "
                "for the current capacity", ix.where())
    else:
        rep.ok(rid, f"{ctx}: candidates = f(fingerprint, capacity, hash)")


def check(prog, rep, tier):
    rep.extra["explanation"] = EXPL
    rep.rule("C03.no-loss-on-insert", "no slot is overwritten uncaptured; nothing is held at a success exit; the returned left-over is what is in hand", floor=2)
    rep.rule("C03.leak-on-raise", "no entry is held outside the table when an exception is raised", floor=0)
    rep.rule("C03.capture-all", "expansion collects the left-over and every bucket of the old range before replacing the table", floor=2)
    rep.rule("C03.reinsert-all", "expansion re-inserts every collected entry and inspects each result", floor=2)
    rep.rule("C03.left-over-handled", "the left-over of a failed insert is re-inserted by the expansion or the failure is raised; add() passes it on", floor=6)
    rep.rule("C03.remove-guarded", "remove mutates only after the presence test, in the bucket where the entry was found", floor=2)
    rep.rule("C03.candidates-stable", "candidate buckets are a function of the fingerprint, the capacity and the hash only", floor=2)
    rep.assume("random.choice / random.randint may return any admissible value (their results are never inspected)")
    rep.trust("list / array semantics of append, extend, remove and `in`")
    for ctx in CTXS:
        check_insert(prog, rep, ctx)
        check_expand(prog, rep, ctx)
        check_flag_tests(prog, rep, ctx)
        check_failure_handling(prog, rep, ctx)
        check_remove_and_candidates(prog, rep, ctx)


from ..selftest import Mutant, del_stmt, insert_stmt, replace_expr, replace_stmt, seq

_CK, _CC = "cuckoo/cuckoo.py", "cuckoo/countingcuckoo.py"
MUTANTS = [
    Mutant("full table grows first, then stores the entry at the candidates computed for the old capacity", "cuckoo/cuckoo.py",
           insert_stmt("CuckooFilter", "_insert_fingerprint", "if self.auto_expand and self._inserted_elements >= self.capacity * self.bucket_size:\n    self._expand_logic(None)\n    if self.__insert_element(fingerprint, idx_1):\n        self._inserted_elements += 1\n        return None", before="idx = random.choice"), rule="C03.no-loss"),
    Mutant("full table grows first, candidates recomputed before the entry is stored (no entry lost)", "cuckoo/cuckoo.py",
           insert_stmt("CuckooFilter", "_insert_fingerprint", "if self.auto_expand and self._inserted_elements >= self.capacity * self.bucket_size:\n    self._expand_logic(None)\n    idx_1, idx_2 = self._indicies_from_fingerprint(fingerprint)\n    if self.__insert_element(fingerprint, idx_1):\n        self._inserted_elements += 1\n        return None", before="idx = random.choice"), expect="silent"),
    Mutant("auto_expand stored as passed and tested by identity", "cuckoo/cuckoo.py",
           seq(replace_stmt("CuckooFilter", "__init__", "self.auto_expand = auto_expand", "self.__auto_expand = auto_expand"),
               replace_expr("CuckooFilter", "_deal_with_insertion", "self.auto_expand", "self.auto_expand is True")), rule="C03.no-loss-on-insert"),
    Mutant("auto_expand normalised by bool() and tested by identity (same meaning)", "cuckoo/cuckoo.py",
           replace_expr("CuckooFilter", "_deal_with_insertion", "self.auto_expand", "self.auto_expand is True"), expect="silent"),
    Mutant("_setup_expand: range(capacity - 1)", _CK, replace_expr("CuckooFilter", "_setup_expand", "range(self.capacity)", "range(self.capacity - 1)"), rule="C03.capture"),
    Mutant("_deal_with_insertion: _expand_logic(None)", _CK, replace_expr("CuckooFilter", "_deal_with_insertion", "self._expand_logic(finger)", "self._expand_logic(None)"), rule="C03.left-over"),
    Mutant("_setup_expand: table reset before collecting", _CK, insert_stmt("CuckooFilter", "_setup_expand", "self._buckets = []", before="for idx in range(self.capacity)"), rule="C03.capture"),
    Mutant("eviction overwrites without keeping the victim", _CK, replace_stmt("CuckooFilter", "_insert_fingerprint", "fingerprint, self.buckets[idx][swap_elm] = ", "self.buckets[idx][swap_elm] = fingerprint"), rule="C03.no-loss"),
    Mutant("_insert_fingerprint: return None after the loop", _CK, replace_stmt("CuckooFilter", "_insert_fingerprint", "return fingerprint", "return None"), rule="C03.no-loss"),
    Mutant("_setup_expand forgets the left-over", _CK, del_stmt("CuckooFilter", "_setup_expand", "if extra_fingerprint is not None"), rule="C03.capture"),
    Mutant("_expand_logic re-inserts all but the first", _CK, replace_expr("CuckooFilter", "_expand_logic", "fingerprints", "fingerprints[1:]", nth=1), rule="C03.reinsert"),
    Mutant("add drops the insert result", _CK, replace_stmt("CuckooFilter", "add", "self._deal_with_insertion(finger)", "pass"), rule="C03.left-over"),
    Mutant("counting: eviction keeps the new bin instead of the victim", _CC, replace_stmt("CountingCuckooFilter", "_insert_fingerprint_alt", "prv_bin, self.buckets[idx][swap_elm] = ", "self.buckets[idx][swap_elm] = prv_bin"), rule="C03.no-loss"),
    Mutant("counting _expand_logic swallows a rejected entry", _CC, replace_stmt("CountingCuckooFilter", "_expand_logic", "if res is not None", "if res is not None:\n    continue"), rule="C03.reinsert"),
    Mutant("remove deletes from the first candidate bucket", _CK, replace_expr("CuckooFilter", "remove", "self.buckets[idx]", "self.buckets[idx_1]"), rule="C03.remove"),
    Mutant("candidates depend on the number of stored elements", _CK, replace_expr("CuckooFilter", "_indicies_from_fingerprint", "fingerprint % self.capacity", "(fingerprint + self._inserted_elements) % self.capacity"), rule="C03.candidates"),
    Mutant("swap written with a temporary (same meaning)", _CK,
           replace_stmt("CuckooFilter", "_insert_fingerprint", "fingerprint, self.buckets[idx][swap_elm] = ", "self.buckets[idx][swap_elm] = fingerprint\nfingerprint = swb"), expect="silent"),
]
