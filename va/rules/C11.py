"""C11 - on-disk Bloom filter file is always a valid, current export (ordering / provenance part)."""
from __future__ import annotations

import ast as _ast
import struct as _struct

from ..common import conds_at, mro_methods, nshow, outer_field, paths
from ..effects import Effects
from ..expr import C, SELF, canon, norm, show, strip_epochs, walk
from ..model import AnalysisError
from ..walk import IO_MUTATING
from .C19 import ondisk_sync_lemma

EXPL = ("Orders and provenance of the library's own actions on the backing file, on every path (full inlining): "
        "(a) add_alt: bit stores, then the counter, then __update; __update: flush the mapping, seek, write 8 bytes, flush the "
        "file; close: __update, close the mapping, close the file; (b) the rewritten field is exactly slot 1 of the footer: "
        "seek offset and format are computed from the struct literals and compared with the footer layout; (c) after creation "
        "the only file mutations are OR-stores into the mapping and that one slot write - no truncate/resize/other write; "
        "(d) every public mutator of persisted state reaches __update; (e) every path handed to open/copyfile/_load is the "
        "fully resolved path with no lossy projection (.name, .stem, basename); (f) reopening restores the stored count.  "
        "Crash atomicity of the 8-byte write and page-cache/msync semantics are the operating system's and are not decided.")
FILES = ["blooms/bloom.py", "utilities.py"]
CTX = "BloomFilterOnDisk"
FP = "_BloomFilterOnDisk__file_pointer"
LOSSY = {"name", "stem", "suffix", "parts", "anchor", "drive"}


def slot_offset_from_end(fmt: str, i: int):
    chars = [c for c in fmt if c.isalpha()]
    size = _struct.calcsize(fmt)
    pre = _struct.calcsize("".join(chars[:i]) + chars[i]) - _struct.calcsize(chars[i]) if i else 0
    # native alignment: offset of slot i = calcsize(prefix incl. slot i) - size(slot i)
    return size - pre, chars[i]


def _is_resolving(n) -> bool:
    """a call that makes a path absolute AND follows symbolic links: Path.resolve() or os.path.realpath() (os.path.abspath only
    normalises the text: `link/../f` then names another file than the one the operating system opens)"""
    return n[0] == "call" and ((n[1][0] == "m" and n[1][2] == "resolve") or n[1] in (("ext", "os", "path", "realpath"), ("ext", "os.path", "realpath")))


def io_events(p):
    out = []
    for e in p.events:
        if e.kind == "call" and e.target is None and e.recv is not None:
            r = strip_epochs(e.recv)
            if r == ("f", SELF, FP, 0):
                out.append(("file." + e.name, e))
            elif r == ("f", SELF, "_bloom", 0) and e.name in IO_MUTATING:
                out.append(("map." + e.name, e))
        elif e.kind == "setelem" and strip_epochs(e.cont) == ("f", SELF, "_bloom", 0):
            out.append(("map.store", e))
        elif e.kind == "setfield" and e.base == SELF and e.name == "_els_added":
            out.append(("counter", e))
        elif e.kind == "call" and e.target is not None and e.target.src_name == "__update":
            out.append(("enter __update", e))
    return out


def _flag_skips_flush(p, all_paths):
    """why the mapping flush is skipped on path p: 'justified' (a monotone some-bit-was-stored flag is False and the path stores
    nothing), 'infeasible' (the flag is False although this path's iteration stored a bit and set it), or None"""
    flags = [c for c in p.conds if not c.truth and strip_epochs(c.atom)[0] == "hv"]
    for c in flags:
        name, lid = c.atom[1], c.atom[2].rstrip("+")
        init = [e for e in p.events if e.kind == "loopinit" and e.name == name and e.lid == lid]
        if not init or init[0].value not in (C(False), C(0)):
            continue
        inloop = [e.value for q in all_paths for e in q.events if e.kind == "bind" and e.name == name and e.loops and e.loops[-1] == lid]
        if not inloop or any(v not in (C(True), C(1)) for v in inloop):
            continue
        # every iteration that stores also raises the flag
        okset = True
        for q in all_paths:
            st = [i for i, e in enumerate(q.events) if e.kind == "setelem" and e.loops and e.loops[-1] == lid and strip_epochs(e.cont) == ("f", SELF, "_bloom", 0)]
            if st and not any(e.kind == "bind" and e.name == name and e.loops and e.loops[-1] == lid for e in q.events[st[0]:]):
                okset = False
        if not okset:
            continue
        stored = any(e.kind == "setelem" and strip_epochs(e.cont) == ("f", SELF, "_bloom", 0) for e in p.events)
        return "infeasible" if stored else "justified"
    return None


def check(prog, rep, tier):
    rep.extra["explanation"] = EXPL
    rep.rule("C11.write-order", "bits -> counter -> flush mapping -> seek -> write count -> flush file; close: sync, close mapping, close file", floor=3)
    rep.rule("C11.slot-offset", "the rewritten 8 bytes are exactly slot 1 (element count) of the footer, same format character", floor=1)
    rep.rule("C11.file-writers", "after creation only OR-stores into the mapping and the slot write touch the file", floor=1)
    rep.rule("C11.mutators-sync", "every public mutator of persisted state reaches __update", floor=1)
    rep.rule("C11.path-provenance", "paths handed to open / copyfile / _load are the resolved path, without lossy projection", floor=4)
    rep.rule("C11.creation-truncates", "every open-for-writing reached from the constructor discards what the path held before (mode w/x, O_TRUNC/O_EXCL, or an explicit truncate to 0)", floor=1)
    rep.rule("C11.creation-layout", "a created file is ceil(bits/8) zero bytes followed by the footer (judged where the creation is a tofile / seek / write sequence on a file object)", floor=0)
    rep.rule("C11.reload-count", "reopening restores the stored element count", floor=1)
    rep.trust("OS file semantics: a flushed mmap store and a flushed 8-byte write reach the file; atomicity of that write is not claimed")
    upd = prog.method(CTX, "__update")
    for f_ in mro_methods(prog, CTX):
        rep.analysed(f_, CTX, len(paths(prog, CTX, f_)))
    # ---------------------------------------------------------------- (a) write order
    add = prog.method(CTX, "add_alt")
    ok = True
    all_add_paths = paths(prog, CTX, add, inline="deep")
    for p in all_add_paths:
        if p.exit[0] != "return":
            continue
        seq = [k for k, _ in io_events(p)]
        stores = [i for i, k in enumerate(seq) if k == "map.store"]
        want_tail = ["counter", "enter __update", "map.flush", "file.seek", "file.write", "file.flush"]
        tail = [k for k in seq if k != "map.store"]
        first_non_store = min([i for i, k in enumerate(seq) if k != "map.store"], default=len(seq))
        if tail == [k for k in want_tail if k != "map.flush"]:
            # the mapping is not flushed on this path: sound exactly when no bit was stored (nothing to flush).  A "some bit was
            # stored" flag decides that: False at loop entry, only ever set to True, and set on every iteration that stores
            if not stores:
                continue  # nothing was stored on this path, so there is nothing to flush
            if _flag_skips_flush(p, all_add_paths) == "infeasible":
                continue
        if tail != want_tail or any(i > first_non_store for i in stores):
            rep.bad("C11.write-order", f"{CTX}.add_alt", f"order {seq}",
                    f"add performs {seq}; required: all bit stores, then the counter, then __update = flush mapping, seek, write count, flush file "
                    "(otherwise the file can record an addition whose bits are not yet there, or never record it)", add.where())
            ok = False
            break
    if ok:
        rep.ok("C11.write-order", f"{CTX}.add_alt: stores -> counter -> flush map -> seek -> write -> flush file")
    ups = [p for p in paths(prog, CTX, upd) if p.exit[0] == "return"]
    full = ["map.flush", "file.seek", "file.write", "file.flush"]

    def upd_ok(p):
        seq_ = [k for k, _ in io_events(p)]
        if seq_ == full:
            return True
        # the mapping flush may be switched off by a parameter that defaults to "flush": callers that do not pass it get the full
        # sequence; add_alt's use of it is judged above, nobody else may pass it (checked below)
        if seq_ == full[1:]:
            sw = [c for c in p.conds if not c.truth and strip_epochs(c.atom)[0] == "p" and strip_epochs(c.atom)[1] in upd.params
                  and upd.defaults.get(strip_epochs(c.atom)[1]) is not None and getattr(upd.defaults[strip_epochs(c.atom)[1]], "value", None) is True]
            return bool(sw)
        return False
    oku = all(upd_ok(p) for p in ups) and ups and any([k for k, _ in io_events(p)] == full for p in ups)
    if oku:
        for f_ in mro_methods(prog, CTX):
            if f_.src_name in ("add_alt", "__update"):
                continue
            for p in paths(prog, CTX, f_):
                for e in p.events:
                    if e.kind == "call" and e.target is upd and (e.args or e.kwargs):
                        vals = list(e.args) + list((e.kwargs or {}).values())
                        if any(v != C(True) for v in vals):
                            oku = False
    if oku:
        rep.ok("C11.write-order", f"{CTX}.__update: flush map, seek, write, flush file")
    else:
        rep.bad("C11.write-order", f"{CTX}.__update", f"order {[[k for k, _ in io_events(p)] for p in ups]}",
                "__update does not flush the mapping, seek, write the count and flush the file in that order", upd.where())
    cl = prog.method(CTX, "close")
    okc = True
    seen_close = False
    for p in paths(prog, CTX, cl, inline="deep"):
        if p.exit[0] != "return":
            continue
        seq = [k for k, _ in io_events(p)]
        if not seq:
            continue
        seen_close = True
        fpf = ("f", SELF, FP, 0)
        isopen = any(strip_epochs(c.atom) == ("cmp", "isnot", fpf, C(None)) and c.truth or strip_epochs(c.atom) == ("cmp", "is", fpf, C(None)) and not c.truth for c in p.conds) and \
            any(strip_epochs(c.atom) == ("f", fpf, "closed", 0) and not c.truth for c in p.conds)
        if not isopen:
            rep.bad("C11.write-order", f"{CTX}.close", "release on the wrong branch",
                    "close syncs and releases the file on a path that has not established 'file pointer is set and not closed' - and therefore does nothing when the file is open", cl.where())
            okc = False
            break
        want = ["enter __update", "map.flush", "file.seek", "file.write", "file.flush", "map.close", "file.close"]
        if seq != want:
            rep.bad("C11.write-order", f"{CTX}.close", f"order {seq}", f"close performs {seq}; required {want}: the final count must reach the file before it is released", cl.where())
            okc = False
            break
    if okc and seen_close:
        rep.ok("C11.write-order", f"{CTX}.close: sync, close mapping, close file")
    elif okc:
        rep.bad("C11.write-order", f"{CTX}.close", "no release", "close never syncs and releases the file", cl.where())
    # ---------------------------------------------------------------- (b) slot offset
    K = prog.cls(CTX)
    foot = None
    off = whence = wr = None
    for p in ups:
        for k, e in io_events(p):
            if k == "file.seek":
                off = strip_epochs(e.args[0]) if e.args else None
                whence = strip_epochs(e.args[1]) if len(e.args) > 1 else None
            if k == "file.write":
                wr = e.args[0] if e.args else None
        foot = (off, whence, wr)
    exp_f, em = None, None
    from .C05 import emissions, footer_of
    _, em = emissions(prog, "BloomFilter")
    ft = footer_of(em)
    if ft is None:
        raise AnalysisError("C11: the export footer could not be located")
    if foot is None:
        foot = (None, None, None)
    off, whence, wr = foot
    slot = [i for i, a in enumerate(ft[2]) if a == ("f", SELF, "_els_added", 0)]
    if len(slot) != 1:
        raise AnalysisError("C11: element count is not a slot of the export footer")
    want_off, ch = slot_offset_from_end(ft[1], slot[0])
    okoff = off == C(-want_off) and whence is not None and whence[0] == "ext" and whence[-1] == "SEEK_END"
    okw = wr is not None and wr[0] == "pack" and wr[1].lstrip("<>=@!") == ch and len(wr[2]) == 1 and strip_epochs(wr[2][0]) == ("f", SELF, "_els_added", 0)
    if okoff and okw:
        rep.ok("C11.slot-offset", f"__update writes '{ch}'(elements_added) at -{want_off} from the end = slot {slot[0]} of '{ft[1]}'")
    else:
        rep.bad("C11.slot-offset", f"{CTX}.__update", f"seek {nshow(off) if off else '?'} write {nshow(wr) if wr else '?'}",
                f"__update seeks to {nshow(off) if off else '?'} ({nshow(whence) if whence else '?'}) and writes {nshow(wr) if wr else '?'}; slot {slot[0]} of the "
                f"footer '{ft[1]}' is '{ch}' at -{want_off} from the end: the rewritten bytes are not the element count of a valid export", upd.where())
    # ---------------------------------------------------------------- (c) who may write the file
    bad = None
    for f in mro_methods(prog, CTX):
        for p in paths(prog, CTX, f):
            for k, e in io_events(p):
                if k in ("counter", "enter __update"):
                    continue
                if k == "map.store":
                    v = canon(e.value)
                    rd = canon(("sub", ("f", SELF, "_bloom", 0), strip_epochs(e.index), 0))
                    zero_cells = False
                    if f.src_name == "clear" and strip_epochs(e.index)[0] == "slc":
                        from .C19 import _zero_block
                        z_, full_ = _zero_block(prog, CTX, "_bloom", strip_epochs(e.index), strip_epochs(e.value))
                        zero_cells = z_ and full_  # a block of zeros over exactly the cells (the footer behind them is not touched)
                    if not ((v[0] == "nary" and v[1] == "|" and rd in v[2]) or (f.src_name == "clear" and e.value == C(0)) or zero_cells):
                        bad = (f, e, f"stores {nshow(e.value)} into the mapping (not an OR of the old byte)")
                    continue
                op = k.split(".")[1]
                if k.startswith("file.") and op in ("read", "fileno", "closed", "tell"):
                    continue
                allowed = (f.src_name == "__update" and k in ("map.flush", "file.seek", "file.write", "file.flush")) or \
                          (f.src_name == "close" and k in ("map.close", "file.close", "file.closed"))
                if not allowed:
                    bad = (f, e, f"performs {k} outside __update/close")
    if bad:
        rep.bad("C11.file-writers", f"{CTX}.{bad[0].src_name}", bad[2], f"{bad[0].src_name} {bad[2]}: an intermediate file state may no longer be 'old bits plus some new bits'", bad[1].where())
    else:
        rep.ok("C11.file-writers", "file mutations: OR-stores, clear's zero stores, and __update/close only")
    # ---------------------------------------------------------------- (d) mutators sync
    E = Effects(prog)
    missing = ondisk_sync_lemma(prog, E)
    if missing:
        m = missing[0]
        rep.bad("C11.mutators-sync", f"{CTX}.{m.src_name}", "mutator without footer sync",
                f"{m.cls.name}.{m.src_name} changes persisted state in context {CTX} and never reaches __update: the file's count is stale until the next add or close", m.where())
    else:
        rep.ok("C11.mutators-sync", "every mutator of persisted state reaches __update")
    # ---------------------------------------------------------------- (e) path provenance
    # fields that only ever hold a resolved path (class invariant, from every assignment in the class)
    assigns = {}
    for f in mro_methods(prog, CTX):
        for p in paths(prog, CTX, f):
            for e in p.events:
                if e.kind == "setfield" and e.base == SELF:
                    isres = any(_is_resolving(n) for n in walk(e.value)) and \
                        not any(n[0] == "f" and n[2] in LOSSY for n in walk(e.value))
                    assigns.setdefault(e.name, []).append(isres)
    resolved_fields = {k for k, v in assigns.items() if v and all(v)}
    for fname in ("__init__", "export"):
        f = prog.method(CTX, fname)
        sites = 0
        for p in paths(prog, CTX, f, inline="deep"):
            for e in p.events:
                args = []
                if e.kind == "call" and e.name in ("open", "copyfile", "MMap") and e.args:
                    args = [(e.name, e.args[0])]
                elif e.kind == "call" and e.name == "_load" and e.d.get("bound"):
                    args = [("_load", e.bound.get("file"))]
                for (what, a) in args:
                    if a is None:
                        continue
                    sites += 1
                    lossy = [n for n in walk(a) if n[0] == "f" and n[2] in LOSSY]
                    basename = [n for n in walk(a) if n[0] == "call" and n[1][-1] in ("basename",)]
                    resolved = any(_is_resolving(n) for n in walk(a)) or \
                        (strip_epochs(a)[0] == "f" and strip_epochs(a)[1] == SELF and strip_epochs(a)[2] in resolved_fields)
                    wrapped = [n for n in walk(a) if n[0] == "ret" and "@" in n[1]]
                    if wrapped:
                        rep.bad("C11.path-provenance", f"{CTX}.{fname}", f"{what}({nshow(wrapped[0])})",
                                f"{what} receives the result of {wrapped[0][1]}: a wrapping decorator (e.g. a cache) makes the resolved path depend on "
                                "earlier calls instead of the current working directory", e.where())
                    elif lossy or basename:
                        rep.bad("C11.path-provenance", f"{CTX}.{fname}", f"{what}({nshow(lossy[0] if lossy else basename[0])})",
                                f"{what} receives {nshow(a)}: the directory part of the resolved path is dropped, so the file is looked up relative to the "
                                "current working directory (reopen/export fail or hit another file after chdir)", e.where())
                    elif not resolved and what == "open" and fname == "export" and len(e.args) > 1 and e.args[1][0] == "c" and isinstance(e.args[1][1], str) \
                            and any(ch in e.args[1][1] for ch in "wax+"):
                        # a destination opened for writing: safe only when it cannot be the backing file under another spelling
                        fpth = ("f", SELF, "_filepath", 0)
                        guarded = False
                        for c in conds_at(p, e):
                            c = strip_epochs(c)
                            if c[0] == "cmp" and c[1] == "!=" and fpth in (c[2], c[3]):
                                other = c[3] if c[2] == fpth else c[2]
                                if any((_is_resolving(n)) or (n[0] == "ret" and n[1].endswith("resolve_path")) for n in walk(other)):
                                    guarded = True
                        if guarded:
                            rep.ok("C11.path-provenance", f"{CTX}.{fname}: destination opened for writing under a resolved own-file guard")
                        else:
                            rep.bad("C11.path-provenance", f"{CTX}.{fname}", f"open({nshow(a)}, {e.args[1][1]!r})",
                                    f"export opens {nshow(a)} for writing without a guard comparing the backing path with the RESOLVED destination: another spelling of the "
                                    "backing file's own name truncates the live, mapped file (copyfile refused that case with SameFileError)", e.where())
                    elif not resolved:
                        rep.bad("C11.path-provenance", f"{CTX}.{fname}", f"{what}({nshow(a)})", f"{what} receives {nshow(a)}, which is not the resolved path", e.where())
                    else:
                        rep.ok("C11.path-provenance", f"{CTX}.{fname}: {what}(resolved path)")
        if sites == 0:
            rep.bad("C11.path-provenance", f"{CTX}.{fname}", "no file access",
                    f"{fname} no longer opens / copies the backing file at all: the filter is not backed by (or exported to) a file", f.where())
    # ---------------------------------------------------------------- (e2) nothing moves another inode onto the backing path
    # copyfile refuses source == destination (SameFileError); rename / replace / unlink do not: with the mapping and handle still
    # on the old inode, every later add and the close would go to an orphaned file.  Such a call is accepted only under a guard
    # that compares the backing path with the RESOLVED destination.
    badmv = None
    nmv = 0
    for f in mro_methods(prog, CTX):
        for p in paths(prog, CTX, f):
            for e in p.events:
                if e.kind != "call" or e.d.get("inlined"):
                    continue
                fn = e.d.get("fn")
                hit = None
                if fn is not None and fn[0] == "ext" and fn[1] in ("os", "shutil") and fn[-1] in ("replace", "rename", "renames", "remove", "unlink", "move", "truncate", "rmtree", "link", "symlink"):
                    hit = f"{fn[1]}.{fn[-1]}"
                elif e.d.get("recv") is not None and e.target is None and (e.name in ("rename", "unlink", "rmdir", "write_bytes", "write_text", "symlink_to", "hardlink_to")
                                                                              or (e.name == "replace" and len(e.args) == 1)):
                    hit = f".{e.name}"
                if hit is None:
                    continue
                nmv += 1
                fpth = ("f", SELF, "_filepath", 0)
                guarded = False
                for c in conds_at(p, e):
                    c = strip_epochs(c)
                    if c[0] == "cmp" and c[1] == "!=" and fpth in (c[2], c[3]):
                        other = c[3] if c[2] == fpth else c[2]
                        if any((_is_resolving(n)) or (n[0] == "ret" and n[1].endswith("resolve_path")) for n in walk(other)):
                            guarded = True
                if not guarded:
                    badmv = (f, e, hit)
    if badmv:
        rep.bad("C11.path-provenance", f"{CTX}.{badmv[0].src_name}", f"{badmv[2]} on a path that may be the backing file",
                f"{badmv[0].src_name} reaches {badmv[2]}({', '.join(nshow(a) for a in badmv[1].args)}) without a guard comparing the backing path with the resolved "
                "destination: a different spelling of the backing file's own name swaps a new inode in under the path while the mapping stays on the old, "
                "unlinked one - later adds and the close no longer reach the file", badmv[1].where())
    else:
        rep.ok("C11.path-provenance", f"{CTX}: no rename/replace/unlink reachable without a resolved own-file guard ({nmv} such call(s))")
    # ---------------------------------------------------------------- (e3) creation starts from an empty file
    # "the file equals the export of the same history" starts with "a new filter's file is an empty export": bytes that were at
    # the path before must not survive.  Decided on the open calls the constructor reaches (helpers inlined).
    creators, keepers = {}, {}
    f = prog.method(CTX, "__init__")
    for p in paths(prog, CTX, f, inline="deep"):
        zeroed = any(e.kind == "call" and e.name in ("ftruncate", "truncate") and e.args and strip_epochs(e.args[-1]) == ("c", 0) for e in p.events)
        for e in p.events:
            if e.kind != "call" or e.d.get("inlined"):
                continue
            fn = e.d.get("fn")
            key = e.where()
            if e.name == "open" and fn is not None and fn[0] == "ext" and fn[1] == "os":
                flags = e.args[1] if len(e.args) > 1 else None
                names = {n[2] for n in walk(flags) if n[0] == "ext" and n[1] == "os"} if flags is not None else set()
                if not names & {"O_WRONLY", "O_RDWR", "O_APPEND"}:
                    continue
                if names & {"O_TRUNC", "O_EXCL"} or zeroed:
                    creators[key] = e
                else:
                    keepers[key] = (e, "os.open(" + " | ".join(sorted(names)) + ") without O_TRUNC")
            elif e.name == "open" and (fn is None or fn[0] in ("g", "m")):
                args = list(e.args)
                mode = None
                kw = dict(e.d.get("kw") or ())
                if e.recv is not None and fn is not None and fn[0] == "m":
                    mode = args[0] if args else kw.get("mode")
                else:
                    mode = args[1] if len(args) > 1 else kw.get("mode")
                if mode is None or mode[0] != "c" or not isinstance(mode[1], str):
                    continue
                m = mode[1]
                if "w" in m or "x" in m:
                    creators[key] = e
                elif "a" in m and not zeroed:
                    keepers[key] = (e, f"open(..., {m!r}) appends to what the path already holds")
            elif e.name in ("write_bytes", "write_text") and e.recv is not None:
                creators[key] = e
    if keepers:
        e, why = sorted(keepers.items())[0][1]
        rep.bad("C11.creation-truncates", f"{CTX}.__init__", why,
                f"the constructor reaches {why}: a filter created on a path that already holds a file starts with that file's bytes inside its bit array "
                "- the new file is not an empty export and a reopen reports keys never added", e.where())
    elif not creators:
        pass  # how a new file is created is not recognised: the rule's floor turns this into "undecided" (exit 2), never a silent pass
    else:
        rep.ok("C11.creation-truncates", f"{CTX}.__init__: {len(creators)} creating open(s), each truncating")
    # ---------------------------------------------------------------- (e4) layout of the created file
    # the file a new filter writes is <bit array of ceil(bits/8) zero bytes><footer>: the footer write must start exactly there.
    # Judged where the creation is a tofile / seek / write sequence on a Python file object (other forms give no verdict here).
    import struct as _st
    laid, badl = 0, None
    f = prog.method(CTX, "__init__")
    for p in paths(prog, CTX, f, inline="deep"):
        if p.exit[0] != "return":
            continue
        handles = [strip_epochs(e.result) for e in p.events if e.kind == "call" and e.name == "open" and len(e.args) > 1 and e.args[1][0] == "c"
                   and isinstance(e.args[1][1], str) and ("w" in e.args[1][1] or "x" in e.args[1][1]) and e.d.get("result") is not None]
        for h in handles:
            pos, known = C(0), True
            for e in p.events:
                if e.kind != "call":
                    continue
                r = strip_epochs(e.recv) if e.recv is not None else None
                if e.name == "tofile" and e.args and strip_epochs(e.args[0]) == h and r is not None:
                    n = None
                    if r[0] in ("nary", "bin") and r[1] == "*":
                        fs = list(r[2]) if r[0] == "nary" else [r[2], r[3]]
                        arrs = [x for x in fs if x[0] == "newb" and x[1] == "array" and len(x[3]) == 2 and x[3][1] == ("lst", (C(0),))]
                        rest = [x for x in fs if x not in arrs]
                        if len(arrs) == 1 and len(rest) == 1:
                            tc = arrs[0][3][0]
                            size = _st.calcsize(tc[1]) if tc[0] == "c" else (1 if strip_epochs(tc) == ("f", SELF, "_typecode", 0) else None)
                            n = norm(("bin", "*", rest[0], C(size))) if size else None
                    if n is None:
                        known = False
                    else:
                        pos = norm(("bin", "+", pos, n))
                elif r == h and e.name == "seek":
                    if len(e.args) == 1 or (len(e.args) == 2 and strip_epochs(e.args[1]) in (C(0), ("ext", "os", "SEEK_SET"))):
                        pos = strip_epochs(e.args[0])
                    else:
                        known = False
                elif r == h and e.name == "write" and e.args:
                    a = strip_epochs(e.args[0])
                    if a[0] == "pack":
                        if not known:
                            break
                        # the footer: everything before it is the bit array
                        bits = [n_ for n_ in walk(pos) if (n_[0] == "sub" and n_[1][0] == "ret" and n_[1][1].endswith("._get_optimized_params") and n_[2] == C(2))
                                or (n_[0] == "f" and n_[2] == "_num_bits") or (n_[0] == "call" and n_[1] == ("ext", "math", "ceil"))]  # (the bit count is itself a ceil(...))
                        blen = [n_ for n_ in walk(pos) if n_[0] == "f" and n_[2] == "_bloom_length"]
                        cands = []
                        lastlen = [strip_epochs(x.value) for x in p.events[:p.events.index(e)] if x.kind == "setfield" and x.base == SELF and x.name == "_bloom_length"]
                        if lastlen:
                            cands.append(canon(lastlen[-1]))
                        for X in set(bits):
                            cands += [canon(("call", ("ext", "math", "ceil"), (("bin", "/", X, C(8)),), ())), canon(("call", ("ext", "math", "ceil"), (("bin", "/", X, C(8.0)),), ())),
                                      canon(("bin", "//", ("bin", "+", X, C(7)), C(8))), canon(("bin", "+", ("bin", "//", ("bin", "-", X, C(1)), C(8)), C(1)))]
                        laid += 1
                        if canon(pos) not in cands and not (blen and canon(pos) == canon(blen[0])):
                            badl = badl or (e, pos)
                        break
                    elif a[0] == "c" and isinstance(a[1], bytes):
                        pos = norm(("bin", "+", pos, C(len(a[1]))))
                    elif a[0] == "call" and a[1] == ("g", "bytes") and len(a[2]) == 1:
                        pos = norm(("bin", "+", pos, a[2][0]))
                    else:
                        known = False
    if badl:
        rep.bad("C11.creation-layout", f"{CTX}.__init__", f"footer written at byte {nshow(badl[1])}",
                f"a new filter's footer is written at byte {nshow(badl[1])} of the file, which is not (a known spelling of) ceil(bits / 8), the length of the bit array: "
                "for some geometries the file carries a stray byte (or lacks one) between the bits and the footer, and is not the export of an empty filter", badl[0].where())
    elif laid:
        rep.ok("C11.creation-layout", f"{CTX}.__init__: footer written right after ceil(bits/8) bytes")
    else:
        rep.notes.append("C11.creation-layout: the creation is not a tofile / seek / write sequence on a Python file object; its layout is not judged by this rule")
    # ---------------------------------------------------------------- (f) reload
    ld = prog.method(CTX, "_load")
    okr = True
    for p in paths(prog, CTX, ld, inline="deep"):
        if p.exit[0] != "return":
            continue
        v = p.fields.get((SELF, "_els_added"))
        if v is None or not any(n[0] == "unp" and n[1].lstrip("<>=@!") == ft[1] and n[2] == slot[0] for n in walk(v)):
            okr = False
    if okr:
        rep.ok("C11.reload-count", f"{CTX}._load restores elements_added from slot {slot[0]}")
    else:
        rep.bad("C11.reload-count", f"{CTX}._load", "count not restored", "reopening the file does not restore the stored element count: the next close writes a wrong count", ld.where())


from ..selftest import Mutant, del_stmt, insert_stmt, replace_class_const, replace_expr, replace_stmt

_B = "blooms/bloom.py"


def _decorate(fname, deco_src):
    def edit(tree):
        for n in tree.body:
            if isinstance(n, _ast.FunctionDef) and n.name == fname:
                n.decorator_list.append(_ast.parse(deco_src, mode="eval").body)
                tree.body.insert(0, _ast.parse("from functools import lru_cache").body[0])
                return True
        return False
    return edit
MUTANTS = [
    Mutant("export: copy to a temporary name and os.replace it onto the target (own file not excluded by resolved path)", _B,
           replace_stmt("BloomFilterOnDisk", "export", "copyfile(self._filepath, str(file))",
                        "copyfile(self._filepath, str(file) + '.tmp')\nos.replace(str(file) + '.tmp', str(file))"), rule="C11.path-provenance"),
    Mutant("export: temporary + os.replace under a guard on the resolved destination (still never the own file)", _B,
           replace_stmt("BloomFilterOnDisk", "export", "if file and Path(file) != self._filepath",
                        "if file and resolve_path(file) != self._filepath:\n    copyfile(self._filepath, str(file) + '.tmp')\n    os.replace(str(file) + '.tmp', str(file))"),
           expect="silent"),
    Mutant("__update: delete self._bloom.flush()", _B, del_stmt("BloomFilterOnDisk", "__update", "self._bloom.flush()"), rule="C11.write-order"),
    Mutant("close: delete self.__update()", _B, del_stmt("BloomFilterOnDisk", "close", "self.__update()"), rule="C11.write-order"),
    Mutant("add_alt: __update before the bit stores", _B, replace_stmt("BloomFilterOnDisk", "add_alt", "super().add_alt(hashes)", "self.__update()\nsuper().add_alt(hashes)"), rule="C11.write-order"),
    Mutant("add_alt: no sync", _B, del_stmt("BloomFilterOnDisk", "add_alt", "self.__update()"), rule="C11."),
    Mutant("_UPDATE_OFFSET = Struct('Qd')", _B, replace_class_const("BloomFilterOnDisk", "_UPDATE_OFFSET", "Struct('Qd')"), rule="C11.slot-offset"),
    Mutant("__update writes a 4-byte count", _B, replace_class_const("BloomFilterOnDisk", "_EXPECTED_ELM_STRUCT", "Struct('I')"), rule="C11.slot-offset"),
    Mutant("__update seeks from the start", _B, replace_expr("BloomFilterOnDisk", "__update", "os.SEEK_END", "os.SEEK_SET"), rule="C11.slot-offset"),
    Mutant("D1 re-introduced in _load_init", _B, replace_expr("BloomFilterOnDisk", "_load_init", "self._load(self._filepath, hash_function)", "self._load(self._filepath.name, hash_function)", nth=1), rule="C11.path"),
    Mutant("D1 re-introduced in export", _B, replace_expr("BloomFilterOnDisk", "export", "copyfile(self._filepath, str(file))", "copyfile(self._filepath.name, str(file))"), rule="C11.path"),
    Mutant("D2 re-introduced", _B, del_stmt("BloomFilterOnDisk", "_load", "self._els_added = els_added"), rule="C11.reload"),
    Mutant("D12 re-introduced: clear without sync", _B, del_stmt("BloomFilterOnDisk", "clear", "self.__update()"), rule="C11.mutators"),
    Mutant("export truncates the file to the bit array", _B, insert_stmt("BloomFilterOnDisk", "export", "self.__file_pointer.truncate(self.bloom_length)"), rule="C11.file-writers"),
    Mutant("resolve_path memoised with lru_cache", "utilities.py", _decorate("resolve_path", "lru_cache(maxsize=256)"), rule="C11.path"),
    Mutant("creation writes one zero byte too many before the footer", _B, replace_expr("BloomFilterOnDisk", "_load_init", "array(self._typecode, [0]) * self.bloom_length", "array(self._typecode, [0]) * (self.bloom_length + 1)"), rule="C11.creation-layout"),
    Mutant("creation opens the file for appending", _B, replace_expr("BloomFilterOnDisk", "_load_init", "open(self._filepath, 'wb')", "open(self._filepath, 'ab')"), rule="C11.creation-truncates"),
    Mutant("creation through os.open without O_TRUNC", _B, replace_expr("BloomFilterOnDisk", "_load_init", "open(self._filepath, 'wb')", "os.fdopen(os.open(self._filepath, os.O_WRONLY | os.O_CREAT), 'wb')"), rule="C11.creation-truncates"),
    Mutant("creation through os.open with O_TRUNC", _B, replace_expr("BloomFilterOnDisk", "_load_init", "open(self._filepath, 'wb')", "os.fdopen(os.open(self._filepath, os.O_WRONLY | os.O_CREAT | os.O_TRUNC), 'wb')"), expect="silent"),
    Mutant("close guard negated", _B, replace_expr("BloomFilterOnDisk", "close", "self.__file_pointer is not None and (not self.__file_pointer.closed)", "not (self.__file_pointer is not None and (not self.__file_pointer.closed))"), rule="C11.write-order"),
    Mutant("close: file closed before the final sync", _B, replace_stmt("BloomFilterOnDisk", "close", "self.__update()", "self._bloom.close()\nself.__update()"), rule="C11.write-order"),
]
