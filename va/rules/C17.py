"""C17 - heavy-hitter and threshold tables are consistent with the returned estimates (decision tables, E8)."""
from __future__ import annotations

import ast as _ast

from ..common import all_conds, conds_at, held_method_call, nshow, outer_field, paths
from ..expr import C, SELF, canon, norm, show, strip_epochs, walk
from ..intervals import EQ, GT, LT, path_orderings
from ..model import AnalysisError

EXPL = ("Decision tables over the enumerated paths of StreamThreshold.add_alt/remove_alt and HeavyHitters.add_alt: each path is "
        "classified by the orderings its branch conditions admit (res vs threshold; size vs limit; res vs smallest; key in table) "
        "and the table effects on that path (store, pop) are compared with the row the property prescribes.  Comparison "
        "operators are judged by the ordering sets they admit, never by spelling.  The stored value, and the returned value, "
        "must be the estimate returned by the underlying sketch call.")
FILES = ["countminsketch/countminsketch.py"]


def table_ops(p, tfield, prog=None, ctx=None):
    """ordered table operations on a path: ('set', key, value, ev) / ('pop', key, ev) / ('rebind', ev)"""
    ops = []
    for e in p.events:
        if e.kind == "setelem" and strip_epochs(e.cont) == ("f", SELF, tfield, 0):
            ops.append(("set", strip_epochs(e.index), strip_epochs(e.value), e))
        elif e.kind == "call" and e.target is None and e.recv is not None and strip_epochs(e.recv) == ("f", SELF, tfield, 0) \
                and e.name in ("pop", "clear", "popitem", "update", "setdefault", "__delitem__"):
            # `del table[k]` removes exactly what `table.pop(k)` removes
            ops.append(("pop" if e.name == "__delitem__" else e.name, strip_epochs(e.args[0]) if e.args else None, None, e))
        elif e.kind == "setfield" and e.name == tfield and e.base == SELF:
            ops.append(("rebind", None, strip_epochs(e.value), e))
        elif e.kind == "call" and e.d.get("fn") is not None and prog is not None:
            # table.pop remembered in a field and called through it
            h = held_method_call(prog, ctx, e)
            if h is not None and h[0] == ("f", SELF, tfield, 0) and h[1] in ("pop", "clear", "popitem", "update", "setdefault", "__setitem__", "__delitem__"):
                if h[2] is not None:
                    ops.append(("stale", None, None, h[2][1]))
                elif h[1] == "__setitem__" and len(e.args) == 2:
                    ops.append(("set", strip_epochs(e.args[0]), strip_epochs(e.args[1]), e))
                elif h[1] == "__delitem__":
                    ops.append(("pop", strip_epochs(e.args[0]) if e.args else None, None, e))
                else:
                    ops.append((h[1], strip_epochs(e.args[0]) if e.args else None, None, e))
    return ops


def _is_nsmallest(v, table) -> bool:
    """heapq.nsmallest(k >= 2, table, key=table.get), taken while the new key is already in the table"""
    v = strip_epochs(v)
    return v[0] == "call" and v[1][0] == "ext" and v[1][-1] == "nsmallest" and len(v[2]) == 2 and v[2][0][0] == "c" and isinstance(v[2][0][1], int) \
        and v[2][0][1] >= 2 and v[2][1] == table and dict(v[3]).get("key") is not None and strip_epochs(dict(v[3])["key"])[:3] == ("f", table, "get")


def sketch_result(p, fname):
    for e in p.events:
        if e.kind == "call" and e.name == fname and e.target is not None and e.target.cls.name == "CountMinSketch":
            return strip_epochs(e.result), e
    # an update by 0 changes no counter and returns what a look-up returns (C02: the value returned by add / remove equals what check
    # reports immediately afterwards): where the path has established num_els == 0, the sketch's check_alt stands for the update
    zero = any((strip_epochs(c.atom) == ("p", "num_els") and not c.truth) or
               (strip_epochs(c.atom) in (("cmp", "==", ("p", "num_els"), C(0)),) and c.truth) or
               (strip_epochs(c.atom) in (("cmp", "!=", ("p", "num_els"), C(0)),) and not c.truth) for c in p.conds)
    if zero:
        for e in p.events:
            if e.kind == "call" and e.name == "check_alt" and e.target is not None and e.target.cls.name == "CountMinSketch" and e.args \
                    and strip_epochs(e.args[0]) == ("p", "hashes"):
                return strip_epochs(e.result), e
    return None, None


def stream_threshold(prog, rep):
    ctx = "StreamThreshold"
    T = "_StreamThreshold__meets_threshold"
    thr = ("f", SELF, "_StreamThreshold__threshold", 0)
    key = ("p", "key")
    for fname in ("add_alt", "remove_alt"):
        f = prog.method(ctx, fname)
        ps = [p for p in paths(prog, ctx, f) if p.exit[0] == "return"]
        rep.analysed(f, ctx, len(ps))
        where = f"{ctx}.{fname}"
        rows = {"meets": False, "below": False}
        good = True
        for p in ps:
            res, ev = sketch_result(p, fname)
            if res is None:
                rep.bad("C17.threshold-table", where, "no sketch update", f"{fname} does not call the count-min {fname}", f.where())
                good = False
                break
            if strip_epochs(p.exit[1]) != res:
                rep.bad("C17.stored-equals-returned", where, f"returns {nshow(p.exit[1])}", f"{fname} returns {nshow(p.exit[1])}, not the sketch's estimate", f.where(p.exit[2]))
                good = False
                break
            o = path_orderings([strip_epochs(c) for c in all_conds(p)], res, thr)
            ops = table_ops(p, T, prog, ctx)
            if not o:
                continue  # contradictory conditions on estimate vs threshold: no execution takes this path
            if o <= {EQ, GT}:
                rows["meets"] = True
                want = [("set", key, res)]
            elif o <= {LT}:
                rows["below"] = True
                want = [("pop", key, None)]
            else:
                rep.bad("C17.threshold-table", where, f"undecided row {sorted(o)}",
                        f"a path through {fname} does not decide estimate vs threshold (admits {sorted(o)}): keys at or above the threshold and keys below it are treated alike",
                        f.where())
                good = False
                break
            stale = [o_ for o_ in ops if o_[0] == "stale"]
            if stale:
                rep.bad("C17.threshold-table", where, "remembered table method is stale",
                        "the table is changed through a bound method remembered in a field, and the table is re-bound here without refreshing it: "
                        "after that the calls act on the discarded table", stale[0][3].where())
                good = False
                break
            got = [(a, b, c) for (a, b, c, _) in ops]
            if want[0][0] == "pop" and not got:
                # nothing to remove when the key is known not to be in the table
                T_ = ("f", SELF, T, 0)
                if any(strip_epochs(c.atom) in (("cmp", "in", key, T_), ("cmp", "notin", key, T_)) and ((strip_epochs(c.atom)[1] == "notin") == c.truth) for c in p.conds):
                    continue
                # ... or when the table is known to be empty
                lenT = ("call", ("g", "len"), (T_,), ())
                if any((strip_epochs(c.atom) == T_ and not c.truth) or (strip_epochs(c.atom) == ("un", "not", T_) and c.truth) or
                       (strip_epochs(c.atom) == ("cmp", "==", lenT, C(0)) and c.truth) or (strip_epochs(c.atom) == lenT and not c.truth) for c in p.conds):
                    continue
            if got != want:
                row = "estimate >= threshold" if want[0][0] == "set" else "estimate < threshold"
                rep.bad("C17.threshold-table", where, f"row {row}: ops {[(a, nshow(b) if b else None) for a, b, c in got]}",
                        f"for {row} the table operations are {[(a, nshow(b) if b else '', nshow(c) if c else '') for a, b, c in got] or 'none'}; "
                        f"expected {'table[key] = estimate' if want[0][0] == 'set' else 'table.pop(key)'}: the table no longer holds exactly the keys whose latest estimate meets the threshold",
                        ops[0][3].where() if ops else f.where())
                good = False
                break
        if good and all(rows.values()):
            rep.ok("C17.threshold-table", f"{where}: >= threshold -> table[key] = res ; < threshold -> pop(key)")
            rep.ok("C17.stored-equals-returned", where)
        elif good:
            rep.bad("C17.threshold-table", where, f"rows seen {rows}", "one of the two rows (meets / below) never occurs", f.where())


def heavy_hitters(prog, rep):
    ctx = "HeavyHitters"
    T = "_HeavyHitters__top_x"
    table = ("f", SELF, T, 0)
    size = ("f", SELF, "_HeavyHitters__top_x_size", 0)
    limit = ("f", SELF, "_HeavyHitters__num_hitters", 0)
    small = ("f", SELF, "_HeavyHitters__smallest", 0)
    key = ("p", "key")
    f = prog.method(ctx, "add_alt")
    ps = [p for p in paths(prog, ctx, f) if p.exit[0] == "return"]
    rep.analysed(f, ctx, len(ps))
    where = f"{ctx}.add_alt"
    good = True
    seen = set()
    minkey = None
    for p in ps:
        res, ev = sketch_result(p, "add_alt")
        if res is None:
            rep.bad("C17.hitters-table", where, "no sketch update", "add_alt does not call the count-min add_alt", f.where())
            return
        if strip_epochs(p.exit[1]) != res:
            rep.bad("C17.stored-equals-returned", where, f"returns {nshow(p.exit[1])}", "add_alt does not return the sketch's estimate", f.where(p.exit[2]))
            good = False
        conds = [strip_epochs(c) for c in all_conds(p)]
        # the number of tracked keys: the cached count or len(table) itself, whichever the code consults
        room = path_orderings(conds, size, limit) & path_orderings(conds, ("call", ("g", "len"), (table,), ()), limit)
        member = None
        for c in p.conds:
            a = strip_epochs(c.atom)
            if a[0] == "cmp" and a[1] in ("in", "notin") and a[2] == key and a[3] == table:
                member = (a[1] == "in") == c.truth
        ops = table_ops(p, T, prog, ctx)
        sets = [o for o in ops if o[0] == "set"]
        pops = [o for o in ops if o[0] == "pop"]
        other = [o for o in ops if o[0] not in ("set", "pop")]
        if other and other[0][0] == "stale":
            rep.bad("C17.hitters-table", where, "remembered table method is stale",
                    "the table is changed through a bound method remembered in a field, and the table is re-bound here without refreshing it", other[0][3].where())
            good = False
            continue
        if other:
            rep.bad("C17.hitters-table", where, f"{other[0][0]} on the table", f"add_alt performs {other[0][0]} on the tracking table", other[0][3].where())
            good = False
            continue
        for s in sets:
            if s[1] != key or s[2] != res:
                rep.bad("C17.stored-equals-returned", where, f"table[{nshow(s[1])}] = {nshow(s[2])}",
                        f"the table records {nshow(s[2])} under {nshow(s[1])}; expected the returned estimate under the added key", s[3].where())
                good = False
        grows = bool(sets) and not pops and member is not True
        if grows and not (room <= {LT}):
            rep.bad("C17.hitters-table", where, f"growth with size vs limit in {sorted(room)}",
                    f"a possibly new key is stored without eviction while tracked-count vs number_heavy_hitters may be {sorted(room)}: the table can exceed its limit", sets[0][3].where())
            good = False
        if pops:
            if len(pops) != 1 or len(sets) != 1 or ops.index(pops[0]) < ops.index(sets[0]):
                rep.bad("C17.hitters-table", where, "replace row", "the replace row must store the new key and then evict exactly one key", pops[0][3].where())
                good = False
            arg = pops[0][1]
            okmin = arg is not None and arg[0] == "call" and arg[1] == ("g", "min") and arg[2] == (table,) and \
                dict(arg[3]).get("key") is not None and strip_epochs(dict(arg[3])["key"])[:3] == ("f", table, "get")
            if not okmin and arg is not None and arg[0] == "sub" and arg[2] == C(0) and _is_nsmallest(arg[1], table):
                okmin = True  # heapq.nsmallest(k, table, key=table.get)[0]: the key with the smallest recorded estimate
            if not okmin:
                rep.bad("C17.hitters-table", where, f"evicts {nshow(arg) if arg else '?'}", "the evicted key is not the one with the smallest recorded estimate", pops[0][3].where())
                good = False
            seen.add("replace")
        if not ops:
            # nothing recorded: allowed only if there is no room, the key is untracked and its estimate does not exceed the smallest
            o = path_orderings(conds, res, small)
            if room <= {LT} or member is True or not (o <= {LT, EQ}):
                rep.bad("C17.hitters-table", where, f"untracked with estimate vs smallest in {sorted(o)}",
                        f"a key is left untracked on a path where room={sorted(room)}, tracked={member}, estimate vs smallest tracked may be {sorted(o)}: "
                        "an untracked key's latest estimate can exceed the smallest tracked one", f.where())
                good = False
            seen.add("skip")
        if sets and not pops:
            seen.add("room" if room <= {LT} else "update")
        # bookkeeping fields
        for e in p.events:
            if e.kind == "setfield" and e.base == SELF and e.name == "_HeavyHitters__top_x_size":
                v = strip_epochs(e.value)
                absent = member is False or any(c.truth and strip_epochs(c.atom)[:2] == ("cmp", "is") and strip_epochs(c.atom)[3] == C(None) and
                                                strip_epochs(c.atom)[2] in (("call", ("m", table, "get"), (key, C(None)), ()), ("call", ("m", table, "get"), (key,), ()))
                                                for c in p.conds)
                plus_one = canon(v) == canon(("bin", "+", size, C(1))) and len(sets) == 1 and not pops and absent
                # count + 1 next to the store of exactly one key known to be absent: len(table) again, by induction
                if v != ("call", ("g", "len"), (table,), ()) and not plus_one:
                    rep.bad("C17.hitters-bookkeeping", where, f"size = {nshow(v)}", "the tracked-key count is set to something other than len(table)", e.where())
                    good = False
            if e.kind == "setfield" and e.base == SELF and e.name == "_HeavyHitters__smallest":
                v = strip_epochs(e.value)
                okv = (v[0] == "sub" and v[1] == table and v[2][0] == "sub" and v[2][2] == C(1) and _is_nsmallest(v[2][1], table)
                       and any(o[0] == "pop" and o[1] is not None and o[1] == ("sub", v[2][1], C(0), 0) for o in ops)) or \
                    (v[0] == "sub" and v[1] == table and v[2][0] == "call" and v[2][1] == ("g", "min") and v[2][2] == (table,)) or \
                    v == ("call", ("g", "min"), (("call", ("m", table, "values"), (), ()),), ())
                if not okv:
                    rep.bad("C17.hitters-bookkeeping", where, f"smallest = {nshow(v)}", "the cached smallest value is not the minimum over the table", e.where())
                    good = False
        # a new key under room must refresh the size
        if "room" in seen and sets and not pops and room <= {LT}:
            isnew = any(strip_epochs(c.atom) == ("cmp", "is", ("call", ("m", table, "get"), (key, C(None)), ()), C(None)) and c.truth for c in p.conds)
            refreshed = any(e.kind == "setfield" and e.name == "_HeavyHitters__top_x_size" for e in p.events)
            uses_cached = any(n == size for c in conds for n in walk(c))  # (no cache to refresh when len(table) itself is consulted)
            if (isnew or member is False) and not refreshed and uses_cached:
                rep.bad("C17.hitters-bookkeeping", where, "size not refreshed", "a new key is recorded without refreshing the tracked-key count", f.where())
                good = False
    if good:
        if {"room", "update", "replace", "skip"} <= seen:
            rep.ok("C17.hitters-table", f"{where}: rows room/update/replace/skip as prescribed")
            rep.ok("C17.stored-equals-returned", where)
            rep.ok("C17.hitters-bookkeeping", where)
        else:
            rep.bad("C17.hitters-table", where, f"rows {sorted(seen)}", f"rows present: {sorted(seen)}; one of room/update/replace/skip is missing", f.where())


def floor_reset_rule(prog, rep):
    """the skip row trusts the cached floor: it must be back at 0 whenever the table is emptied"""
    from ..common import mro_methods
    ctx = "HeavyHitters"
    T, S = "_HeavyHitters__top_x", "_HeavyHitters__smallest"
    ok, n = True, 0
    for f in mro_methods(prog, ctx):
        if f.prop:
            continue
        for p in paths(prog, ctx, f, inline="deep"):
            if p.exit[0] != "return":
                continue
            emptied = [e for e in p.events if (e.kind == "setfield" and e.base == SELF and e.name == T and strip_epochs(e.value)[0] in ("newb", "dct") )
                       or (e.kind == "call" and e.target is None and e.name == "clear" and e.d.get("recv") is not None and strip_epochs(e.recv) == ("f", SELF, T, 0))]
            if not emptied:
                continue
            n += 1
            v = p.fields.get((SELF, S))
            if v is None or strip_epochs(v) != C(0):
                rep.bad("C17.hitters-bookkeeping", f"{ctx}.{f.src_name}", f"table emptied, floor = {nshow(v) if v else 'kept'}",
                        f"{f.src_name} empties the tracking table but leaves the cached smallest estimate at {nshow(v) if v else 'its old value'}: afterwards new keys whose "
                        "estimate does not exceed the stale floor are never tracked although the table has no smaller entry", emptied[0].where())
                ok = False
                break
        if not ok:
            break
    if ok and n:
        rep.ok("C17.hitters-bookkeeping", f"{ctx}: every path that empties the table resets the cached floor to 0 ({n} paths)")


def check(prog, rep, tier):
    rep.extra["explanation"] = EXPL
    rep.rule("C17.threshold-table", "threshold table: estimate >= threshold -> table[key] = estimate ; below -> key removed (add and remove)", floor=2)
    rep.rule("C17.stored-equals-returned", "the recorded and the returned value are the sketch's estimate", floor=3)
    rep.rule("C17.hitters-table", "heavy hitters: growth only with room, replace stores then evicts the minimum, untracked keys do not exceed the smallest", floor=1)
    rep.rule("C17.hitters-bookkeeping", "cached size is len(table); cached smallest is the table minimum", floor=1)
    rep.assume("inductive hypothesis for the skip row: cached smallest <= every tracked estimate (established by the replace row or the initial 0)")
    stream_threshold(prog, rep)
    heavy_hitters(prog, rep)
    floor_reset_rule(prog, rep)


from ..selftest import seq, Mutant, del_stmt, insert_stmt, replace_expr, replace_stmt, swap_cmp

_CM = "countminsketch/countminsketch.py"
MUTANTS = [
    Mutant("HeavyHitters.clear keeps the cached floor", _CM, del_stmt("HeavyHitters", "clear", "self.__smallest = 0"), rule="C17.hitters-bookkeeping"),
    Mutant("D5 re-introduced: add_alt never drops a key", _CM, replace_stmt("StreamThreshold", "add_alt", "if res >= self.__threshold", "if res >= self.__threshold:\n    self.__meets_threshold[key] = res"), rule="C17.threshold"),
    Mutant("StreamThreshold.add_alt: >= -> >", _CM, swap_cmp("StreamThreshold", "add_alt", _ast.GtE, _ast.Gt), rule="C17.threshold"),
    Mutant("StreamThreshold.remove_alt: < -> <=", _CM, swap_cmp("StreamThreshold", "remove_alt", _ast.Lt, _ast.LtE), rule="C17.threshold"),
    Mutant("StreamThreshold.remove_alt stores num_els", _CM, replace_stmt("StreamThreshold", "remove_alt", "self.__meets_threshold[key] = res", "self.__meets_threshold[key] = num_els"), rule="C17."),
    Mutant("StreamThreshold.add_alt returns the threshold-capped value", _CM, replace_stmt("StreamThreshold", "add_alt", "return res", "return min(res, self.__threshold)"), rule="C17.stored"),
    Mutant("table.pop remembered in a field, refreshed by clear (same behaviour)", _CM, seq(
        insert_stmt("StreamThreshold", "__init__", "self.__forget = self.__meets_threshold.pop", at_end=True),
        insert_stmt("StreamThreshold", "clear", "self.__forget = self.__meets_threshold.pop", at_end=True),
        replace_stmt("StreamThreshold", "add_alt", "self.__meets_threshold.pop(key, None)", "self.__forget(key, None)"),
        replace_stmt("StreamThreshold", "remove_alt", "self.__meets_threshold.pop(key, None)", "self.__forget(key, None)")), expect="silent"),
    Mutant("table.pop remembered in a field, clear re-binds the table without refreshing it", _CM, seq(
        insert_stmt("StreamThreshold", "__init__", "self.__forget = self.__meets_threshold.pop", at_end=True),
        replace_stmt("StreamThreshold", "add_alt", "self.__meets_threshold.pop(key, None)", "self.__forget(key, None)"),
        replace_stmt("StreamThreshold", "remove_alt", "self.__meets_threshold.pop(key, None)", "self.__forget(key, None)")), rule="C17.threshold"),
    Mutant("HeavyHitters room test < -> <=", _CM, swap_cmp("HeavyHitters", "add_alt", _ast.Lt, _ast.LtE), rule="C17.hitters-table"),
    Mutant("HeavyHitters table stores num_els", _CM, replace_stmt("HeavyHitters", "add_alt", "self.__top_x[key] = res", "self.__top_x[key] = num_els", nth=1), rule="C17.stored"),
    Mutant("HeavyHitters replace pops before storing", _CM,
           replace_stmt("HeavyHitters", "add_alt", "if res > self.__smallest", "if res > self.__smallest:\n    tmp_key = min(self.__top_x, key=self.__top_x.get)\n    self.__top_x.pop(tmp_key, None)\n    self.__top_x[key] = res"), rule="C17.hitters"),
    Mutant("HeavyHitters replace test res > smallest + 1", _CM, replace_expr("HeavyHitters", "add_alt", "res > self.__smallest", "res > self.__smallest + 1"), rule="C17.hitters-table"),
    Mutant("HeavyHitters evicts the max", _CM, replace_expr("HeavyHitters", "add_alt", "min(self.__top_x, key=self.__top_x.get)", "max(self.__top_x, key=self.__top_x.get)"), rule="C17.hitters"),
    Mutant("HeavyHitters: smallest refresh deleted (behaviour preserving)", _CM,
           del_stmt("HeavyHitters", "add_alt", "self.__smallest = self.__top_x[new_min]"), expect="silent"),
    Mutant("HeavyHitters: replace test > -> >= (behaviour preserving)", _CM, replace_expr("HeavyHitters", "add_alt", "res > self.__smallest", "res >= self.__smallest"), expect="silent"),
]
