"""C05 - export followed by load reproduces the structure: codec agreement between writers and readers (E6 + E4)."""
from __future__ import annotations

import ast as _ast
import struct as _struct

from ..common import all_conds, alloc_typecodes, empty_subfilter_lemma, cell_range_fn, conds_at, mro_methods, nshow, outer_field, paths, typed_fields
from ..effects import Effects
from ..expr import C, SELF, canon, norm, show, strip_epochs, walk
from ..intervals import Intervals, fmt_iv
from ..model import AnalysisError

EXPL = ("Codec agreement, decided from the writers' emission lists and the readers' consumption (full inlining, every normal "
        "path): (a) writer and reader use the same struct format (big-endian twin for hex); (b) for every field the writer "
        "packs at footer slot i, every load entry point leaves that field assigned from slot i of the unpacked footer - a "
        "discarded or swapped slot is a violation; (c) the payload is assigned from the input data (not merely from metadata), "
        "with the allocation's typecode and itemsize x length bytes; (d) the expanding format's per-sub-filter frame is consumed "
        "with the cursor advancing by exactly what was read; (e) __bytes__ and the path form of export delegate to the one "
        "file-object body; (f) the empty-slot marker the cuckoo writers pad with and the readers drop lies outside the interval "
        "of every storable fingerprint; (g) inherited alternate constructors instantiate cls.")
FILES = ["blooms/bloom.py", "blooms/countingbloom.py", "blooms/expandingbloom.py", "countminsketch/countminsketch.py",
         "cuckoo/cuckoo.py", "cuckoo/countingcuckoo.py"]
EXTFILE = ("fileobj", "<caller>", "open", ())


def bare(fmt: str) -> str:
    return fmt.lstrip("@=<>!")


def emissions(prog, ctx, fname="export"):
    """ordered emission list of the file-object body of export in context ctx"""
    f = prog.method(ctx, fname)
    from ..walk import Walker
    w = Walker(prog, ctx, inline="deep", param_types={"second": "<ctx>"})
    ps = [p for p in w.run(f, args={"file": EXTFILE}) if p.exit[0] == "return"]
    best = []
    for p in ps:
        em = []
        for e in p.events:
            if e.kind != "call" or e.target is not None or e.recv is None:
                continue
            if e.name == "tofile" and e.args and e.args[0] == EXTFILE:
                em.append(("cells", strip_epochs(e.recv), bool(e.loops), e))
            elif e.name == "write" and e.recv == EXTFILE and e.args and e.args[0][0] == "pack":
                em.append(("pack", e.args[0][1], tuple(strip_epochs(a) for a in e.args[0][2]), bool(e.loops), e))
            elif e.name == "write" and e.recv == EXTFILE:
                em.append(("raw", strip_epochs(e.args[0]) if e.args else None, bool(e.loops), e))
        if len(em) > len(best):
            best = em
    return f, best


def footer_of(em):
    packs = [x for x in em if x[0] == "pack" and not x[3]]
    return packs[-1] if packs else None


def slot_fields(pack):
    """[(slot index, field name)] for pack arguments that are plain field reads of the receiver"""
    out = []
    for i, a in enumerate(pack[2]):
        if a[0] == "f" and a[1] == SELF:
            out.append((i, a[2]))
    return out


def slots_in(v, fmt):
    return {n[2] for n in walk(v) if n[0] == "unp" and bare(n[1]) == bare(fmt) and len(bare(n[1])) > 1}


def any_footer_unp(v):
    return {(bare(n[1]), n[2]) for n in walk(v) if n[0] == "unp" and len(bare(n[1])) > 1}


def direct_input(e, labels) -> bool:
    """the input reaches e as data, not merely through values unpacked from the footer or through lengths"""
    if not isinstance(e, tuple) or not e:
        return False
    if (e[0] == "p" and e[1] in labels) or (e[0] == "fileobj" and e[2] in ("MMap", "mmap")):
        return True
    if e[0] in ("unp", "unpall"):
        return False
    if e[0] in ("slice", "sub", "chunk"):
        return direct_input(e[1], labels)
    if e[0] == "iterunp":
        return direct_input(e[2], labels)
    if e[0] == "call":
        if e[1][0] == "g" and e[1][1] in ("len",):
            return False
        if e[1][0] == "m":
            return direct_input(e[1][1], labels) or any(direct_input(a, labels) for a in e[2])
        return any(direct_input(a, labels) for a in e[2])
    if e[0] in ("lst", "tup"):
        return any(direct_input(a, labels) for a in e[1])
    if e[0] == "comp":
        return any(direct_input(g[2], labels) for g in e[3])
    if e[0] == "it":
        return direct_input(e[2], labels)
    if e[0] == "newb":
        if any(direct_input(a, labels) for a in e[3]):
            return True
        # a local container filled from the input on this path
        p_ = _CUR.get("p")
        if p_ is not None and e not in _CUR["busy"]:
            _CUR["busy"].add(e)
            try:
                for ev in p_.events:
                    if ev.kind == "call" and ev.target is None and ev.recv == e and ev.name in ("append", "extend", "fromlist", "insert") and ev.args \
                            and (direct_input(ev.args[-1], labels) or ev.args[-1][0] == "new" and any(
                                direct_input(a, labels) or (a[0] == "unp" and direct_input(a[3], labels)) for a in _new_args(p_, ev.args[-1]))):
                        return True
            finally:
                _CUR["busy"].discard(e)
        return False
    if e[0] == "phi":
        return direct_input(e[2], labels) and direct_input(e[3], labels)
    return False


LABELS = {"file", "b", "hex_string", "d", "filepath"}
_CUR = {"p": None, "busy": set()}


def _new_args(p, obj):
    for ev in p.events:
        if ev.kind == "new" and ev.obj == obj:
            return list(ev.args)
    return []


class HashIntervals(Intervals):
    """hash-strategy contract: a call through a hash slot returns an unsigned 64-bit value"""

    def _raw(self, e):
        if e[0] == "call" and e[1][0] == "v" and e[1][1][0] == "f" and "hash" in e[1][1][2]:
            return (0, 2**64 - 1)
        return super()._raw(e)


def reader_paths(prog, ctx, fname):
    f = prog.method(ctx, fname)
    ps = [p for p in paths(prog, ctx, f, inline="deep") if p.exit[0] == "return"]
    return f, ps


def _skipped_empty_frame(p, cnt, cel, cfmt):
    """the cursor of a frame that is left as built (counter constant 0, cells the fresh allocation) because its counter, read directly from the
    input at the cursor, compared equal to 0 on this path; None when the path is not of that shape"""
    if len(cnt) != 1 or len(cel) != 1 or cnt[0].value != C(0):
        return None
    v = cel[0].value
    if not (v[0] == "nary" and v[1] == "*" and any(x[0] == "newb" for x in v[2])):
        return None
    for c in p.conds:
        a = strip_epochs(c.atom)
        if c.truth and a[0] == "cmp" and a[1] == "==" and C(0) in (a[2], a[3]) and getattr(c, "loops", ()) == cel[0].loops:
            x = a[3] if a[2] == C(0) else a[2]
            while x[0] == "call" and x[1] == ("g", "int") and len(x[2]) == 1:
                x = x[2][0]
            if x[0] == "unp" and bare(x[1]) == bare(cfmt) and x[2] == 0 and direct_input(x[3], LABELS):
                sl = [n for n in walk(x[3]) if n[0] == "slice"]
                if sl and canon(sl[0][3]) == canon(("bin", "+", sl[0][2], C(_struct.calcsize(cfmt)))):
                    return sl[0][2]
    return None


def loaded_obj(f, p):
    return p.exit[1] if f.kind == "classmethod" else SELF


def check_footer(prog, rep, family, wctx, wfmt, wslots, rctx, rname, loading_only=False):
    """(a)+(b): every persisted field is restored from its slot on every path of the reader"""
    f, ps = reader_paths(prog, rctx, rname)
    if loading_only:
        # a constructor: only its loading paths are readers (those on which some field of the object ends up read from the input)
        ps = [p for p in ps if any(n[0] in ("unp", "unpall", "iterunp") for (b, _), v in p.fields.items() if b == SELF for n in walk(v))]
        if not ps:
            return
    rep.analysed(f, rctx, len(ps))
    where = f"{rctx}.{rname}"
    if not ps:
        rep.bad("C05.slot-to-field", where, "loader cannot succeed", f"no path through {where} returns normally: what was exported can never be loaded back", f.where())
        return
    for p in ps:
        obj = loaded_obj(f, p)
        if obj[0] not in ("self", "new"):
            rep.bad("C05.slot-to-field", where, f"returns {nshow(obj)}", "the loader does not return a constructed object", f.where())
            return
        for (i, fld) in wslots:
            v = p.fields.get((obj, fld))
            if v is None:
                rep.bad("C05.slot-to-field", where, f"{fld} not restored", f"{where} leaves {fld} (footer slot {i} of '{wfmt}') unassigned", f.where())
                return
            got = slots_in(v, wfmt)
            others = {x for x in any_footer_unp(v) if x[0] != bare(wfmt)}
            if others and not got:
                rep.bad("C05.same-format", where, f"{fld} from {sorted(others)}",
                        f"{fld} is restored from a footer unpacked as {sorted(x[0] for x in others)} but the writer packs '{wfmt}'", f.where())
                return
            if got != {i}:
                rep.bad("C05.slot-to-field", where, f"{fld} <- slots {sorted(got)}",
                        f"the writer stores {fld} at slot {i} of '{wfmt}', but {where} leaves {fld} = {nshow(v)} "
                        f"(from slot(s) {sorted(got) or 'none'}): a reload does not reproduce it", f.where())
                return
    rep.ok("C05.slot-to-field", f"{family}: {where} restores {[fld for _, fld in wslots]} from slots {[i for i, _ in wslots]} of '{wfmt}'")
    rep.ok("C05.same-format", f"{family}: {where} unpacks '{wfmt}'")


def check_payload(prog, rep, family, rctx, rname, pfield):
    f, ps = reader_paths(prog, rctx, rname)
    where = f"{rctx}.{rname}"
    if not ps:
        return
    tcs = alloc_typecodes(prog, rctx, pfield) or typed_fields(prog, rctx).get(pfield, set())
    for p in ps:
        obj = loaded_obj(f, p)
        v = p.fields.get((obj, pfield))
        if v is not None and v[0] == "newb" and v[1] == "array" and len(v[3]) == 1:
            # array(tc) filled by .frombytes(data): the same cells as array(tc, bytes(data))
            fb = [e for e in p.events if e.kind == "call" and e.name == "frombytes" and e.recv is not None and strip_epochs(e.recv)[:3] == strip_epochs(v)[:3] and e.args]
            if len(fb) == 1:
                v = ("newb", "array", v[2], (v[3][0], ("call", ("g", "bytes"), (fb[0].args[0],), ())))
        if v is None or not (v[0] == "newb" and v[1] == "array" and len(v[3]) >= 2) and not (v[0] == "fileobj" and v[2] == "mmap"):
            rep.bad("C05.payload", where, f"{pfield} = {nshow(v) if v else 'unassigned'}", f"{where} does not take {pfield} from the input", f.where())
            return
        if v[0] == "fileobj":
            continue
        tc, data = v[3][0], v[3][1]
        d0 = strip_epochs(data)
        if not (d0[0] == "call" and d0[1] in (("g", "bytes"), ("g", "bytearray"))) and direct_input(data, LABELS) and rname in ("frombytes",):
            # array(tc, x) copies x as raw machine values only when x is bytes / bytearray; any other buffer (a memoryview, which the
            # ByteString annotation admits) is iterated, so every BYTE becomes one cell
            rep.bad("C05.payload", where, f"{pfield} = array({nshow(tc)}, {nshow(data)})",
                    f"the cells are built as array({nshow(tc)}, {nshow(data)}) without bytes(...): for a memoryview input each byte of the payload becomes a cell "
                    "(four times too many cells holding byte values), silently", f.where())
            return
        if not direct_input(data, LABELS):
            rep.bad("C05.payload", where, f"{pfield} data {nshow(data)}", f"the cells are built from {nshow(data)}, not from the input data", f.where())
            return
        if tc[0] == "f" and tc[1] == obj:
            # typecode held in a field: the values the constructor gives that field in this context
            vals = set()
            init = prog.cls(rctx).find_method("__init__")
            for ip in paths(prog, rctx, init, inline="deep"):
                for (b_, n_), fv in ip.fields.items():
                    if b_ == SELF and n_ == tc[2] and fv[0] == "c":
                        vals.add(fv[1])
            if vals and vals == tcs:
                tc = C(sorted(vals)[0])
        if tc[0] != "c" or tc[1] not in tcs:
            rep.bad("C05.payload", where, f"typecode {nshow(tc)}", f"cells are read as array({nshow(tc)}) but allocated/written as {sorted(tcs)}", f.where())
            return
        # byte length = itemsize * allocation length
        sl = [n for n in walk(data) if n[0] == "slice"]
        if sl and family in ("bloom", "countmin") and rname != "_load_hex":
            U = sl[0][3]
            size = _struct.calcsize(tc[1])
            if family == "bloom":
                ln = p.fields.get((obj, "_bloom_length"))
            else:
                wv, dv = p.fields.get((obj, "_CountMinSketch__width")), p.fields.get((obj, "_CountMinSketch__depth"))
                ln = ("bin", "*", wv, dv) if wv is not None and dv is not None else None
            if ln is None or canon(U) != canon(("bin", "*", C(size), ln)):
                rep.bad("C05.payload", where, f"length {nshow(U)}", f"{nshow(U)} bytes are read as cells; expected itemsize {size} x allocation length", f.where())
                return
    rep.ok("C05.payload", f"{family}: {where} assigns {pfield} from the input with typecode {sorted(tcs)}")


def loaded_capacity_problem(p, obj, wctx, wfmt):
    """None when the capacity a cuckoo loader leaves is (len(input) - footer bytes) // bytes per slot // bucket_size, else (key, message)"""
    from ..expr import mapx
    cap = p.fields.get((obj, "_cuckoo_capacity"))
    if cap is None or not any(n[0] == "call" and n[1] == ("g", "len") and direct_input(n[2][0], LABELS) for n in walk(cap)):
        return (f"capacity = {nshow(cap) if cap else 'unassigned'}", "the loaded capacity is not derived from the input length")
    F_ = C(_struct.calcsize(wfmt))
    S_ = C(4 if wctx == "CuckooFilter" else 8)
    B_ = p.fields.get((obj, "_bucket_size"))
    if B_ is not None:
        capx = mapx(strip_epochs(cap), lambda n_: ("p", "<bucket_size>") if n_ == strip_epochs(B_) else None)
        lens = [n for n in walk(capx) if n[0] == "call" and n[1] == ("g", "len")]
        L_ = lens[0] if lens else C(None)
        cap, B_ = capx, ("p", "<bucket_size>")
        body = ("bin", "-", L_, F_)
        alts = [("bin", "//", ("bin", "//", body, S_), B_), ("bin", "//", ("bin", "//", body, B_), S_), ("bin", "//", body, ("bin", "*", S_, B_))]
        if canon(cap) not in [canon(a) for a in alts]:
            return (f"capacity = {nshow(cap)}", f"the loaded capacity is {nshow(cap)}; the writer emits capacity x bucket_size slots of {S_[1]} bytes followed by a "
                    f"{F_[1]}-byte footer, so capacity must be (len - {F_[1]}) // {S_[1]} // bucket_size (the footer must not be counted as slots)")
    return None


def resupplied_rule(prog, rep, rid, only):
    """parameters the format does not store are honoured when re-supplied to an alternate constructor / the constructor"""
    HASHF = {"BloomFilter": "_hash_func", "CountingBloomFilter": "_hash_func", "BloomFilterOnDisk": "_hash_func", "ExpandingBloomFilter": "_ExpandingBloomFilter__hash_func",
             "RotatingBloomFilter": "_ExpandingBloomFilter__hash_func", "CountMinSketch": "_hash_function", "CountMeanSketch": "_hash_function",
             "CountMeanMinSketch": "_hash_function", "HeavyHitters": "_hash_function", "StreamThreshold": "_hash_function",
             "CuckooFilter": "_CuckooFilter__hash_func", "CountingCuckooFilter": "_CuckooFilter__hash_func"}
    OTHER = {("RotatingBloomFilter", "max_queue_size"): "_queue_size", ("HeavyHitters", "num_hitters"): "_HeavyHitters__num_hitters",
             ("StreamThreshold", "threshold"): "_StreamThreshold__threshold"}
    for cname, hfld in HASHF.items():
        if only is not None and cname not in only:
            continue
        K = prog.cls(cname)
        # the constructor and every alternate constructor that takes the strategy (frombytes, and whatever else the class offers:
        # load_error_rate, init_error_rate, ...)
        alt = sorted({m.src_name for k_ in K.mro() for m in k_.methods.values() if m.kind == "classmethod" and "hash_function" in m.params})
        for mn in ["frombytes", "__init__"] + [a for a in alt if a != "frombytes"]:
            f = K.find_method(mn)
            if f is None or "hash_function" not in f.params:
                continue
            ps = [p for p in paths(prog, cname, f, inline="deep") if p.exit[0] == "return"]
            if not ps:
                continue
            bad = None
            for p in ps:
                obj = loaded_obj(f, p)
                hp = ("p", "hash_function")
                given = None
                for c in p.conds:
                    a = strip_epochs(c.atom)
                    if a in (("cmp", "isnot", hp, C(None)), ("cmp", "is", hp, C(None))):
                        given = (a[1] == "isnot") == c.truth
                v = p.fields.get((obj, hfld))
                if v is None:
                    continue
                if given is True and strip_epochs(v) != hp:
                    bad = (f"{hfld} = {nshow(v)}", f"a re-supplied hash_function is not honoured: the loaded structure hashes with {nshow(v)}")
                if given is None and strip_epochs(v) != hp and not any(n == hp for n in walk(v)):
                    bad = (f"{hfld} = {nshow(v)}", f"the hash_function argument does not reach the structure (it hashes with {nshow(v)})")
                # sub-structures built on the way (the sub-filters of an expanding filter) must have been given the strategy the structure
                # ends up with: a strategy installed only AFTER they were built leaves them hashing with the earlier value
                for e in p.events:
                    if e.kind == "new" and e.d.get("cls") in prog.classes and e.d.get("cls") != cname and "hash_function" in dict(e.d.get("kwargs") or {}):
                        hv = strip_epochs(dict(e.kwargs)["hash_function"])
                        if hv != strip_epochs(v) and not (given is False and hv == C(None)):
                            bad = (f"sub-structure built with hash_function = {nshow(hv)}",
                                   f"a {e.cls} is built inside with hash_function = {nshow(hv)} while the structure ends up hashing with {nshow(v)}: what was "
                                   "restored before the caller's strategy was installed keeps the earlier one")
                for (cn2, par), fld in OTHER.items():
                    if cn2 == cname and par in f.params:
                        ov = p.fields.get((obj, fld))
                        if ov is None or strip_epochs(ov) != ("p", par):
                            bad = (f"{fld} = {nshow(ov) if ov else 'unset'}", f"the re-supplied {par} is not honoured")
            if bad:
                rep.bad(rid, f"{cname}.{mn}", bad[0], f"{cname}.{mn}: {bad[1]}: the reloaded structure answers queries differently", f.where())
            else:
                rep.ok(rid, f"{cname}.{mn}: hash_function honoured")


def _closed(v) -> bool:
    """a value without any symbol: constants and tuples / arithmetic of constants"""
    return all(n[0] in ("c", "tup", "lst", "bin", "nary", "un") or not isinstance(n[0], str) for n in walk(v))


def _negative_returns(prog, cname, g, depth=0):
    """the negative constants method g of class cname can return (a sentinel such as -1)"""
    out = set()
    if depth > 2:
        return out
    for p in paths(prog, cname, g):
        if p.exit[0] != "return":
            continue
        v = strip_epochs(p.exit[1])
        while v[0] == "call" and v[1] in (("g", "int"),) and len(v[2]) == 1:
            v = v[2][0]
        if v[0] == "c" and isinstance(v[1], (int, float)) and not isinstance(v[1], bool) and v[1] < 0:
            out.add(v[1])
        if v[0] == "un" and v[1] == "-" and v[2][0] == "c" and isinstance(v[2][1], (int, float)) and v[2][1] > 0:
            out.add(-v[2][1])
        if v[0] == "ret":
            h = _method_by_qual(prog, v[1].split("@")[0])
            if h is not None and h is not g:
                out |= _negative_returns(prog, cname, h, depth + 1)
    return out


def _method_by_qual(prog, qual):
    for c in prog.classes.values():
        for m in list(c.methods.values()) + list(c.getters.values()):
            if m.qualname == qual:
                return m
    return None


def unsigned_slots_rule(prog, rep, rid, samples):
    """for the Bloom family (footer 'QQf': est_elements, elements_added as unsigned 64-bit): wherever a method of the class stores into
    one of these fields the answer of another method of the class, that method has no path returning a negative constant.  Only this
    definite flow is judged (a sentinel such as -1 reaching the field); sums and differences are C14 / C16 territory"""
    UNSIGNED = set("BHILQN")
    for cname, smp in sorted(samples.items()):
        K = prog.classes.get(cname)
        if K is None or "format" not in smp:
            continue
        chars = [c for c in expand_format(smp["format"])]
        flds = {f for (i, f) in smp["slots"] if i < len(chars) and chars[i] in UNSIGNED}
        if not flds:
            continue
        hits = []
        for g in list(K.methods.values()):
            hit = None
            for p in paths(prog, cname, g):
                for e in p.events:
                    if e.kind != "setfield" or e.name not in flds or not (e.base == SELF or e.base[0] == "new"):
                        continue
                    v = strip_epochs(e.value)
                    if v[0] == "ret":
                        h = _method_by_qual(prog, v[1].split("@")[0])
                        neg = _negative_returns(prog, cname, h) if h is not None else set()
                        if neg:
                            hit = hit or (e, h, sorted(neg))
            if hit:
                hits.append((g,) + hit)
            elif any(e.kind == "setfield" and e.name in flds for p in paths(prog, cname, g) for e in p.events):
                rep.ok(rid, f"{cname}.{g.src_name}: no negative sentinel reaches {sorted(flds)}")
        # one report per (class, field, answering method), whichever functions do the storing today (a shared helper, the operations themselves)
        for key in sorted({(e.name, h.src_name, neg[0]) for (_, e, h, neg) in hits}):
            gs = sorted({g.src_name for (g, e, h, neg) in hits if (e.name, h.src_name, neg[0]) == key})
            e0 = [e for (g, e, h, neg) in hits if (e.name, h.src_name, neg[0]) == key][0]
            rep.bad(rid, cname, f"{key[0]} may be set to the answer {key[2]} of {key[1]}()",
                    f"{', '.join(gs)} store(s) the answer of {key[1]}() into {key[0]}, which is packed as an unsigned footer slot, and {key[1]}() can answer {key[2]} "
                    f"(its 'cannot tell' value): the result then cannot be exported - pack raises struct.error (two Bloom filters with every bit set: the union / "
                    f"intersection has elements_added == -1 and bytes() of it raises)", e0.where())


def cuckoo_error_rate_after_load(prog, rep, wctx):
    """the error rate a reloaded cuckoo filter reports, when the caller re-supplies none, is the one its own geometry gives: the value
    left in _error_rate is _calc_error_rate()'s formula over the fingerprint size and bucket size the loaded object ENDS UP with (the
    bucket size comes from the file; a rate computed before the load, for the constructor's default bucket size, is stale)"""
    from ..expr import mapx
    rid = "C05.derived-geometry"
    K = prog.cls(wctx)
    ce = K.find_method("_calc_error_rate")
    if ce is None:
        raise AnalysisError(f"anchor vanished: {wctx}._calc_error_rate")
    forms = {canon(strip_epochs(p.exit[1])) for p in paths(prog, wctx, ce, inline="deep") if p.exit[0] == "return"}
    if len(forms) != 1:
        return
    formula = next(iter(forms))
    for rn in ("frombytes", "__init__"):
        f, ps = reader_paths(prog, wctx, rn)
        bad = None
        n = 0
        for p in ps:
            obj = loaded_obj(f, p)
            if not any(nn[0] in ("unp", "unpall", "iterunp") for (b, _), v in p.fields.items() if b == obj for nn in walk(v)):
                continue  # not a loading path
            er = p.fields.get((obj, "_error_rate"))
            if er is None:
                continue
            er = strip_epochs(er)
            if any(nn == ("p", "error_rate") for nn in walk(er)):
                continue  # re-supplied by the caller (judged by C05.resupplied-error-rate / C07)
            n += 1
            fin = {k[1]: strip_epochs(v) for k, v in p.fields.items() if k[0] == obj}
            want = mapx(formula, lambda nn: fin.get(nn[2]) if (nn[0] == "f" and nn[1] == SELF and nn[2] in fin) else None)
            if canon(norm(er)) != canon(norm(want)):
                bad = bad or (er, want)
        if bad:
            rep.bad(rid, f"{wctx}.{rn}", "_error_rate not the rate of the loaded geometry",
                    f"{rn} leaves error_rate = {nshow(bad[0])}, computed before the table was loaded, while the loaded bucket size / fingerprint size give "
                    f"{nshow(bad[1])}: a filter with a bucket size other than the constructor's default reports another error rate after frombytes() than the original "
                    "and than the same payload loaded by path (bucket_size 2: 1.86e-9 against 9.31e-10)", f.where())
        elif n:
            rep.ok(rid, f"{wctx}.{rn}: the reported error rate is that of the loaded geometry")


def derived_on_load_rule(prog, rep, rid):
    """every class whose constructor can load a file: a field that ends up computed from the arguments on the paths that build from
    parameters (a remembered derived quantity: positions, sizes, rates) must not end up as a bare constant on a path that loads - the
    loader restored the inputs of that quantity and left the quantity itself at the placeholder the constructor started with"""
    for cname in sorted(prog.classes):
        K = prog.classes[cname]
        init = K.find_method("__init__")
        if init is None or "filepath" not in init.params:
            continue
        ps = [p for p in paths(prog, cname, init, inline="deep") if p.exit[0] == "return"]
        # (alternate constructors are not judged here: they call the constructor with its defaults, and a default is a constant by design)
        param, load = {}, {}
        for p, obj in [(p, SELF) for p in ps]:
            isload = any(n[0] in ("unp", "unpall", "iterunp") for (b, _), v in p.fields.items() if b == obj for n in walk(v))
            for (b, n), v in p.fields.items():
                if b == obj:
                    (load if isload else param).setdefault(n, []).append(strip_epochs(v))
        if not load:
            continue
        bad = None
        for n in sorted(param):
            if all(_closed(x) for x in param[n]):
                continue
            # a constant that a parameter path can also end with is a value of the field, not a placeholder
            pconst = {canon(x) for x in param[n] if _closed(x)}
            left = [x for x in load.get(n, []) if _closed(x) and canon(x) not in pconst]
            if left:
                bad = (n, left[0])
                break
        if bad:
            rep.bad(rid, f"{cname}.__init__", f"{bad[0]} left at {nshow(bad[1])}",
                    f"{bad[0]} is computed from the arguments when the structure is built from parameters but a loading path leaves it at the constant {nshow(bad[1])}: "
                    "the loader restored what it is derived from and not the field itself, so the reloaded structure answers with the placeholder", init.where())
        else:
            rep.ok(rid, f"{cname}: every field computed by the parameter branch is computed or restored by the loaders")


def expand_format(fmt: str) -> str:
    """struct format with byte-order prefix dropped and repeat counts written out ('<2I' -> 'II')"""
    out, n = "", ""
    for ch in fmt.lstrip("@=<>!"):
        if ch.isdigit():
            n += ch
        elif ch.isspace():
            continue
        else:
            out += ch * (int(n) if n else 1)
            n = ""
    return out


def check(prog, rep, tier):
    rep.extra["explanation"] = EXPL
    rep.rule("C05.same-format", "writer and reader use the same struct format", floor=15)
    rep.rule("C05.slot-to-field", "every field packed at footer slot i is restored from slot i by every load entry point", floor=15)
    rep.rule("C05.payload", "the payload is assigned from the input data with the allocation's typecode and length", floor=10)
    rep.rule("C05.expanding-frame", "expanding format: per-sub-filter counter and cells are consumed at the cursor, which advances by what was read", floor=2)
    rep.rule("C05.one-body", "__bytes__ and the path form of export delegate to the file-object body", floor=8)
    rep.rule("C05.sentinel-disjoint", "the empty-slot marker (0) is outside the interval of every storable fingerprint", floor=2)
    rep.rule("C05.constructs-cls", "an inherited alternate constructor instantiates the class it is called on", floor=8)
    rep.rule("C05.cuckoo-geometry", "cuckoo loaders derive capacity from the input length and restore every stored fingerprint", floor=4)
    rep.trust("struct.calcsize / native alignment on x86-64; array(typecode, bytes) reinterprets the bytes written by tofile()")
    samples = {}
    # ---------------------------------------------------------------- Bloom family
    for wctx in ("BloomFilter", "CountingBloomFilter"):
        wf, em = emissions(prog, wctx)
        rep.analysed(wf, wctx, 1)
        foot = footer_of(em)
        cells = [x for x in em if x[0] == "cells"]
        if foot is None or len(cells) != 1 or em.index(cells[0]) > em.index(foot) or cells[0][1] != ("f", SELF, "_bloom", 0):
            rep.bad("C05.same-format", f"{wctx}.export", f"emits {[x[0] for x in em]}", "export does not write the cell array followed by one footer", wf.where())
            continue
        wfmt, wslots = foot[1], slot_fields(foot)
        if len(wslots) != len(foot[2]):
            rep.bad("C05.slot-to-field", f"{wctx}.export", f"packs {[nshow(a) for a in foot[2]]}", "a footer slot is not a stored field of the filter", foot[4].where())
            continue
        samples[wctx] = {"format": wfmt, "slots": wslots}
        readers = [(wctx, "_load"), (wctx, "frombytes")]
        if wctx == "BloomFilter":
            readers.append(("BloomFilterOnDisk", "_load"))
        for (rc, rn) in readers:
            check_footer(prog, rep, "bloom", wctx, wfmt, wslots, rc, rn)
            check_payload(prog, rep, "bloom", rc, rn, "_bloom")
        # hex channel
        hx = prog.method(wctx, "export_hex")
        hp = [p for p in paths(prog, wctx, hx, inline="deep") if p.exit[0] == "return"]
        hpk = [n for p in hp for n in walk(p.exit[1]) if n[0] == "pack"]
        if not hpk:
            rep.bad("C05.same-format", f"{wctx}.export_hex", "no footer", "export_hex emits no packed footer", hx.where())
        else:
            hfmt = hpk[0][1]
            hslots = [(i, a[2]) for i, a in enumerate(strip_epochs(hpk[0])[2]) if a[0] == "f" and a[1] == SELF]
            if bare(hfmt) != bare(wfmt) or hslots != wslots:
                rep.bad("C05.same-format", f"{wctx}.export_hex", f"hex footer '{hfmt}' {hslots}",
                        f"the hex channel packs '{hfmt}' {hslots} but the binary channel packs '{wfmt}' {wslots}: channels carry different payloads", hx.where())
            else:
                f2, ps2 = reader_paths(prog, wctx, "_load_hex")
                rfm = {n[1] for p in ps2 for v in p.fields.values() for n in walk(v) if n[0] == "unp" and len(bare(n[1])) > 1}
                if rfm != {hfmt}:
                    rep.bad("C05.same-format", f"{wctx}._load_hex", f"unpacks {sorted(rfm)}", f"_load_hex unpacks {sorted(rfm)} but export_hex packs '{hfmt}'", f2.where())
                else:
                    check_footer(prog, rep, "bloom-hex", wctx, hfmt, hslots, wctx, "_load_hex")
                    check_payload(prog, rep, "bloom", wctx, "_load_hex", "_bloom")
    # ---------------------------------------------------------------- count-min family
    wf, em = emissions(prog, "CountMinSketch")
    foot = footer_of(em)
    cells = [x for x in em if x[0] == "cells"]
    if foot is None or len(cells) != 1 or cells[0][1] != ("f", SELF, "_bins", 0):
        rep.bad("C05.same-format", "CountMinSketch.export", f"emits {[x[0] for x in em]}", "export does not write the bins followed by one footer", wf.where())
    else:
        wfmt, wslots = foot[1], slot_fields(foot)
        samples["CountMinSketch"] = {"format": wfmt, "slots": wslots}
        rd = [("CountMinSketch", "frombytes"), ("CountMinSketch", "__load"), ("HeavyHitters", "frombytes"), ("StreamThreshold", "frombytes")]
        if tier == "thorough":
            rd += [("CountMeanSketch", "frombytes"), ("CountMeanMinSketch", "frombytes"), ("HeavyHitters", "__load")]
        for (rc, rn) in rd:
            check_footer(prog, rep, "countmin", "CountMinSketch", wfmt, wslots, rc, rn)
            check_payload(prog, rep, "countmin", rc, rn, "_bins")
    for rc_ in ("CountMinSketch", "HeavyHitters", "StreamThreshold", "CountMeanSketch", "CountMeanMinSketch"):
        check_footer(prog, rep, "countmin", "CountMinSketch", wfmt, wslots, rc_, "__init__", loading_only=True)
    # derived geometry reported after a load agrees with what the constructor derives from the same width / depth
    rep.rule("C05.derived-geometry", "confidence and error rate of a loaded sketch are derived from its width / depth as the constructor does", floor=1)
    from ..expr import mapx
    init = prog.method("CountMinSketch", "__init__")
    cons = None
    for p in paths(prog, "CountMinSketch", init):
        if p.exit[0] != "return":
            continue
        wv, dv = p.fields.get((SELF, "_CountMinSketch__width")), p.fields.get((SELF, "_CountMinSketch__depth"))
        if wv is not None and dv is not None and any(n == ("p", "width") for n in walk(wv)) and any(n == ("p", "depth") for n in walk(dv)):
            sub = lambda e: mapx(strip_epochs(e), lambda n: ("W",) if n == strip_epochs(wv) else (("D",) if n == strip_epochs(dv) else None))  # noqa: E731
            cons = (canon(sub(p.fields.get((SELF, "_CountMinSketch__confidence"), C(None)))), canon(sub(p.fields.get((SELF, "_CountMinSketch__error_rate"), C(None)))))
            break
    okg = True
    if cons is None:
        rep.bad("C05.derived-geometry", "CountMinSketch.__init__", "no construction from (width, depth)", "no constructor path stores the given width and depth: a loaded sketch cannot agree with a constructed one", init.where())
        okg = False
        cons = (None, None)
    for (rc, rn) in (("CountMinSketch", "frombytes"), ("CountMinSketch", "__load")) if okg else ():
        f, ps = reader_paths(prog, rc, rn)
        for p in ps:
            obj = loaded_obj(f, p)
            wv, dv = p.fields.get((obj, "_CountMinSketch__width")), p.fields.get((obj, "_CountMinSketch__depth"))
            if wv is None or dv is None:
                continue
            sub = lambda e: mapx(strip_epochs(e), lambda n: ("W",) if n == strip_epochs(wv) else (("D",) if n == strip_epochs(dv) else None))  # noqa: E731
            got = (canon(sub(p.fields.get((obj, "_CountMinSketch__confidence"), C(None)))), canon(sub(p.fields.get((obj, "_CountMinSketch__error_rate"), C(None)))))
            if got != cons:
                which = "confidence" if got[0] != cons[0] else "error_rate"
                rep.bad("C05.derived-geometry", f"{rc}.{rn}", f"{which} = {nshow(got[0] if which == 'confidence' else got[1])}",
                        f"a loaded sketch reports {which} = {nshow(got[0] if which == 'confidence' else got[1])} (W, D = its width, depth) but a sketch constructed with the same width and depth "
                        f"reports {nshow(cons[0] if which == 'confidence' else cons[1])}: the reloaded structure does not report the same geometry", f.where())
                okg = False
                break
        if not okg:
            break
    if okg:
        rep.ok("C05.derived-geometry", "count-min: confidence = 1 - 1/2^depth, error_rate = 2/width in constructor and loaders alike")
    # ---------------------------------------------------------------- expanding / rotating
    for wctx in ("ExpandingBloomFilter", "RotatingBloomFilter"):
        wf, em = emissions(prog, wctx)
        foot = footer_of(em)
        inl = [x for x in em if x[-2] is True]
        if foot is None or [x[0] for x in inl] != ["pack", "cells"]:
            rep.bad("C05.expanding-frame", f"{wctx}.export", f"emits {[x[0] for x in em]}", "export does not write (counter, cells) per sub-filter followed by one footer", wf.where())
            continue
        cfmt = inl[0][1]
        wfmt, wslots = foot[1], slot_fields(foot)
        size_slot = [i for i, a in enumerate(foot[2]) if a == ("call", ("g", "len"), (("f", SELF, "_blooms", 0),), ())]
        for rn in ("__load", "frombytes"):
            check_footer(prog, rep, "expanding", wctx, wfmt, wslots, wctx, rn)
            f, ps = reader_paths(prog, wctx, rn)
            okf = None

            def frame_end_ok(sf, binds, start, end, qs):
                """end - start == Q + (cells of one sub-filter); the cell count is the allocation length of the fresh sub-filter"""
                allocs = [e for e in sf if e.name == "_bloom" and e.value[0] == "nary" and e.value[1] == "*"]
                if not allocs:
                    return False
                rest = [x for x in allocs[0].value[2] if x[0] != "newb"]
                Lraw = rest[0] if len(rest) == 1 else ("nary", "*", tuple(rest))
                L = canon(Lraw)
                T = None
                e_c = canon(end)
                for cand in [n for n in walk(end) if n[0] == "hv"] + [bv for bv in binds.values()]:
                    if e_c == canon(("bin", "+", ("bin", "+", start, qs), cand)):
                        T = cand
                if T is None and e_c == canon(("bin", "+", ("bin", "+", start, qs), Lraw)):
                    T = Lraw  # end = start + Q + allocation length, written out
                if T is None:
                    return False
                if T[0] == "hv":
                    vals = {canon(e.value) for q in ps for e in q.events if e.kind == "bind" and e.name == T[1] and e.loops}
                    Ls = set()
                    for q in ps:
                        for e in q.events:
                            if e.kind == "setfield" and e.base[0] == "new" and e.base[1] == "BloomFilter" and e.loops and e.name == "_bloom" \
                                    and e.value[0] == "nary" and e.value[1] == "*":
                                r_ = [x for x in e.value[2] if x[0] != "newb"]
                                Ls.add(canon(r_[0] if len(r_) == 1 else ("nary", "*", tuple(r_))))
                    return bool(vals) and vals <= Ls
                return canon(T) == L
            for p in ps:
                obj = loaded_obj(f, p)
                # sub-filter frames
                sf = [e for e in p.events if e.kind == "setfield" and e.base[0] == "new" and e.base[1] == "BloomFilter" and e.loops]
                if not sf:
                    if any(c.atom[0] == "loop0" for c in p.conds):
                        continue
                    okf = ("no frame read", f"{rn} restores no sub-filter")
                    break
                cnt = [e for e in sf if e.name == "_els_added"][-1:]
                cel = [e for e in sf if e.name == "_bloom"][-1:]
                skipped = _skipped_empty_frame(p, cnt, cel, cfmt)
                if skipped is not None:
                    # the frame's counter was read at the cursor and found 0; the fresh sub-filter (counter 0, zero cells) is kept as it is.
                    # That restores the frame only if an empty sub-filter always has zero cells, and the cursor must still move past the frame
                    why = empty_subfilter_lemma(prog, Effects(prog), wctx)
                    if why:
                        okf = ("frame skipped on a zero counter", f"a frame whose counter reads 0 is not copied, but {why}")
                        break
                    start_ = skipped
                    nxt_ = [e.value for e in p.events if e.kind == "bind" and e.loops == cel[0].loops and start_[0] == "hv" and e.name == start_[1]]
                    binds_ = {e.name: e.value for e in p.events if e.kind == "bind" and e.loops == cel[0].loops}
                    if not nxt_ or not frame_end_ok(sf, binds_, start_, nxt_[-1], C(_struct.calcsize(cfmt))):
                        okf = ("cursor arithmetic", "after a frame whose counter reads 0 the cursor is " + (nshow(nxt_[-1]) if nxt_ else "left where it was")
                               + ": the following frames are read from the wrong offset")
                        break
                    continue
                if cnt and cnt[0].value[0] == "c" and any(c.atom[0] == "loop0" and c.truth for c in p.conds):
                    continue  # sub-filters were built but the frame loop did not run (no frame to restore on this path)
                if len(cnt) != 1 or len(cel) != 1:
                    okf = ("frame shape", "a sub-filter frame does not restore exactly one counter and one cell array")
                    break
                cu = [n for n in walk(cnt[0].value) if n[0] == "unp"]
                if not cu or bare(cu[0][1]) != bare(cfmt) or cu[0][2] != 0 or not direct_input(cu[0][3], LABELS):
                    okf = (f"counter = {nshow(cnt[0].value)}", f"the per-sub-filter counter is written as '{cfmt}' but restored as {nshow(cnt[0].value)}")
                    break
                v = cel[0].value
                if not (v[0] == "newb" and v[1] == "array" and v[3][0] == C("B") and direct_input(v[3][1], LABELS)):
                    okf = (f"cells = {nshow(v)}", "sub-filter cells are not array('B') of the input data")
                    break
                # cursor arithmetic: counter at [s, s+Q), cells at [s+Q, e), next s = e, e = s + Q + itemsize*bloom_length
                s1 = [n for n in walk(cu[0][3]) if n[0] == "slice"]
                s2 = [n for n in walk(v[3][1]) if n[0] == "slice"]
                binds = {e.name: e.value for e in p.events if e.kind == "bind" and e.loops == cel[0].loops}
                qs = C(_struct.calcsize(cfmt))
                okc = bool(s1 and s2)
                if okc:
                    start = s1[0][2]
                    okc = canon(s1[0][3]) == canon(("bin", "+", start, qs)) and canon(s2[0][2]) == canon(("bin", "+", start, qs))
                    end = s2[0][3]
                    nxt = [val for nm, val in binds.items() if start[0] == "hv" and nm == start[1]]
                    okc = okc and nxt and canon(nxt[-1]) == canon(end)
                    allocs = [e for e in sf if e.name == "_bloom" and e.value[0] == "nary" and e.value[1] == "*"]
                    okc = bool(okc) and frame_end_ok(sf, binds, start, end, qs)
                if not okc and s1 and s2 and allocs:
                    # closed form: frame k starts at k * stride with stride = counter bytes + cells of one sub-filter
                    rest_ = [x for x in allocs[0].value[2] if x[0] != "newb"]
                    Lx = rest_[0] if len(rest_) == 1 else ("nary", "*", tuple(rest_))
                    a0 = s1[0][2]
                    ixs = [n for n in walk(a0) if n[0] == "ix"]
                    if ixs:
                        for S_ in {x for x in walk(a0)} | {x for x in walk(s2[0][3])}:
                            cand = S_[2] if (S_[0] == "phi" and S_[3] == C(0)) else S_
                            if canon(cand) == canon(("bin", "+", qs, Lx)):
                                okc = canon(a0) == canon(("bin", "*", ixs[0], S_)) and canon(s1[0][3]) == canon(("bin", "+", a0, qs)) \
                                    and canon(s2[0][2]) == canon(("bin", "+", a0, qs)) and canon(s2[0][3]) == canon(("bin", "+", a0, S_))
                                if okc:
                                    break
                if not okc:
                    okf = ("cursor arithmetic", "the frame cursor does not advance by exactly the bytes consumed (counter + cells)")
                    break
                # number of frames from the size slot
                doms = [c for c in [cel[0].loops[-1]]]
                okf = okf or None
            if okf:
                rep.bad("C05.expanding-frame", f"{wctx}.{rn}", okf[0], okf[1], f.where())
            else:
                rep.ok("C05.expanding-frame", f"{wctx}.{rn}: frames ('{cfmt}' counter + cells) consumed at the cursor")
    # ---------------------------------------------------------------- cuckoo
    for wctx in ("CuckooFilter", "CountingCuckooFilter"):
        wf, em = emissions(prog, wctx)
        foot = footer_of(em)
        if foot is None or not any(x[0] == "cells" for x in em):
            rep.bad("C05.same-format", f"{wctx}.export", f"emits {[x[0] for x in em]}", "export does not write buckets followed by one footer", wf.where())
            continue
        wfmt, wslots = foot[1], slot_fields(foot)
        samples[wctx] = {"format": wfmt, "slots": wslots}
        # the file-path channel is the constructor: what it does AFTER loading must not undo what was restored
        check_footer(prog, rep, "cuckoo", wctx, wfmt, wslots, wctx, "__init__", loading_only=True)
        cuckoo_error_rate_after_load(prog, rep, wctx)
        for rn in ("_load", "frombytes"):
            check_footer(prog, rep, "cuckoo", wctx, wfmt, wslots, wctx, rn)
            f, ps = reader_paths(prog, wctx, rn)
            bad = None
            restored = False
            for p in ps:
                obj = loaded_obj(f, p)
                bad = loaded_capacity_problem(p, obj, wctx, wfmt)
                if bad:
                    break
                _CUR["p"] = p
                bk = p.fields.get((obj, "_buckets"))
                apps = [e for e in p.events if e.kind == "call" and e.target is None and e.name == "append" and e.recv is not None
                        and (outer_field(e.recv) == "_buckets" or e.recv == bk or (e.recv[0] == "sub" and e.recv[1] == bk)) and e.loops]
                stored = [e for e in apps if e.args and (direct_input(e.args[0], LABELS) or (e.args[0][0] == "new"))]
                restored = restored or bool(stored)
                # ... or the bucket list is built in one expression: [entry-from-input for each bucket slice]
                if bk is not None and bk[0] == "comp" and bk[1] == "list" and direct_input(bk[2], LABELS):
                    restored = True
                # the record a bin is decoded with is the record it is written with: the writer emits array('I') words
                # (fingerprint, and for counting bins the count), so the reader must take each of them as one 32-bit unsigned
                wcells = [x for x in em if x[0] == "cells"]
                wtc = wcells[0][1][3][0][1] if wcells and wcells[0][1][0] == "newb" and wcells[0][1][1] == "array" and wcells[0][1][3] else None
                for e in p.events:
                    if e.kind == "new" and e.cls == "CountingCuckooBin" and e.loops and wtc:
                        ups = [a for a in e.args if a[0] == "unp"]
                        if len(ups) != len(e.args) or len(e.args) != 2:
                            continue
                        fm = expand_format(ups[0][1])
                        if fm != wtc * 2 or ups[1][1] != ups[0][1] or [u[2] for u in ups] != [0, 1] or strip_epochs(ups[0][3]) != strip_epochs(ups[1][3]):
                            bad = (f"bin record '{ups[0][1]}'", f"a stored bin is decoded as '{ups[0][1]}' slots {[u[2] for u in ups]}, but the writer emits two array('{wtc}') "
                                   f"words per bin (fingerprint, count): counts or fingerprints that do not fit the narrower field are truncated on load")
                if bad:
                    break
            if not bad and not restored:
                bad = ("no fingerprint restored", "no path of the loader appends a stored fingerprint to the buckets")
            if bad:
                rep.bad("C05.cuckoo-geometry", f"{wctx}.{rn}", bad[0], bad[1], f.where())
            else:
                rep.ok("C05.cuckoo-geometry", f"{wctx}.{rn}")
    # ---------------------------------------------------------------- (e) one body
    for ctx in ("BloomFilter", "CountingBloomFilter", "ExpandingBloomFilter", "RotatingBloomFilter", "CountMinSketch", "HeavyHitters",
                "CuckooFilter", "CountingCuckooFilter"):
        bf = prog.method(ctx, "__bytes__")
        okb = False
        for p in paths(prog, ctx, bf):
            ex = [e for e in p.events if e.kind == "call" and e.name == "export" and e.recv == SELF and e.args and e.args[0][0] == "fileobj" and e.args[0][2] == "BytesIO"]
            rv = p.exit[1]
            okb = bool(ex) and rv[0] == "call" and rv[1][0] == "m" and rv[1][2] == "getvalue" and rv[1][1] == ex[0].args[0]
        if not okb:
            # ... or __bytes__ spells out the very emission list of the file-object body: <cells>.tobytes() + <footer pack>
            _, em_ = emissions(prog, ctx)
            if em_ and not any(x[-2] for x in em_):
                want_ = [("cells", x[1]) if x[0] == "cells" else (("pack", bare(x[1]), x[2]) if x[0] == "pack" else ("raw", x[1])) for x in em_]
                from ..walk import Walker
                for p in Walker(prog, ctx, inline="deep", param_types={"second": "<ctx>"}).run(bf):
                    if p.exit[0] != "return":
                        continue
                    parts, todo = [], [strip_epochs(p.exit[1])]
                    while todo:
                        x = todo.pop(0)
                        if x[0] == "bin" and x[1] == "+":
                            todo = [x[2], x[3]] + todo
                        elif x[0] == "call" and x[1][0] == "m" and x[1][2] == "tobytes" and not x[2]:
                            parts.append(("cells", x[1][1]))
                        elif x[0] == "pack":
                            parts.append(("pack", bare(x[1]), tuple(strip_epochs(a) for a in x[2])))
                        else:
                            parts.append(("other", x))
                    okb = parts == want_
        ef = prog.method(ctx, "export")
        okp = False
        for p in paths(prog, ctx, ef):
            if p.conds and p.conds[0].truth is False:
                okp = any(e.kind == "call" and e.name == "export" and e.recv == SELF and e.args and e.args[0][0] == "fileobj" and e.args[0][2] == "open"
                          for e in p.events)
        if okb and okp:
            rep.ok("C05.one-body", f"{ctx}: __bytes__ and export(path) delegate to export(file object)")
        else:
            rep.bad("C05.one-body", f"{ctx}.{'__bytes__' if not okb else 'export'}", "separate serialisation body",
                    f"{'__bytes__' if not okb else 'the path form of export'} does not delegate to the file-object form of export: channels can diverge", (bf if not okb else ef).where())
    # ---------------------------------------------------------------- (f) sentinel
    for ctx in ("CuckooFilter", "CountingCuckooFilter"):
        g = prog.method(ctx, "_generate_fingerprint_info")
        gp = [p for p in paths(prog, ctx, g, inline="deep") if p.exit[0] == "return"]
        rep.analysed(g, ctx, len(gp))
        crange = cell_range_fn(prog, ctx)
        bad = None
        for p in gp:
            rv = p.exit[1]
            fp = rv[1][2] if rv[0] == "tup" and len(rv[1]) == 3 else None
            if fp is None and any(n[0] == "f" and n[1] == SELF for n in walk(rv)):
                from .C19 import memo_sound
                if memo_sound(prog, ctx, g)[0]:
                    continue  # a memo hit: returns what an earlier miss (judged on its own path) returned
            if fp is None:
                bad = (f"returns {nshow(rv)}", "fingerprint info is not (idx_1, idx_2, fingerprint)", None)
                break
            iv = HashIntervals(all_conds(p), {}, crange).iv(fp)
            if iv[0] is None or iv[0] <= 0 <= (iv[1] if iv[1] is not None else 1):
                bad = (f"fingerprint in {fmt_iv(iv)}", f"a key's fingerprint {nshow(fp)} lies in {fmt_iv(iv)}, which contains the empty-slot marker 0 that "
                       "export pads with and the loaders drop: such a key is present before export and absent after load", p)
                break
        # the marker itself: readers drop falsy / <= 0 entries; writers pad with 0
        if bad:
            rep.bad("C05.sentinel-disjoint", f"{ctx}._generate_fingerprint_info", bad[0], bad[1], g.where())
        else:
            rep.ok("C05.sentinel-disjoint", f"{ctx}: fingerprints exclude 0")
    # ---------------------------------------------------------------- (g) alternate constructors build cls
    for cname in prog.concrete_classes():
        K = prog.cls(cname)
        for mn in ("frombytes", "init_error_rate", "load_error_rate"):
            f = K.find_method(mn)
            if f is None or f.kind != "classmethod":
                continue
            # (a subclass may delegate to the inherited constructor of the same name: look through it)
            ps = [p for p in paths(prog, cname, f, force_inline=(mn,)) if p.exit[0] == "return"]
            if not ps:
                continue  # refuses (on-disk frombytes)
            kinds = {p.exit[1][1] if p.exit[1][0] == "new" else nshow(p.exit[1]) for p in ps}
            if kinds == {cname}:
                rep.ok("C05.constructs-cls", f"{cname}.{mn}")
            else:
                rep.bad("C05.constructs-cls", f"{cname}.{mn}", f"constructs {sorted(kinds)}",
                        f"{cname}.{mn} (defined in {f.cls.name}) returns a {sorted(kinds)}: loading through the subclass yields a different structure "
                        "(e.g. a different query mode)", f.where())
    # the on-disk filter's bytes() is its file: the stored count must follow every mutator
    rep.rule("C05.ondisk-count-current", "on-disk Bloom: every mutator of persisted state rewrites the stored count, so bytes()/export carry the current count", floor=1)
    from .C19 import ondisk_sync_lemma
    miss = ondisk_sync_lemma(prog, Effects(prog))
    if miss:
        rep.bad("C05.ondisk-count-current", f"BloomFilterOnDisk.{miss[0].src_name}", "mutator without footer sync",
                f"{miss[0].cls.name}.{miss[0].src_name} changes an on-disk filter without rewriting the count in its file: bytes() / a copy of the file then loads with a stale element count", miss[0].where())
    else:
        rep.ok("C05.ondisk-count-current", "every mutator of persisted state reaches __update")
    # ---------------------------------------------------------------- a saved filter that is named is the one that is loaded
    rep.rule("C05.init-precedence", "Bloom constructors build from the sizing parameters only when neither a valid file nor a hex string is given (documented order: file, hex, parameters)", floor=2)
    for ctx in ("BloomFilter", "CountingBloomFilter"):
        init = prog.method(ctx, "__init__")
        look = tuple(sorted({m.qualname for m in mro_methods(prog, ctx) if m.src_name in ("_load_init", "__init__")} | {k.methods["__init__"].qualname for k in prog.cls(ctx).mro() if "__init__" in k.methods}))
        badp, nret = None, 0
        for p in paths(prog, ctx, init, force_inline=look):
            if p.exit[0] != "return":
                continue
            nret += 1
            called = {e.name for e in p.events if e.kind == "call" and e.target is not None}
            def decided(fn, truth):
                return any(c.truth == truth and strip_epochs(c.atom)[0] in ("ret", "call") and str(strip_epochs(c.atom)[1]).endswith(fn + "')") or
                           (c.truth == truth and strip_epochs(c.atom)[0] == "ret" and strip_epochs(c.atom)[1].endswith(fn)) for c in p.conds)
            if "_load" not in called and not decided("is_valid_file", False):
                badp = badp or "a path builds the filter without loading the file and without having found the file argument invalid"
            if "_load" not in called and "_load_hex" not in called and not decided("is_hex_string", False):
                badp = badp or "a path builds the filter from the sizing parameters without having found the hex string argument invalid"
        if badp:
            rep.bad("C05.init-precedence", f"{ctx}.__init__", "source precedence",
                    f"{badp}: BloomFilter(est_elements, false_positive_rate, filepath=saved) - the open-or-create idiom - returns a new empty filter instead of the saved one", init.where())
        elif nret:
            rep.ok("C05.init-precedence", f"{ctx}.__init__: file, then hex string, then parameters ({nret} paths)")
    # ---------------------------------------------------------------- what the format does not store is honoured when re-supplied
    rep.rule("C05.resupplied", "parameters the format does not store (hash function, queue limit, table sizes, error rate) are honoured when re-supplied", floor=12)
    resupplied_rule(prog, rep, "C05.resupplied", None)
    rep.rule("C05.derived-on-load", "a field the parameter branch of a constructor computes is not left at a placeholder constant by the loading branch", floor=12)
    derived_on_load_rule(prog, rep, "C05.derived-on-load")
    rep.rule("C05.unsigned-slots", "a field packed into an unsigned footer slot is never set to the negative answer of a method of the class (pack would raise: the structure cannot be exported)", floor=4)
    unsigned_slots_rule(prog, rep, "C05.unsigned-slots", samples)
    from .C07 import fingerprint_final_geometry
    fingerprint_final_geometry(prog, rep, "C05.resupplied-error-rate")
    rep.extra["formats"] = samples


from ..selftest import Mutant, del_stmt, insert_stmt, replace_expr, replace_stmt, seq

_B, _CB, _E, _CM, _CK, _CC = ("blooms/bloom.py", "blooms/countingbloom.py", "blooms/expandingbloom.py", "countminsketch/countminsketch.py",
                              "cuckoo/cuckoo.py", "cuckoo/countingcuckoo.py")
MUTANTS = [
    Mutant("BloomFilter: sizing parameters take precedence over a valid file", _B, replace_expr("BloomFilter", "_load_init", "is_valid_file(filepath)", "est_elements is None and is_valid_file(filepath)"), rule="C05.init-precedence"),
    Mutant("CountingBloomFilter: hex string no longer consulted when parameters are given", _CB, replace_expr("CountingBloomFilter", "_load_init", "is_hex_string(hex_string)", "false_positive_rate is None and is_hex_string(hex_string)"), rule="C05.init-precedence"),
    Mutant("_load: delete self._els_added = els_added", _B, del_stmt("BloomFilter", "_load", "self._els_added = els_added"), rule="C05.slot"),
    Mutant("_load_hex: delete self._els_added = els_added", _B, del_stmt("BloomFilter", "_load_hex", "self._els_added = els_added"), rule="C05.slot"),
    Mutant("frombytes: delete blm._els_added = els_added", _B, del_stmt("BloomFilter", "frombytes", "blm._els_added = els_added"), expect="silent"),
    Mutant("counting frombytes: delete blm._els_added = els_added", _CB, del_stmt("CountingBloomFilter", "frombytes", "blm._els_added = els_added"), rule="C05.slot"),
    Mutant("_parse_footer: swap the first two unpack targets", _B, replace_stmt("BloomFilter", "_parse_footer", "e_elms, e_added, fpr = ", "e_added, e_elms, fpr = stct.unpack_from(bytearray(d))"), rule="C05.slot"),
    Mutant("D2 re-introduced: on-disk _load discards slot 1", _B, del_stmt("BloomFilterOnDisk", "_load", "self._els_added = els_added"), rule="C05.slot"),
    Mutant("export_hex packs the counter first", _B, replace_expr("BloomFilter", "export_hex", "self._FOOTER_STRUCT_BE.pack(self.estimated_elements, self.elements_added, self.false_positive_rate)", "self._FOOTER_STRUCT_BE.pack(self.elements_added, self.estimated_elements, self.false_positive_rate)"), rule="C05.same-format"),
    Mutant("footer struct QQf -> QQd on the reader side only", _B, replace_expr("BloomFilter", "_load", "self._FOOTER_STRUCT", "Struct('QQd')", nth=1), rule="C05."),
    Mutant("counting frombytes reads cells as array('B')", _CB, replace_expr("CountingBloomFilter", "frombytes", "blm._parse_bloom_array(b, cls._IMPT_STRUCT.size * blm.bloom_length)", "blm._parse_bloom_array(b, blm.bloom_length)"), rule="C05.payload"),
    Mutant("CountMinSketch._parse_bytes reads bins as array('I')", _CM, replace_expr("CountMinSketch", "_parse_bytes", "array('i', bytes(file[:offset]))", "array('I', bytes(file[:offset]))"), rule="C05.payload"),
    Mutant("CountMinSketch._parse_footer with its own Struct('IIQ')", _CM, replace_expr("CountMinSketch", "_parse_footer", "cls.__FOOTER_STRUCT.unpack_from(bytes(file[-1 * offset:]))", "Struct('IIQ').unpack_from(bytes(file[-1 * offset:]))"), rule="C05.same-format"),
    Mutant("CountMinSketch._parse_bytes forgets the total", _CM, del_stmt("CountMinSketch", "_parse_bytes", "self.__elements_added = els_added"), rule="C05.slot"),
    Mutant("D10 re-introduced: frombytes builds CountMinSketch", _CM, replace_expr("CountMinSketch", "frombytes", "cls(width=width, depth=depth, hash_function=hash_function)", "CountMinSketch(width=width, depth=depth, hash_function=hash_function)"), rule="C05.constructs"),
    Mutant("CuckooFilter._load: delete the _parse_footer call", _CK, del_stmt("CuckooFilter", "_load", "self._parse_footer("), rule="C05."),
    Mutant("CuckooFilter._parse_footer: delete the capacity assignment", _CK, del_stmt("CuckooFilter", "_parse_footer", "self._cuckoo_capacity ="), rule="C05.cuckoo"),
    Mutant("CuckooFilter._parse_footer: swapped targets", _CK, replace_stmt("CuckooFilter", "_parse_footer", "self._bucket_size, self.__max_cuckoo_swaps =", "self.__max_cuckoo_swaps, self._bucket_size = stct.unpack(d[list_size:])"), rule="C05.slot"),
    Mutant("D9 re-introduced: fingerprint may be 0", _CK, del_stmt("CuckooFilter", "_generate_fingerprint_info", "if fingerprint == 0"), rule="C05.sentinel"),
    Mutant("expanding _parse_blooms: counter read at the wrong offset", _E, replace_expr("ExpandingBloomFilter", "_parse_blooms", "b[start:start + self.__S_INT64_STRUCT.size]", "b[start + 1:start + 1 + self.__S_INT64_STRUCT.size]"), rule="C05.expanding"),
    Mutant("expanding _parse_blooms: cursor not advanced", _E, del_stmt("ExpandingBloomFilter", "_parse_blooms", "start = end"), rule="C05.expanding"),
    Mutant("expanding _parse_blooms: a frame with counter 0 is not copied, cursor advanced (same result)", _E,
           replace_stmt("ExpandingBloomFilter", "_parse_blooms", "blm._els_added = int(", "els = int(self.__S_INT64_STRUCT.unpack(bytes(b[start : start + self.__S_INT64_STRUCT.size]))[0])\nif els == 0:\n    self._blooms.append(blm)\n    start = end\n    continue\nblm._els_added = els"), expect="silent"),
    Mutant("expanding _parse_blooms: a frame with counter 0 is not copied and the cursor stays", _E,
           replace_stmt("ExpandingBloomFilter", "_parse_blooms", "blm._els_added = int(", "els = int(self.__S_INT64_STRUCT.unpack(bytes(b[start : start + self.__S_INT64_STRUCT.size]))[0])\nif els == 0:\n    self._blooms.append(blm)\n    continue\nblm._els_added = els"), rule="C05.expanding"),
    Mutant("expanding __init__ installs the caller's hash strategy only after the file was loaded", _E, seq(
        replace_stmt("ExpandingBloomFilter", "__init__", "if hash_function is not None", "self.__hash_func = default_fnv_1a"),
        insert_stmt("ExpandingBloomFilter", "__init__", "if hash_function is not None:\n    self.__hash_func = hash_function", at_end=True)), rule="C05.resupplied"),
    Mutant("count-min remembers depth // 2 in a field the loader does not refresh", _CM, seq(
        insert_stmt("CountMinSketch", "__init__", "self._half = 0", before="self.__elements_added = 0"),
        insert_stmt("CountMinSketch", "__init__", "self._half = self.depth // 2", after="self._bins = array(")), rule="C05.derived-on-load"),
    Mutant("count-min remembers depth // 2 in a field, refreshed by the loader too (no change of behaviour)", _CM, seq(
        insert_stmt("CountMinSketch", "__init__", "self._half = 0", before="self.__elements_added = 0"),
        insert_stmt("CountMinSketch", "__init__", "self._half = self.depth // 2", after="self._bins = array("),
        insert_stmt("CountMinSketch", "_parse_bytes", "self._half = self.depth // 2", at_end=True)), expect="silent"),
    Mutant("the estimate sentinel is also stored into another unsigned footer field (est_elements)", _B,
           insert_stmt("BloomFilter", "clear", "self._est_elements = self.estimate_elements()", at_end=True), rule="C05.unsigned"),
    Mutant("the estimate is clamped at 0 before it becomes the element count (no negative reaches the slot)", _B,
           insert_stmt("BloomFilter", "clear", "self._els_added = max(self.estimate_elements(), 0)", at_end=True), expect="silent"),
    Mutant("cuckoo constructor computes the error rate before it loads the file (stale for another bucket size)", _CK, seq(
        del_stmt("CuckooFilter", "__init__", "self._error_rate = float(self._calc_error_rate())"),
        insert_stmt("CuckooFilter", "__init__", "self._error_rate = float(self._calc_error_rate())", before="if filepath is None")), rule="C05.derived-geometry"),
    Mutant("D19 back: _set_error_rate(None) leaves the rate the constructor computed for its default bucket size", _CK,
           replace_stmt("CuckooFilter", "_set_error_rate", "self._error_rate = float(self._calc_error_rate())", "pass"), rule="C05.derived-geometry"),
    Mutant("D19 repaired the other way: frombytes itself recomputes the error rate after the load", _CK,
           insert_stmt("CuckooFilter", "frombytes", "cku._error_rate = cku._calc_error_rate()", before="cku._set_error_rate(error_rate)"), expect="silent"),
    Mutant("expanding __load forgets the total", _E, del_stmt("ExpandingBloomFilter", "__load", "self._added_elements = els_added"), rule="C05.slot"),
    Mutant("expanding frombytes forgets the total", _E, del_stmt("ExpandingBloomFilter", "frombytes", "blm._added_elements = added_els"), rule="C05.slot"),
    Mutant("CountMinSketch.__bytes__ with its own body", _CM, replace_stmt("CountMinSketch", "__bytes__", "with BytesIO() as f", "return self._bins.tobytes()"), rule="C05.one-body"),
    Mutant("frombytes drops the re-supplied hash", _B, replace_expr("BloomFilter", "frombytes", "blm._load(b, hash_function=blm.hash_function)", "blm._load(b)"), rule="C05.resupplied"),
    Mutant("StreamThreshold.frombytes ignores the threshold", _CM, replace_expr("StreamThreshold", "frombytes", "StreamThreshold(width=width, depth=depth, threshold=threshold, hash_function=hash_function)", "StreamThreshold(width=width, depth=depth, hash_function=hash_function)"), rule="C05.resupplied"),
    Mutant("cuckoo frombytes applies the error rate before loading", _CK, seq(del_stmt("CuckooFilter", "frombytes", "cku._set_error_rate(error_rate)"), insert_stmt("CuckooFilter", "frombytes", "cku._set_error_rate(error_rate)", before="cku._load(b)")), rule="C05.resupplied"),
    Mutant("loaded sketch reports error_rate 3/width", _CM, replace_expr("CountMinSketch", "_parse_bytes", "2 / self.width", "3 / self.width"), rule="C05.derived"),
    Mutant("loaded sketch keeps confidence 0.0", _CM, del_stmt("CountMinSketch", "_parse_bytes", "self.__confidence ="), rule="C05.derived"),
    Mutant("counting cuckoo loader counts the footer as slots", _CC, replace_stmt("CountingCuckooFilter", "_parse_buckets", "self._cuckoo_capacity = ", "self._cuckoo_capacity = len(bytes(d)) // (bin_size * self.bucket_size)"), rule="C05.cuckoo"),
    Mutant("on-disk clear only flushes the mapping", _B, replace_stmt("BloomFilterOnDisk", "clear", "self.__update()", "self._bloom.flush()"), rule="C05.ondisk"),
    Mutant("counting cuckoo export packs max_swaps first", _CC, replace_expr("CountingCuckooFilter", "export", "self.__COUNTING_CUCKOO_FOOTER_STRUCT.pack(self.bucket_size, self.max_swaps)", "self.__COUNTING_CUCKOO_FOOTER_STRUCT.pack(self.max_swaps, self.bucket_size)"), rule="C05.slot"),
]
