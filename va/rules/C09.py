"""C09 / C10 shared machinery and the C09 check: expanding Bloom filter grows exactly when its newest filter is full."""
from __future__ import annotations

import ast as _ast

from ..common import all_conds, conds_at, empty_filter_reports_absent, empty_subfilter_lemma, nshow, outer_field, paths
from ..effects import Effects
from ..expr import C, SELF, canon, mapx, norm, show, strip_epochs, walk
from ..intervals import EQ, GT, LT, path_orderings
from ..model import AnalysisError

EXPL = ("Path-shape and ordering-set rules on ExpandingBloomFilter.add_alt (growth helpers looked through) and "
        "BloomFilter.add_alt: the total counter is incremented exactly once on every path; insertion into the newest sub-filter "
        "happens exactly on the paths with force or not-present; the growth check precedes the insertion; the growth predicate, "
        "judged by the orderings it admits under the inductive hypothesis newest.count <= est, grows only at count >= est and "
        "never lets count reach est without growing; growth appends a sub-filter built with the filter's own est_elements; a "
        "sub-filter counts one per add_alt, outside its hash loop.")
FILES = ["blooms/expandingbloom.py", "blooms/bloom.py"]
BLOOMS = ("f", SELF, "_blooms", 0)
NEWEST = ("sub", BLOOMS, C(-1), 0)


def list_ops(prog, ctx, p, appenders):
    """operations on the sub-filter list along a path: 'append' / ('pop', arg) / 'other:<name>'"""
    ops = []
    for e in p.events:
        if e.kind == "call" and e.target is not None and e.target.qualname in appenders:
            ops.append(("append", e))
        elif e.kind == "call" and e.target is None and e.recv is not None and strip_epochs(e.recv) == BLOOMS and e.d.get("mutates"):
            if e.name == "append":
                ops.append(("append", e))
            elif e.name == "pop" or (e.name == "__delitem__" and e.args and strip_epochs(e.args[0]) == C(0)):
                a = strip_epochs(e.args[0]) if e.args else None  # del xs[0] removes what xs.pop(0) removes
                ops.append(("pop0" if a == C(0) else f"pop({nshow(a) if a else ''})", e))
            else:
                ops.append((f"other:{e.name}", e))
        elif e.kind in ("setfield",) and e.name == "_blooms" and e.base == SELF:
            ops.append(("rebind", e))
        elif e.kind == "setelem" and strip_epochs(e.cont) == BLOOMS:
            ops.append(("setitem", e))
    return ops


HELPERS = ("__check_for_growth", "__add_bloom_filter", "__rotate_bloom_filter")


def entry_paths(prog, ctx, fname):
    """paths of a public entry point with the growth / rotation helpers looked through: the rules below are about what add_alt
    (or push) does as a whole, whichever private helper the decision currently lives in"""
    f = prog.method(ctx, fname)
    return f, paths(prog, ctx, f, force_inline=HELPERS)


def appended_ok(rep, rid, where, p, f, est_field):
    """the sub-filter appended on this path is one fresh BloomFilter built with the filter's own parameters"""
    news = [e for e in p.events if e.kind == "new" and e.cls == "BloomFilter"]
    apps = [e for e in p.events if e.kind == "call" and e.target is None and e.name == "append" and e.recv is not None and strip_epochs(e.recv) == BLOOMS]
    if not news and len(apps) == 1:
        # a recycled sub-filter: the one rolled off the front on this path, emptied (bit array re-allocated as zeros of its own
        # length, count reset - on that very object) and appended again; all sub-filters share their parameters (C01 decides that)
        obj = strip_epochs(apps[0].args[0])
        popped = [e for e in p.events if e.kind == "call" and e.name == "pop" and e.recv is not None and strip_epochs(e.recv) == BLOOMS
                  and [strip_epochs(a) for a in e.args] == [C(0)] and strip_epochs(e.result) == obj]
        sets = {e.name: strip_epochs(e.value) for e in p.events if e.kind == "setfield" and strip_epochs(e.base) == obj}
        arr = sets.get("_bloom")
        own_len = [("f", obj, "bloom_length", 0), ("f", obj, "_bloom_length", 0)]
        zeroed = arr is not None and arr[0] == "newb" and arr[1] == "array" and len(arr[3]) == 2 and arr[3][0] == C("B") and \
            (arr[3][1] in [("call", ("g", "bytes"), (ln,), ()) for ln in own_len])
        zeroed = zeroed or (arr is not None and arr[0] == "nary" and arr[1] == "*" and len(arr[2]) == 2 and any(x in own_len for x in arr[2]) and
                            any(x[0] == "newb" and x[1] == "array" and len(x[3]) == 2 and x[3] == (C("B"), ("lst", (C(0),))) for x in arr[2]))
        cleared = any(e.kind == "call" and e.name == "clear" and e.recv is not None and strip_epochs(e.recv) == obj for e in p.events)
        if popped and ((zeroed and sets.get("_els_added") == C(0)) or cleared):
            return True
        if popped:
            what = "its bit array is not re-allocated as zeros of its own length" if not zeroed else "its element count is not reset (on that very object)"
            rep.bad(rid, where, "recycled sub-filter not emptied", f"the sub-filter rolled off the front is appended again as the newest one, but {what}: "
                    "it starts its new life with stale contents, or never reports itself full again", apps[0].where())
            return False
    if len(news) != 1 or len(apps) != 1 or apps[0].args[0] != news[0].obj:
        rep.bad(rid, where, "append shape", "growth does not append exactly one freshly built sub-filter at the end of the list", f.where())
        return False
    got = dict(news[0].kwargs)
    names = ["est_elements", "false_positive_rate", "filepath", "hex_string", "hash_function"]
    for i, a_ in enumerate(news[0].args):
        got[names[i]] = a_
    est = strip_epochs(got.get("est_elements", C(None)))
    if est != ("f", SELF, est_field, 0):
        rep.bad(rid, where, f"est_elements = {nshow(est)}", "a new sub-filter is not sized with the filter's own est_elements", news[0].where())
        return False
    for k, fld in (("false_positive_rate", "_ExpandingBloomFilter__fpr"), ("hash_function", "_ExpandingBloomFilter__hash_func")):
        v = strip_epochs(got.get(k, C(None)))
        if v != ("f", SELF, fld, 0):
            rep.bad(rid, where, f"{k} = {nshow(v)}",
                    f"a new sub-filter is built with {k} = {nshow(v)}, not the filter's own: keys hashed for one sub-filter are not valid for the next", news[0].where())
            return False
    return True


_LEN = ("call", ("g", "len"), (BLOOMS,), ())
_NEWEST_COUNT = [("f", NEWEST, "_els_added", 0), ("f", ("sub", BLOOMS, C(0), 0), "_els_added", 0)]


def _whole_filter_empty(prog, ctx, p):
    """the conditions of the path pin the sub-filter list to one entry whose own counter is 0, and for this class an empty sub-filter has
    all-zero cells on which a look-up can only answer False (both lemmas are decided on the code, see common.py)"""
    one = False
    zero = False
    for c in p.conds:
        a = strip_epochs(c.atom)
        if any(n == _LEN for n in walk(a)):  # a condition that is a function of the list length alone folds to a constant below
            sat = set()
            for k in range(0, 5):
                v = norm(mapx(a, lambda n: C(k) if n == _LEN else None))
                if v[0] != "c":
                    sat = None
                    break
                if bool(v[1]) == c.truth:
                    sat.add(k)
            if sat == {1}:
                one = True
        if a in _NEWEST_COUNT and not c.truth:
            zero = True
        if a[0] == "cmp" and ((a[2] in _NEWEST_COUNT and a[3] == C(0)) or (a[3] in _NEWEST_COUNT and a[2] == C(0))):
            if (a[1] == "==" and c.truth) or (a[1] in ("!=", ">") and not c.truth and a[2] in _NEWEST_COUNT) or (a[1] == "<=" and c.truth and a[2] in _NEWEST_COUNT):
                zero = True
    if not (one and zero):
        return False
    return empty_subfilter_lemma(prog, Effects(prog), ctx) is None and empty_filter_reports_absent(prog) is None


def _scan_loop_verdict(prog, ctx, p):
    """the presence scan written as a loop over the whole sub-filter list inside add_alt: True when this path left the loop on a hit, False when
    the round it stands for (every round that does not leave the loop looks like one of the paths, and each path is judged) either probed the
    sub-filter and missed, or skipped it because its own counter is 0 - which is a miss by the two empty-filter lemmas; None when the path
    has no such loop or lets a round pass in any other way"""
    h = ("p", "hashes")
    its = {n for c in p.conds for n in walk(strip_epochs(c.atom)) if n[0] == "it" and n[2] == BLOOMS}
    if any(strip_epochs(c.atom)[0] == "loop0" and strip_epochs(c.atom)[2] == BLOOMS and c.truth for c in p.conds) and not its:
        return False  # no sub-filter at all: nothing can be present
    if len(its) != 1:
        return None
    it = next(iter(its))
    if any(e.kind == "loopbreak" and e.lid == it[1] for e in p.events):
        return None  # the scan was cut short: the sub-filters after this one were not looked at
    count = ("f", it, "_els_added", 0)
    probed, skipped_empty, nonempty = None, False, False
    for c in p.conds:
        a = strip_epochs(c.atom)
        if not any(n == it for n in walk(a)):
            continue
        if a[0] == "ret" and a[1].endswith("BloomFilter.check_alt") and a[3] == (it, h):
            probed = c.truth
        elif a == count:
            skipped_empty, nonempty = skipped_empty or not c.truth, nonempty or c.truth
        elif a[0] == "cmp" and a[2] == count and a[3] == C(0) and a[1] in ("==", "!=", ">"):
            z = (a[1] == "==") == c.truth
            skipped_empty, nonempty = skipped_empty or z, nonempty or not z
        else:
            return None
    if probed is True:
        return True
    if probed is False and not skipped_empty:
        return False
    if skipped_empty and probed is None and not nonempty:
        if empty_subfilter_lemma(prog, Effects(prog), ctx) is None and empty_filter_reports_absent(prog) is None:
            return False
    return None


def add_alt_shape(prog, rep, prefix, ctx, counter):
    """counter +1 exactly once on every path; insert <=> force or not present; list operations only before the insert.
    Returns [(path, insert event or None, list operations)] for the non-raising paths"""
    f, ps = entry_paths(prog, ctx, "add_alt")
    rep.analysed(f, ctx, len(ps))
    where = f"{ctx}.add_alt"
    good = True
    rows = set()
    out = []
    for p in ps:
        if p.exit[0] == "raise":
            continue
        incs = [e for e in p.events if e.kind == "setfield" and e.name == counter and e.base == SELF]
        if len(incs) != 1 or canon(incs[0].value) != canon(("bin", "+", ("f", SELF, counter, 0), C(1))):
            rep.bad(f"{prefix}.counter-dominates", where, "total counter", "elements_added is not incremented exactly once by one on every path of add_alt", f.where())
            good = False
            break
        force = None
        present = None
        probes = []  # (positions selector, truth) of sub-filter look-ups written out instead of self.check_alt(hashes)
        for c in p.conds:
            a = strip_epochs(c.atom)
            if a == ("p", "force") and c.func is f:
                force = c.truth
            elif a[0] == "ret" and a[1].endswith(".check_alt") and a[3] == (SELF, ("p", "hashes")):
                present = c.truth
            else:
                sel = _subfilter_probe(a)
                if sel is not None:
                    probes.append((sel, c.truth))
        if present is None and probes:
            if any(t for _, t in probes):
                present = True
            elif _covers_all([sel for sel, _ in probes]):
                present = False
        if present is None and not probes and force is not True:
            present = _scan_loop_verdict(prog, ctx, p)
        if present is None and force is not True and _whole_filter_empty(prog, ctx, p):
            present = False  # nothing was ever stored: the scan that was skipped could only have answered "absent"
        def newest_at(i, recv):
            """recv is the newest sub-filter when event i happens: _blooms[-1], or the object appended last before i"""
            if strip_epochs(recv) == NEWEST:
                return True
            app = [x.args[0] for x in p.events[:i] if x.kind == "call" and x.target is None and x.name == "append" and x.d.get("recv") is not None
                   and strip_epochs(x.recv) == BLOOMS and x.args]
            return bool(app) and strip_epochs(app[-1]) == strip_epochs(recv)
        ins = [i for i, e in enumerate(p.events) if e.kind == "call" and e.name == "add_alt" and e.recv is not None and newest_at(i, e.recv)]
        other_ins = [e for i, e in enumerate(p.events) if e.kind == "call" and e.name in ("add_alt", "add") and e.recv is not None and not newest_at(i, e.recv)
                     and strip_epochs(e.recv) != SELF and not e.d.get("inlined")]
        if other_ins:
            rep.bad(f"{prefix}.insert-condition", where, f"insert into {nshow(other_ins[0].recv)}", "insertion does not go to the newest sub-filter", other_ins[0].where())
            good = False
        should = (force is True) or (force is not True and present is False)
        known = force is True or present is not None
        if not known:
            rep.bad(f"{prefix}.insert-condition", where, "undecided path", "a path of add_alt neither forces nor checks presence", f.where())
            good = False
            continue
        rows.add((force, present, bool(ins)))
        if not ins and force is not False:
            rep.bad(f"{prefix}.insert-condition", where, f"force={force} present={present} not inserted",
                    "a path skips the insertion without having tested force: a forced add of a key already reported present inserts nothing", f.where())
            good = False
            continue
        if bool(ins) != should or len(ins) > 1:
            rep.bad(f"{prefix}.insert-condition", where, f"force={force} present={present} inserted={len(ins)}",
                    f"with force={force}, present={present} the key is inserted {len(ins)} time(s); expected insertion exactly when force or not present", f.where())
            good = False
            continue
        ops = list_ops(prog, ctx, p, set())
        if ins:
            late = [o for o in ops if p.events.index(o[1]) > ins[0]]
            if late:
                rep.bad(f"{prefix}.growth-precedes-insert", where, "order",
                        f"the sub-filter list is changed ({late[0][0]}) after the insertion into the newest sub-filter: the growth / rotation decision must come first", late[0][1].where())
                good = False
                continue
        elif ops:
            rep.bad(f"{prefix}.growth-precedes-insert", where, "growth without insertion", "the filter may grow on a path that inserts nothing", ops[0][1].where())
            good = False
            continue
        out.append((p, p.events[ins[0]] if ins else None, ops))
    if good:
        rep.ok(f"{prefix}.counter-dominates", where)
        rep.ok(f"{prefix}.insert-condition", f"{where}: rows {sorted(map(str, rows))}")
        rep.ok(f"{prefix}.growth-precedes-insert", where)
    return f, out, good


def _subfilter_probe(a):
    """a = <sub-filter>.check_alt(hashes) for one position, or any(<sub-filter>.check_alt(hashes) for <sub-filter> in <part of the list>):
    returns which positions of the sub-filter list it looks at - ('all',) / ('idx', k) / ('slice', lo, hi, step) - else None"""
    h = ("p", "hashes")
    def part(d):
        if d == BLOOMS:
            return ("all",)
        if d[0] == "slice" and d[1] == BLOOMS and all(x[0] == "c" and (x[1] is None or isinstance(x[1], int)) for x in d[2:5]):
            return ("slice", d[2][1], d[3][1], d[4][1])
        return None
    if a[0] == "ret" and a[1].endswith("BloomFilter.check_alt") and len(a[3]) == 2 and a[3][1] == h:
        r = a[3][0]
        if r[0] == "sub" and r[1] == BLOOMS and r[2][0] == "c" and isinstance(r[2][1], int):
            return ("idx", r[2][1])
    if a[0] == "call" and a[1] == ("g", "any") and len(a[2]) == 1 and a[2][0][0] == "comp" and len(a[2][0][3]) == 1 and not a[2][0][3][0][3]:
        g = a[2][0]
        el = g[2]
        if el[0] == "ret" and el[1].endswith("BloomFilter.check_alt") and len(el[3]) == 2 and el[3][1] == h and el[3][0] == ("it", g[3][0][1], g[3][0][2]):
            return part(g[3][0][2])
    return None


def _covers_all(sels) -> bool:
    """do the selectors together reach every position of a list, whatever its length?  Decided by evaluating the selectors on
    index lists of length 1 .. 16 (constant bounds only, so the pattern is periodic well below that)"""
    for n in range(1, 17):
        idx = list(range(n))
        got = set()
        for s_ in sels:
            if s_[0] == "all":
                got |= set(idx)
            elif s_[0] == "idx":
                if -n <= s_[1] < n:
                    got.add(idx[s_[1]])
            elif s_[0] == "slice":
                got |= set(idx[slice(s_[1], s_[2], s_[3])])
        if got != set(idx):
            return False
    return True


def sub_counter_once(prog, rep, rid):
    f = prog.method("BloomFilter", "add_alt")
    for p in paths(prog, "BloomFilter", f):
        incs = [e for e in p.events if e.kind == "setfield" and e.name == "_els_added" and e.base == SELF]
        if len(incs) != 1 or incs[0].loops or canon(incs[0].value) != canon(("bin", "+", ("f", SELF, "_els_added", 0), C(1))):
            rep.bad(rid, "BloomFilter.add_alt", "sub-filter counter", "a sub-filter's counter does not move by exactly one per add_alt, outside the hash loop", f.where())
            return
    rep.ok(rid, "BloomFilter.add_alt: _els_added += 1 once, outside the loop")


def check(prog, rep, tier):
    rep.extra["explanation"] = EXPL
    ctx = "ExpandingBloomFilter"
    rep.rule("C09.counter-dominates", "elements_added += 1 exactly once on every path of add_alt", floor=1)
    rep.rule("C09.insert-condition", "insertion into the newest sub-filter exactly when force or not present", floor=1)
    rep.rule("C09.growth-precedes-insert", "the growth check runs once, before the insertion", floor=1)
    rep.rule("C09.growth-predicate", "grow => count >= est ; not grow => count < est (orderings under count <= est)", floor=1)
    rep.rule("C09.append", "growth appends one sub-filter sized with the filter's own est_elements", floor=1)
    rep.rule("C09.sub-counter", "a sub-filter counts one per add_alt", floor=1)
    rep.assume("inductive hypothesis: newest.count <= est_elements before every add (base: fresh sub-filter has 0; step: this rule)")
    f, rows, shape_ok = add_alt_shape(prog, rep, "C09", ctx, "_added_elements")
    est = ("f", SELF, "_ExpandingBloomFilter__est_elements", 0)
    count = ("f", NEWEST, "_els_added", 0)
    where = f"{ctx}.add_alt"
    H = {LT, EQ}
    good = shape_ok
    okapp = None
    for p, ins, ops in rows:
        if ins is None:
            continue
        # what is known about newest.count vs est when the key goes in
        # (the limit may be read from the filter or from the newest sub-filter itself: C09.append makes every sub-filter carry the filter's est_elements)
        cs_ = [strip_epochs(c) for c in conds_at(p, ins)]
        o = path_orderings(cs_, count, est) & path_orderings(cs_, count, ("f", NEWEST, "_est_elements", 0)) & H
        names = [x[0] for x in ops]
        if names == ["append"]:
            if not o <= {EQ}:
                rep.bad("C09.growth-predicate", where, f"grows with count vs est in {sorted(o)}",
                        f"the filter grows on a path where newest.count vs est_elements may be {sorted(o)}: it grows before the newest sub-filter is full", ops[0][1].where())
                good = False
            ok1 = appended_ok(rep, "C09.append", where, p, f, "_ExpandingBloomFilter__est_elements")
            okapp = ok1 if okapp is None else (okapp and ok1)
        elif names == []:
            if not o <= {LT}:
                rep.bad("C09.growth-predicate", where, f"no growth with count vs est in {sorted(o)}",
                        f"no growth on a path where newest.count vs est_elements may be {sorted(o)}: a sub-filter can receive more than est_elements insertions", ins.where())
                good = False
        else:
            rep.bad("C09.growth-predicate", where, f"list operations {names}", f"an insertion is preceded by {names} on the sub-filter list; only one append (growth) is allowed", ops[0][1].where())
            good = False
    if good and rows:
        rep.ok("C09.growth-predicate", f"{where}: grow iff newest.count >= est, decided before the insertion")
    if okapp:
        rep.ok("C09.append", f"{where}: growth appends one BloomFilter(est_elements=self est)")
    elif okapp is None and shape_ok:
        rep.bad("C09.append", where, "never grows", "no path of add_alt appends a new sub-filter", f.where())
    sub_counter_once(prog, rep, "C09.sub-counter")


from ..selftest import Mutant, del_stmt, insert_stmt, replace_expr, replace_stmt, swap_cmp, seq

_E, _B = "blooms/expandingbloom.py", "blooms/bloom.py"
MUTANTS = [
    Mutant("__check_for_growth >= -> >", _E, swap_cmp("ExpandingBloomFilter", "__check_for_growth", _ast.GtE, _ast.Gt), rule="C09.growth-predicate"),
    Mutant("__check_for_growth >= est - 1", _E, replace_expr("ExpandingBloomFilter", "__check_for_growth", "self.__est_elements", "self.__est_elements - 1"), rule="C09.growth-predicate"),
    Mutant("growth check moved after the insert", _E,
           replace_stmt("ExpandingBloomFilter", "add_alt", "if force or not self.check_alt(hashes)", "if force or not self.check_alt(hashes):\n    self._blooms[-1].add_alt(hashes)\n    self.__check_for_growth()"), rule="C09.growth-precedes"),
    Mutant("counter increment moved inside the if", _E,
           replace_stmt("ExpandingBloomFilter", "add_alt", "self._added_elements += 1", "pass"), rule="C09.counter"),
    Mutant("duplicate suppression dropped", _E, replace_expr("ExpandingBloomFilter", "add_alt", "force or not self.check_alt(hashes)", "True"), rule="C09.insert"),
    Mutant("force ignored", _E, replace_expr("ExpandingBloomFilter", "add_alt", "force or not self.check_alt(hashes)", "not self.check_alt(hashes)"), rule="C09.insert"),
    Mutant("presence scan skipped while the whole filter is empty (same result)", _E, replace_expr("ExpandingBloomFilter", "add_alt", "force or not self.check_alt(hashes)",
           "force or (len(self._blooms) == 1 and self._blooms[-1].elements_added == 0) or not self.check_alt(hashes)"), expect="silent"),
    Mutant("presence scan skipped whenever the newest sub-filter is empty", _E, replace_expr("ExpandingBloomFilter", "add_alt", "force or not self.check_alt(hashes)",
           "force or self._blooms[-1].elements_added == 0 or not self.check_alt(hashes)"), rule="C09.insert"),
    Mutant("presence scan written out in add_alt, empty sub-filters skipped (same result)", _E, replace_stmt("ExpandingBloomFilter", "add_alt", "if force or not self.check_alt(hashes)",
           "if not force:\n    for blm in self._blooms:\n        if not blm.elements_added:\n            continue\n        if blm.check_alt(hashes):\n            return\nself.__check_for_growth()\nself._blooms[-1].add_alt(hashes)"), expect="silent"),
    Mutant("presence scan written out in add_alt, stops at the first empty sub-filter", _E, replace_stmt("ExpandingBloomFilter", "add_alt", "if force or not self.check_alt(hashes)",
           "if not force:\n    for blm in self._blooms:\n        if not blm.elements_added:\n            break\n        if blm.check_alt(hashes):\n            return\nself.__check_for_growth()\nself._blooms[-1].add_alt(hashes)"), rule="C09.insert"),
    Mutant("newest sub-filter remembered in a _tail field that every writer of the list refreshes (same behaviour)", _E, seq(
        insert_stmt("ExpandingBloomFilter", "__add_bloom_filter", "self._tail = blm", at_end=True),
        insert_stmt("ExpandingBloomFilter", "_parse_blooms", "self._tail = self._blooms[-1]", at_end=True),
        replace_stmt("ExpandingBloomFilter", "add_alt", "if force or not self.check_alt(hashes)", "if force or not self.check_alt(hashes):\n    self.__check_for_growth()\n    self._tail.add_alt(hashes)"),
        replace_expr("ExpandingBloomFilter", "__check_for_growth", "self._blooms[-1].elements_added", "self._tail.elements_added")), expect="silent"),
    Mutant("newest sub-filter remembered in a _tail field that the loader does not refresh", _E, seq(
        insert_stmt("ExpandingBloomFilter", "__add_bloom_filter", "self._tail = blm", at_end=True),
        replace_stmt("ExpandingBloomFilter", "add_alt", "if force or not self.check_alt(hashes)", "if force or not self.check_alt(hashes):\n    self.__check_for_growth()\n    self._tail.add_alt(hashes)"),
        replace_expr("ExpandingBloomFilter", "__check_for_growth", "self._blooms[-1].elements_added", "self._tail.elements_added")), rule="C09."),
    Mutant("sub-filter built for 2*est", _E, replace_expr("ExpandingBloomFilter", "__add_bloom_filter", "self.__est_elements", "self.__est_elements * 2"), rule="C09.append"),
    Mutant("BloomFilter.add_alt counts per hash", _B,
           replace_stmt("BloomFilter", "add_alt", "self._els_added += 1", "pass"), rule="C09.sub-counter"),
    Mutant("growth compares total instead of newest", _E, replace_expr("ExpandingBloomFilter", "__check_for_growth", "self._blooms[-1].elements_added", "self.elements_added"), rule="C09.growth-predicate"),
    Mutant("__check_for_growth spelled == (same under the hypothesis)", _E, swap_cmp("ExpandingBloomFilter", "__check_for_growth", _ast.GtE, _ast.Eq), expect="silent"),
    Mutant("__check_for_growth spelled not < (same meaning)", _E,
           replace_expr("ExpandingBloomFilter", "__check_for_growth", "self._blooms[-1].elements_added >= self.__est_elements", "not self._blooms[-1].elements_added < self.__est_elements"), expect="silent"),
]
