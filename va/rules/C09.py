"""C09 / C10 shared machinery and the C09 check: expanding Bloom filter grows exactly when its newest filter is full."""
from __future__ import annotations

import ast as _ast

from ..common import all_conds, conds_at, nshow, outer_field, paths
from ..expr import C, SELF, canon, norm, show, strip_epochs, walk
from ..intervals import EQ, GT, LT, path_orderings
from ..model import AnalysisError

EXPL = ("Path-shape and ordering-set rules on ExpandingBloomFilter.add_alt / __check_for_growth / __add_bloom_filter and "
        "BloomFilter.add_alt: the total counter is incremented exactly once on every path; insertion into the newest sub-filter "
        "happens exactly on the paths with force or not-present; the growth check precedes the insertion; the growth predicate, "
        "judged by the orderings it admits under the inductive hypothesis newest.count <= est, grows only at count >= est and "
        "never lets count reach est without growing; growth appends a sub-filter built with the filter's own est_elements; a "
        "sub-filter counts one per add_alt, outside its hash loop.")
FILES = ["blooms/expandingbloom.py", "blooms/bloom.py"]
BLOOMS = ("f", SELF, "_blooms", 0)
NEWEST = ("sub", BLOOMS, C(-1), 0)


def list_ops(prog, ctx, p, appenders):
    """operations on the sub-filter list along a path: 'append' / ('pop', arg) / 'other:<name>'"""
    ops = []
    for e in p.events:
        if e.kind == "call" and e.target is not None and e.target.qualname in appenders:
            ops.append(("append", e))
        elif e.kind == "call" and e.target is None and e.recv is not None and strip_epochs(e.recv) == BLOOMS and e.d.get("mutates"):
            if e.name == "append":
                ops.append(("append", e))
            elif e.name == "pop":
                a = strip_epochs(e.args[0]) if e.args else None
                ops.append(("pop0" if a == C(0) else f"pop({nshow(a) if a else ''})", e))
            else:
                ops.append((f"other:{e.name}", e))
        elif e.kind in ("setfield",) and e.name == "_blooms" and e.base == SELF:
            ops.append(("rebind", e))
        elif e.kind == "setelem" and strip_epochs(e.cont) == BLOOMS:
            ops.append(("setitem", e))
    return ops


def appender_ok(prog, rep, rid, ctx, f, est_field):
    """__add_bloom_filter appends exactly one new BloomFilter built with the filter's own est_elements"""
    ps = [p for p in paths(prog, ctx, f) if p.exit[0] == "return"]
    for p in ps:
        news = [e for e in p.events if e.kind == "new" and e.cls == "BloomFilter"]
        apps = [e for e in p.events if e.kind == "call" and e.target is None and e.name == "append" and e.recv is not None and strip_epochs(e.recv) == BLOOMS]
        if len(news) != 1 or len(apps) != 1 or apps[0].args[0] != news[0].obj:
            rep.bad(rid, f"{ctx}.{f.src_name}", "append shape", "growth does not append exactly one freshly built sub-filter at the end of the list", f.where())
            return False
        got = dict(news[0].kwargs)
        if news[0].args:
            got["est_elements"] = news[0].args[0]
        names = ["est_elements", "false_positive_rate", "filepath", "hex_string", "hash_function"]
        for i, a_ in enumerate(news[0].args):
            got[names[i]] = a_
        est = strip_epochs(got.get("est_elements", C(None)))
        if est != ("f", SELF, est_field, 0):
            rep.bad(rid, f"{ctx}.{f.src_name}", f"est_elements = {nshow(est)}", "a new sub-filter is not sized with the filter's own est_elements", news[0].where())
            return False
        for k, fld in (("false_positive_rate", "_ExpandingBloomFilter__fpr"), ("hash_function", "_ExpandingBloomFilter__hash_func")):
            v = strip_epochs(got.get(k, C(None)))
            if v != ("f", SELF, fld, 0):
                rep.bad(rid, f"{ctx}.{f.src_name}", f"{k} = {nshow(v)}",
                        f"a new sub-filter is built with {k} = {nshow(v)}, not the filter's own: keys hashed for one sub-filter are not valid for the next", news[0].where())
                return False
    rep.ok(rid, f"{ctx}.{f.src_name}: appends one BloomFilter(est_elements=self est)")
    return True


def count_est_orderings(conds, count, est):
    return path_orderings(conds, count, est)


def add_alt_shape(prog, rep, prefix, ctx, grow_fn_name, counter):
    """counter +1 exactly once on every path; insert <=> force or not present; growth call precedes insert"""
    f = prog.method(ctx, "add_alt")
    ps = paths(prog, ctx, f)
    rep.analysed(f, ctx, len(ps))
    where = f"{ctx}.add_alt"
    good = True
    grow = prog.method(ctx, grow_fn_name)
    rows = set()
    for p in ps:
        if p.exit[0] == "raise":
            continue
        incs = [e for e in p.events if e.kind == "setfield" and e.name == counter and e.base == SELF]
        if len(incs) != 1 or canon(incs[0].value) != canon(("bin", "+", ("f", SELF, counter, 0), C(1))):
            rep.bad(f"{prefix}.counter-dominates", where, "total counter", "elements_added is not incremented exactly once by one on every path of add_alt", f.where())
            good = False
            break
        force = None
        present = None
        for c in p.conds:
            a = strip_epochs(c.atom)
            if a == ("p", "force"):
                force = c.truth
            elif a[0] == "ret" and a[1].endswith(".check_alt") and a[3] == (SELF, ("p", "hashes")):
                present = c.truth
            elif a[0] != "loop0":
                rep.bad(f"{prefix}.insert-condition", where, f"decision {nshow(a)}", f"add_alt decides on {nshow(a)}; only force and check_alt(hashes) may decide", f.where(c.node))
                good = False
        ins = [i for i, e in enumerate(p.events) if e.kind == "call" and e.name == "add_alt" and e.recv is not None and strip_epochs(e.recv) == NEWEST]
        other_ins = [e for e in p.events if e.kind == "call" and e.name in ("add_alt", "add") and e.recv is not None and strip_epochs(e.recv) != NEWEST
                     and strip_epochs(e.recv) != SELF]
        if other_ins:
            rep.bad(f"{prefix}.insert-condition", where, f"insert into {nshow(other_ins[0].recv)}", "insertion does not go to the newest sub-filter", other_ins[0].where())
            good = False
        should = (force is True) or (force is not True and present is False)
        known = force is True or present is not None
        if not known:
            rep.bad(f"{prefix}.insert-condition", where, "undecided path", "a path of add_alt neither forces nor checks presence", f.where())
            good = False
            continue
        rows.add((force, present, bool(ins)))
        if not ins and force is not False:
            rep.bad(f"{prefix}.insert-condition", where, f"force={force} present={present} not inserted",
                    "a path skips the insertion without having tested force: a forced add of a key already reported present inserts nothing", f.where())
            good = False
            continue
        if bool(ins) != should or len(ins) > 1:
            rep.bad(f"{prefix}.insert-condition", where, f"force={force} present={present} inserted={len(ins)}",
                    f"with force={force}, present={present} the key is inserted {len(ins)} time(s); expected insertion exactly when force or not present", f.where())
            good = False
            continue
        gcalls = [i for i, e in enumerate(p.events) if e.kind == "call" and e.target is grow]
        if ins:
            if len(gcalls) != 1 or gcalls[0] > ins[0]:
                rep.bad(f"{prefix}.growth-precedes-insert", where, "order", f"{grow_fn_name} does not run exactly once before the insertion into the newest sub-filter", f.where())
                good = False
            if any(e.kind == "setfield" and e.name == counter for e in p.events[:0]):
                pass
        elif gcalls:
            rep.bad(f"{prefix}.growth-precedes-insert", where, "growth without insertion", "the filter may grow on a path that inserts nothing", f.where())
            good = False
    if good:
        rep.ok(f"{prefix}.counter-dominates", where)
        rep.ok(f"{prefix}.insert-condition", f"{where}: rows {sorted(map(str, rows))}")
        rep.ok(f"{prefix}.growth-precedes-insert", where)
    return good


def sub_counter_once(prog, rep, rid):
    f = prog.method("BloomFilter", "add_alt")
    for p in paths(prog, "BloomFilter", f):
        incs = [e for e in p.events if e.kind == "setfield" and e.name == "_els_added" and e.base == SELF]
        if len(incs) != 1 or incs[0].loops or canon(incs[0].value) != canon(("bin", "+", ("f", SELF, "_els_added", 0), C(1))):
            rep.bad(rid, "BloomFilter.add_alt", "sub-filter counter", "a sub-filter's counter does not move by exactly one per add_alt, outside the hash loop", f.where())
            return
    rep.ok(rid, "BloomFilter.add_alt: _els_added += 1 once, outside the loop")


def check(prog, rep, tier):
    rep.extra["explanation"] = EXPL
    ctx = "ExpandingBloomFilter"
    rep.rule("C09.counter-dominates", "elements_added += 1 exactly once on every path of add_alt", floor=1)
    rep.rule("C09.insert-condition", "insertion into the newest sub-filter exactly when force or not present", floor=1)
    rep.rule("C09.growth-precedes-insert", "the growth check runs once, before the insertion", floor=1)
    rep.rule("C09.growth-predicate", "grow => count >= est ; not grow => count < est (orderings under count <= est)", floor=1)
    rep.rule("C09.append", "growth appends one sub-filter sized with the filter's own est_elements", floor=1)
    rep.rule("C09.sub-counter", "a sub-filter counts one per add_alt", floor=1)
    rep.assume("inductive hypothesis: newest.count <= est_elements before every add (base: fresh sub-filter has 0; step: this rule)")
    add_alt_shape(prog, rep, "C09", ctx, "__check_for_growth", "_added_elements")
    est = ("f", SELF, "_ExpandingBloomFilter__est_elements", 0)
    count = ("f", NEWEST, "_els_added", 0)
    g = prog.method(ctx, "__check_for_growth")
    adder = prog.method(ctx, "__add_bloom_filter")
    ps = [p for p in paths(prog, ctx, g) if p.exit[0] == "return"]
    rep.analysed(g, ctx, len(ps))
    H = {LT, EQ}
    good = True
    for p in ps:
        ops = list_ops(prog, ctx, p, {adder.qualname})
        o = path_orderings([strip_epochs(c) for c in all_conds(p)], count, est) & H
        names = [x[0] for x in ops]
        if names == ["append"]:
            if not o <= {EQ}:
                rep.bad("C09.growth-predicate", f"{ctx}.__check_for_growth", f"grows with count vs est in {sorted(o)}",
                        f"the filter grows on a path where newest.count vs est_elements may be {sorted(o)}: it grows before the newest sub-filter is full", ops[0][1].where())
                good = False
        elif names == []:
            if not o <= {LT}:
                rep.bad("C09.growth-predicate", f"{ctx}.__check_for_growth", f"no growth with count vs est in {sorted(o)}",
                        f"no growth on a path where newest.count vs est_elements may be {sorted(o)}: a sub-filter can receive more than est_elements insertions", g.where())
                good = False
        else:
            rep.bad("C09.growth-predicate", f"{ctx}.__check_for_growth", f"list operations {names}", f"the growth check performs {names} on the sub-filter list", ops[0][1].where())
            good = False
    if good:
        rep.ok("C09.growth-predicate", f"{ctx}.__check_for_growth: grow iff newest.count >= est")
    appender_ok(prog, rep, "C09.append", ctx, adder, "_ExpandingBloomFilter__est_elements")
    sub_counter_once(prog, rep, "C09.sub-counter")


from ..selftest import Mutant, del_stmt, insert_stmt, replace_expr, replace_stmt, swap_cmp

_E, _B = "blooms/expandingbloom.py", "blooms/bloom.py"
MUTANTS = [
    Mutant("__check_for_growth >= -> >", _E, swap_cmp("ExpandingBloomFilter", "__check_for_growth", _ast.GtE, _ast.Gt), rule="C09.growth-predicate"),
    Mutant("__check_for_growth >= est - 1", _E, replace_expr("ExpandingBloomFilter", "__check_for_growth", "self.__est_elements", "self.__est_elements - 1"), rule="C09.growth-predicate"),
    Mutant("growth check moved after the insert", _E,
           replace_stmt("ExpandingBloomFilter", "add_alt", "if force or not self.check_alt(hashes)", "if force or not self.check_alt(hashes):\n    self._blooms[-1].add_alt(hashes)\n    self.__check_for_growth()"), rule="C09.growth-precedes"),
    Mutant("counter increment moved inside the if", _E,
           replace_stmt("ExpandingBloomFilter", "add_alt", "self._added_elements += 1", "pass"), rule="C09.counter"),
    Mutant("duplicate suppression dropped", _E, replace_expr("ExpandingBloomFilter", "add_alt", "force or not self.check_alt(hashes)", "True"), rule="C09.insert"),
    Mutant("force ignored", _E, replace_expr("ExpandingBloomFilter", "add_alt", "force or not self.check_alt(hashes)", "not self.check_alt(hashes)"), rule="C09.insert"),
    Mutant("sub-filter built for 2*est", _E, replace_expr("ExpandingBloomFilter", "__add_bloom_filter", "self.__est_elements", "self.__est_elements * 2"), rule="C09.append"),
    Mutant("BloomFilter.add_alt counts per hash", _B,
           replace_stmt("BloomFilter", "add_alt", "self._els_added += 1", "pass"), rule="C09.sub-counter"),
    Mutant("growth compares total instead of newest", _E, replace_expr("ExpandingBloomFilter", "__check_for_growth", "self._blooms[-1].elements_added", "self.elements_added"), rule="C09.growth-predicate"),
    Mutant("__check_for_growth spelled == (same under the hypothesis)", _E, swap_cmp("ExpandingBloomFilter", "__check_for_growth", _ast.GtE, _ast.Eq), expect="silent"),
    Mutant("__check_for_growth spelled not < (same meaning)", _E,
           replace_expr("ExpandingBloomFilter", "__check_for_growth", "self._blooms[-1].elements_added >= self.__est_elements", "not self._blooms[-1].elements_added < self.__est_elements"), expect="silent"),
]
