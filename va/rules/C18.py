"""C18 - hash strategies are deterministic, prefix-stable and match reference FNV-1a."""
from __future__ import annotations

import ast as _ast

from ..common import OPAQUE, nshow
from ..effects import Effects
from ..expr import C, canon, first_diff, mapx, norm, rowform, show, strip_epochs, walk
from ..model import AnalysisError
from ..walk import Walker

EXPL = ("The seven hash functions of hashes.py (fnv_1a, fnv_1a_32, default_fnv_1a, the two decorator closures and the wrapped "
        "md5/sha256 digests) are analysed from source: purity (empty write effect, calls only to digest/unpack/ord/list/map/range/"
        "encode and the wrapped function); exactly depth values (one append to the fresh result list per iteration of "
        "range(depth), or one before plus range(1, depth)); prefix stability as non-interference (depth reaches nothing but the "
        "loop bound); range (every returned FNV value is masked to 64/32 bits, digests are read as 'Q' from 8 bytes); the "
        "published FNV-1a constants and kernel ((h ^ byte) * prime mod 2^w, basis + 31*seed); text keys (utf-8 before the first "
        "digest; FNV maps str through ord and bytes through list).")
FILES = ["hashes.py"]
FNV = {
    "fnv_1a": (14695981039346656037, 1099511628211, 2**64),
    "fnv_1a_32": (0x811C9DC5, 0x01000193, 2**32),
}
ALLOWED_CALLS = {"md5", "sha256", "digest", "unpack", "ord", "list", "tuple", "map", "range", "isinstance", "encode", "decode", "append", "<slot>", "len", "enumerate", "zip",
                 "fnv_1a", "default_md5", "default_sha256", "wraps", "format", "hex", "int", "bytes", "str", "min", "max", "isascii", "isinstance", "fnv_1a_32"}


def _walker(prog):
    """helpers that are not functions of the pinned tree are inlined (see anchors.py)"""
    w = Walker(prog, None, inline="deep", opaque=OPAQUE)
    w.memo_transparent = True  # a memoised helper is looked through here; memo_rule() checks what makes that sound
    return w


def resolve_phi(v, atom, truth):
    """v with every conditional expression on `atom` decided"""
    def f(n):
        if n[0] == "phi":
            c = strip_epochs(n[1])
            if c == atom:
                return n[2] if truth else n[3]
            if c == ("un", "not", atom):
                return n[3] if truth else n[2]
        return None
    return mapx(v, f)


_LATIN1 = {"latin-1", "latin1", "latin_1", "iso-8859-1", "iso8859-1", "l1", "8859", "cp819"}


def _latin1_units(v, lid):
    """ord() of a character of bytes.decode('latin-1') is the byte itself (that codec maps byte b to code point b, one character per byte):
    ord(elem<b.decode('latin-1')>) -> elem<b>.  Any other codec (the default UTF-8 included) groups or rejects bytes and is left alone"""
    def f(n):
        if n[0] == "call" and n[1] == ("g", "ord") and len(n[2]) == 1 and n[2][0][0] == "it" and n[2][0][1] == lid:
            d = strip_epochs(n[2][0][2])
            if d[0] == "call" and d[1][0] == "m" and d[1][2] == "decode":
                enc = d[2][0] if d[2] else dict(d[3]).get("encoding")
                if enc is not None and enc[0] == "c" and isinstance(enc[1], str) and enc[1].lower() in _LATIN1:
                    return ("it", lid, d[1][1])
        return None
    return mapx(v, f)


def memo_rule(prog, rep):
    """a memoised function hands the SAME object to every caller: it must be a pure function of hashable arguments whose result is
    immutable (else one caller's in-place change shows up in the next call's answer)"""
    from ..walk import _memo_decorator
    w = _walker(prog)
    mod = [m for m in prog.modules.values() if m.relpath.endswith("hashes.py")]
    for m in mod:
        for f in m.functions.values():
            if not any(_memo_decorator(d) for d in f.decorators):
                continue
            ps = [p for p in w.run(f) if p.exit[0] == "return"]
            bad = None
            for p in ps:
                v = strip_epochs(p.exit[1])
                immut = v[0] in ("tup", "c", "bin", "nary", "unp") or (v[0] == "call" and v[1] in (("g", "tuple"), ("g", "int"), ("g", "bytes"), ("g", "str"), ("g", "frozenset")))
                if not immut:
                    bad = (p, v)
                for e in p.events:
                    if e.kind in ("setfield", "setelem") and (e.d.get("base", e.d.get("cont")) or ("x",))[0] not in ("new", "newb"):
                        bad = (p, ("c", "writes non-local state"))
            if bad:
                rep.bad("C18.pure", f.src_name, f"memoised, returns {nshow(bad[1])}",
                        f"{f.src_name} is memoised and returns {nshow(bad[1])}: every caller receives the same mutable object, so a caller that changes its result in place changes "
                        "what the next call with the same arguments returns", f.where())
            else:
                rep.ok("C18.pure", f"{f.src_name}: memoised, pure, immutable result")


class _Fused:
    """a path seen through map fusion (see _fuse): exit and events are replaced, everything else is the path's own"""

    def __init__(self, p, exit_, events):
        self._p, self.exit, self.events = p, exit_, events

    def __getattr__(self, k):
        return getattr(self._p, k)


def _fuse(p):
    """a result written as [E(x) for x in L] over a local list L that the path only ever appends to is the list of E(a) for the appended
    values a, in order: the appends are shown with E applied and L as the result, so the rules below see one value per append"""
    import dataclasses
    if p.exit[0] != "return":
        return p
    res = p.exit[1]
    if not (res[0] == "comp" and res[1] == "list" and len(res[3]) == 1 and not res[3][0][3]):
        return p
    lid, L = res[3][0][1], res[3][0][2]
    if not (L[0] == "newb" and L[1] == "list" and not L[3]):
        return p
    var = strip_epochs(("it", lid, L))
    evs = []
    for e in p.events:
        if lid in e.loops:
            continue  # the comprehension's own bookkeeping
        if e.kind == "call" and e.d.get("recv") == L:
            if e.name == "append" and len(e.args) == 1:
                a = e.args[0]
                evs.append(dataclasses.replace(e, d=dict(e.d, args=[mapx(res[2], lambda n: a if strip_epochs(n) == var else None)])))
                continue
            if e.d.get("mutates"):
                return p
        elif e.kind in ("call", "setfield", "setelem") and any(n == L for v in (list(e.d.get("args") or []) + [e.d.get("value")]) if isinstance(v, tuple) for n in walk(v)):
            return p  # the list is handed elsewhere before it is mapped
        evs.append(e)
    return _Fused(p, ("return", L) + tuple(p.exit[2:]), evs)


def runs(prog):
    out = _runs(prog)
    return {k: (f, [_fuse(p) for p in ps]) for k, (f, ps) in out.items()}


def _runs(prog):
    w = _walker(prog)
    out = {}
    for n in ("fnv_1a", "fnv_1a_32", "default_fnv_1a"):
        f = prog.function(n)
        out[n] = (f, w.run(f))
    hb = prog.function("hash_with_depth_bytes").nested.get("hashing_func")
    hi = prog.function("hash_with_depth_int").nested.get("hashing_func")
    if hb is None or hi is None:
        raise AnalysisError("anchor vanished: decorator closures hashing_func")
    out["bytes-decorator"] = (hb, w.run(hb, args={"func": ("p", "func")}))
    out["int-decorator"] = (hi, w.run(hi, args={"func": ("p", "func")}))
    for n in ("default_md5", "default_sha256"):
        f = prog.function(n)
        out[n] = (f, w.run(f))
        if "hash_with_depth_bytes" not in f.decorators:
            raise AnalysisError(f"anchor vanished: {n} is not built with hash_with_depth_bytes")
    return out


def kernel_rules(prog, rep, rid_prefix="C18"):
    """FNV-1a constants and kernel; shared with C06"""
    w = _walker(prog)
    for name, (basis, prime, mod) in FNV.items():
        f = prog.function(name)
        ps = w.run(f)
        rep.analysed(f, None, len(ps))
        seed, key = ("p", "seed"), ("p", "key")
        init = canon(norm(("bin", "&", ("bin", "+", C(basis), ("bin", "*", C(31), seed)), C(mod - 1))))
        isstr_atom = ("call", ("g", "isinstance"), (key, ("g", "str")), ())
        good = True
        for p in ps:
            if p.exit[0] != "return":
                continue
            rv = strip_epochs(p.exit[1])
            if rv[0] != "hv":
                # no round ran: the result must be the seeded offset basis
                if first_diff(init, canon(rv)) is not None:
                    looped = any(e.loops for e in p.events)
                    rep.bad(f"{rid_prefix}.fnv-kernel", name, f"returns {nshow(rv)}",
                            "the function does not return the accumulator" if looped else
                            f"an empty key does not hash to the seeded offset basis ({hex(basis)} + 31*seed) mod 2^{mod.bit_length() - 1}", f.where())
                    good = False
                    break
                continue
            acc, lid = rv[1], rv[2].rstrip("+")
            li = [e for e in p.events if e.kind == "loopinit" and e.name == acc and e.lid == lid]
            if not li or first_diff(init, canon(li[0].value)) is not None:
                rep.bad(f"{rid_prefix}.fnv-kernel", name, "offset basis",
                        f"the accumulator does not start at ({hex(basis)} + 31*seed) mod 2^{mod.bit_length() - 1}", (li[0].where() if li else f.where()))
                good = False
                break
            inl = [e for e in p.events if e.kind == "bind" and e.loops and e.loops[-1] == lid and e.name == acc]
            if not inl:
                rep.bad(f"{rid_prefix}.fnv-kernel", name, "no round", "the loop body does not update the accumulator", f.where())
                good = False
                break
            last = inl[-1].value
            hvv = ("hv", acc, lid)
            elem = [n for n in walk(last) if n[0] == "it" and n[1] == lid]
            # the unit mixed in is the loop element, or ord() of it when the loop walks text
            elem = [("call", ("g", "ord"), (x,), ()) if any(n == ("call", ("g", "ord"), (x,), ()) for n in walk(last)) else x for x in elem]
            if not elem:
                rep.bad(f"{rid_prefix}.fnv-kernel", name, "no byte consumed", "the loop body does not mix in the next byte", inl[-1].where())
                good = False
                break
            want = norm(("bin", "&", ("bin", "*", ("bin", "^", hvv, elem[0]), C(prime)), C(mod - 1)))
            d = first_diff(canon(want), canon(last))
            if d is not None:
                rep.bad(f"{rid_prefix}.fnv-kernel", name, f"round = {nshow(last)}",
                        f"one round computes {nshow(last)}; FNV-1a is ((h ^ byte) * {hex(prime)}) mod 2^{mod.bit_length() - 1} ({d[1]} differs)", inl[-1].where())
                good = False
                break
            # bytes: str -> code point per character, bytes -> the byte values
            el = _latin1_units(strip_epochs(rowform(elem[0])), lid)
            e_bytes = ("it", lid, key)
            e_str = ("call", ("g", "ord"), (e_bytes,), ())
            isstr = [c for c in p.conds if strip_epochs(c.atom) == isstr_atom]
            cases = [(isstr[0].truth,)] if isstr else [(True,), (False,)]
            okdom = all(_latin1_units(resolve_phi(el, isstr_atom, t), lid) == (e_str if t else e_bytes) for (t,) in cases)
            if not okdom:
                rep.bad(f"{rid_prefix}.text-keys", name, f"consumes {nshow(el)}", "the key is not consumed as its bytes / code points (each byte of a bytes key, ord() of each character of a str key)", f.where())
                good = False
                break
        if good:
            rep.ok(f"{rid_prefix}.fnv-kernel", f"{name}: basis {hex(basis)} + 31*seed, ((h ^ b) * {hex(prime)}) mod 2^{mod.bit_length() - 1}")
            rep.ok(f"{rid_prefix}.text-keys", f"{name}: bytes via list(key), str via ord")
    # depth loop passes the index as seed
    f = prog.function("default_fnv_1a")
    ps = w.run(f)
    okd = False
    for p in ps:
        cands = [e.args[0] for e in p.events if e.kind == "call" and e.name == "append" and e.loops and e.args]
        cwhere = [e for e in p.events if e.kind == "call" and e.name == "append" and e.loops and e.args]
        if p.exit[0] == "return" and p.exit[1][0] == "comp":
            cands = [p.exit[1][2]]
            cwhere = [e for e in p.events if e.kind == "return"]
        for a_, e in zip(cands, cwhere):
            if True:
                a = strip_epochs(a_)
                okd = a[0] == "ret" and a[1].endswith(".fnv_1a") and a[3][0] == ("p", "key") and a[3][1][0] == "it" and \
                    strip_epochs(a[3][1][2]) == ("call", ("g", "range"), (("p", "depth"),), ())
                if not okd:
                    rep.bad(f"{rid_prefix}.fnv-kernel", "default_fnv_1a", f"appends {nshow(a)}",
                            f"element i of the default strategy is {nshow(a)}, not fnv_1a(key, i)", e.where())
                    return
    if okd:
        rep.ok(f"{rid_prefix}.fnv-kernel", "default_fnv_1a: element i = fnv_1a(key, i)")
    else:
        rep.bad(f"{rid_prefix}.fnv-kernel", "default_fnv_1a", "no element", "the default strategy appends nothing per index", f.where())


def check(prog, rep, tier):
    rep.extra["explanation"] = EXPL
    rep.rule("C18.pure", "no write effect; only digest / unpack / ord / list / map / range / encode / wrapped function are called", floor=7)
    rep.rule("C18.exactly-depth", "exactly depth values are returned", floor=3)
    rep.rule("C18.prefix-stable", "depth flows only into the loop bound", floor=3)
    rep.rule("C18.range", "returned values are unsigned 64-bit (FNV masked, digests read as 'Q' of 8 bytes)", floor=3)
    rep.rule("C18.fnv-kernel", "published FNV-1a constants and kernel; index used as seed", floor=3)
    rep.rule("C18.int-chain", "the int decorator hashes the key itself in round 0 and the lower-case hex of the previous value in every later round, with the round index as seed", floor=1)
    rep.rule("C18.text-keys", "text keys hash like their UTF-8 bytes (md5/sha256) / code points (FNV, equal for ASCII)", floor=3)
    rep.assume("a function wrapped by the decorators is itself pure (user contract); md5/sha256 are the hashlib functions")
    R = runs(prog)
    E = Effects(prog)
    memo_rule(prog, rep)
    # purity
    for name, (f, ps) in R.items():
        rep.analysed(f, None, len(ps))
        calls = set()
        bad = None
        for p in ps:
            for e in p.events:
                if e.kind == "call":
                    if e.d.get("inlined"):
                        continue
                    calls.add(e.name)
                    if e.name == "append" and (e.recv is None or e.recv[0] not in ("newb", "lst")):
                        bad = (e, "appends to something other than its fresh result list")
                    if e.d.get("mutates") and e.recv is not None and e.recv[0] not in ("newb", "lst") and e.name != "append":
                        bad = (e, f"calls mutating {e.name}() on {nshow(e.recv)}")
                elif e.kind in ("setfield", "setelem"):
                    r = e.d.get("base", e.d.get("cont"))
                    if r is None or r[0] not in ("newb", "new"):
                        bad = (e, "writes non-local state")
        extra = {c for c in calls if c not in ALLOWED_CALLS}
        from ..common import iterator_reuse
        for p in ps:
            for (e_, v_) in iterator_reuse(p):
                bad = bad or (e_, f"consumes the one-shot iterator {nshow(v_)} once per round although it was created before the loop: after the first round it is "
                                  "exhausted, so every later element is computed from an empty key")
        if bad:
            rep.bad("C18.pure", name, bad[1], f"{name} {bad[1]}: repeated calls can return different values", bad[0].where())
        elif extra:
            rep.bad("C18.pure", name, f"calls {sorted(extra)}", f"{name} calls {sorted(extra)}, outside the pure set: the result may depend on more than (key, depth)", f.where())
        else:
            rep.ok("C18.pure", f"{name}: calls {sorted(calls)}")
    int_chain_rule(rep, R)
    # exactly depth values + prefix stability
    depth = ("p", "depth")
    for name in ("default_fnv_1a", "bytes-decorator", "int-decorator"):
        f, ps = R[name]
        good = True
        firsts = {}
        for p in ps:
            if p.exit[0] != "return":
                continue
            res = p.exit[1]
            while res[0] == "call" and res[1] in (("g", "list"), ("g", "tuple")) and len(res[2]) == 1 and not res[3]:
                res = res[2][0]  # list(tuple(<one value per index>)): the same values, in order
            if res[0] == "comp" and res[1] in ("list", "gen") and len(res[3]) == 1 and not res[3][0][3]:
                # comprehension form: one element per element of the domain
                r0 = ("call", ("g", "range"), (depth,), ())
                if strip_epochs(res[3][0][2]) != r0:
                    rep.bad("C18.exactly-depth", name, f"comprehension over {nshow(res[3][0][2])}", "the strategy does not build one value per index in range(depth)", f.where())
                    good = False
                    break
                if _mentions_outside_domains(res[2], depth):
                    rep.bad("C18.prefix-stable", name, f"depth flows into {nshow(res[2])}", "element i depends on the requested depth, so a smaller depth is not a prefix", f.where())
                    good = False
                    break
                continue
            if not ((res[0] == "newb" and res[1] == "list") or res[0] == "lst"):
                rep.bad("C18.exactly-depth", name, f"returns {nshow(res)}", "the strategy does not return its freshly built list", f.where())
                good = False
                break
            apps = [e for e in p.events if e.kind == "call" and e.name == "append" and e.recv == res]
            pre = [e for e in apps if not e.loops] + (list(res[1]) if res[0] == "lst" else [])
            inl = [e for e in apps if e.loops]
            loop0 = [c for c in p.conds if c.atom[0] == "loop0"]
            doms = {strip_epochs(c.atom[2]) for c in loop0}
            for e in inl:
                for n in walk(e.args[0]):
                    pass
            # domain of the loop: from the loop symbol bound to idx
            for e in p.events:
                if e.kind == "bind" and e.loops and e.value[0] == "it":
                    doms.add(strip_epochs(e.value[2]))
            r0 = ("call", ("g", "range"), (depth,), ())
            r1 = ("call", ("g", "range"), (C(1), depth), ())
            okshape = (len(pre) == 0 and doms == {r0}) or (len(pre) == 1 and doms == {r1})
            if inl and len(inl) != 1:
                okshape = False
            if not doms and not inl:
                # a path without the loop (a short-cut for one particular depth): it must have established depth == number of values
                okshape = any(c.truth and strip_epochs(c.atom) in (("cmp", "==", depth, C(len(pre))), ("cmp", "==", C(len(pre)), depth)) for c in p.conds)
            if pre:
                e0 = pre[0]
                firsts.setdefault(canon(e0.args[0] if hasattr(e0, "kind") else e0), e0 if hasattr(e0, "kind") else None)
            if not okshape:
                rep.bad("C18.exactly-depth", name, f"{len(pre)} value(s) before the loop, {len(inl)} per iteration of {sorted(nshow(d) for d in doms)}",
                        f"the strategy appends {len(pre)} value(s) before the loop and {len(inl)} per iteration of {sorted(nshow(d) for d in doms)}: "
                        "it does not return exactly depth values", f.where())
                good = False
                break
            # no-flow of depth
            for e in p.events:
                vals = []
                if e.kind == "call" and e.name not in ("range",):
                    vals += list(e.args)
                elif e.kind == "bind" and not (e.value[0] == "it"):
                    vals.append(e.value)
                for v in vals:
                    for n in walk(v):
                        if n == depth and not (n is v and False):
                            # allowed only inside a loop-symbol domain
                            inside = any(m[0] in ("it", "ix") and any(x == depth for x in walk(m[2])) for m in walk(v))
                            direct = _mentions_outside_domains(v, depth)
                            if direct:
                                rep.bad("C18.prefix-stable", name, f"depth flows into {nshow(v)}",
                                        f"depth reaches {nshow(v)}: element i depends on the requested depth, so a smaller depth is not a prefix", e.where())
                                good = False
                                break
                    if not good:
                        break
                if not good:
                    break
            if not good:
                break
        if good and len(firsts) > 1:
            alts = sorted(nshow(x) for x in firsts)
            rep.bad("C18.prefix-stable", name, f"element 0 is one of {alts}",
                    f"element 0 of the result is computed differently on different paths ({' / '.join(alts)}): which one is taken depends on the requested depth, so a smaller depth "
                    "is not a prefix of a larger one", f.where())
            good = False
        if good:
            rep.ok("C18.exactly-depth", name)
            rep.ok("C18.prefix-stable", name)
    # range of digests
    f, ps = R["bytes-decorator"]
    okr = False
    for p in ps:
        for e in p.events:
            if e.kind == "call" and e.name == "append" and e.loops:
                a = strip_epochs(e.args[0])
                okr = a[0] == "unp" and a[1] == "Q" and a[2] == 0 and a[3][0] == "slice" and a[3][2] == C(None) and a[3][3] == C(8)
                if not okr:
                    rep.bad("C18.range", "bytes-decorator", f"appends {nshow(a)}", f"a digest is turned into {nshow(a)}, not into the unsigned 64-bit value of its first 8 bytes", e.where())
    if okr:
        rep.ok("C18.range", "bytes-decorator: unpack('Q', digest[:8])[0]")
    for name, (basis, prime, mod) in FNV.items():
        f, ps = R[name]
        good = True
        for p in ps:
            if p.exit[0] != "return":
                continue
            rv = strip_epochs(p.exit[1])
            if rv[0] == "hv":
                last = [e for e in p.events if e.kind == "bind" and e.loops and e.name == rv[1]]
                rv = strip_epochs(last[-1].value) if last else rv
            if not (rv[0] == "bin" and rv[1] == "%" and rv[3] == C(mod)):
                rep.bad("C18.range", name, f"returns {nshow(rv)}", f"the returned value {nshow(rv)} is not reduced mod 2^{mod.bit_length() - 1}", f.where())
                good = False
                break
        if good:
            rep.ok("C18.range", f"{name}: masked to {mod.bit_length() - 1} bits")
    kernel_rules(prog, rep, "C18")
    # utf-8 before the first digest
    f, ps = R["bytes-decorator"]
    key = ("p", "key")
    want = ("phi", ("un", "not", ("call", ("g", "isinstance"), (key, ("g", "str")), ())), key,
            ("call", ("m", key, "encode"), (C("utf-8"),), ()))
    okt = None
    for p in ps:
        pre = [e for e in p.events if e.kind == "bind" and not e.loops]
        inl = [e for e in p.events if e.kind == "call" and e.name == "<slot>" and e.loops]
        if not inl:
            continue
        arg0 = strip_epochs(inl[0].args[0])
        if arg0[0] != "hv":
            okt = (inl[0], f"the digest input is {nshow(arg0)}, not the running value")
            break
        init = [e for e in pre if e.name == arg0[1]]
        isstr = [c for c in p.conds if strip_epochs(c.atom) == ("call", ("g", "isinstance"), (key, ("g", "str")), ())]
        isa = ("call", ("g", "isinstance"), (key, ("g", "str")), ())
        # what the path already knows about the key's type decides a conditional initial value
        iv = norm(resolve_phi(strip_epochs(init[-1].value), isa, isstr[0].truth)) if init and isstr else None
        stmt_form = iv is not None and ((isstr[0].truth and canon(iv) == canon(want[3])) or (not isstr[0].truth and canon(iv) == canon(want[2])))
        expr_form = bool(init) and canon(resolve_phi(strip_epochs(init[-1].value), isa, True)) == canon(want[3]) \
            and canon(resolve_phi(strip_epochs(init[-1].value), isa, False)) == canon(want[2])
        if not stmt_form and not expr_form and (not init or canon(init[-1].value) != canon(want)):
            okt = (inl[0], f"the first digest is taken over {nshow(init[-1].value) if init else '?'}, not over the key's UTF-8 bytes")
            break
        nxt = [e for e in p.events if e.kind == "bind" and e.loops and e.name == arg0[1]]
        if not nxt or strip_epochs(nxt[-1].value) != strip_epochs(inl[0].result):
            okt = (inl[0], "the next round does not start from the previous digest")
            break
        okt = okt or True
    if okt is True:
        rep.ok("C18.text-keys", "bytes-decorator: str keys are encoded as utf-8 before the first digest; rounds chain on the previous digest")
    elif okt is None:
        rep.bad("C18.text-keys", "bytes-decorator", "no digest round", "the decorator never calls the wrapped function", f.where())
    else:
        rep.bad("C18.text-keys", "bytes-decorator", "text key encoding", okt[1], okt[0].where())
    for n in ("default_md5", "default_sha256"):
        f, ps = R[n]
        algo = n.split("_")[1]
        good = all(p.exit[0] == "return" and strip_epochs(p.exit[1]) == ("call", ("m", ("call", ("ext", "hashlib", algo), (("p", "key"),), ()), "digest"), (), ())
                   for p in ps)
        if good:
            rep.ok("C18.range", f"{n}: {algo}(key).digest()")
        else:
            rep.bad("C18.range", n, f"returns {sorted(nshow(p.exit[1]) for p in ps)}", f"{n} is not hashlib.{algo}(key).digest()", f.where())


def _round_truth(c, it, first):
    """truth of a condition on the round index in round 0 (first) / in a later round; None when the index does not decide it"""
    c = strip_epochs(c)
    if c[0] == "un" and c[1] == "not":
        t = _round_truth(c[2], it, first)
        return None if t is None else not t
    if c == it:
        return not first
    if c[0] == "cmp" and len(c) == 4:
        a, b, op = c[2], c[3], c[1]
        if b == it and a[0] == "c":
            a, b = b, a
            op = {"<": ">", ">": "<", "<=": ">=", ">=": "<="}.get(op, op)
        if a == it and b[0] == "c" and isinstance(b[1], int) and not isinstance(b[1], bool):
            k = b[1]
            lo, hi = (0, 0) if first else (1, None)  # the index is 0 / at least 1
            def holds(x):
                return {"==": x == k, "!=": x != k, "<": x < k, "<=": x <= k, ">": x > k, ">=": x >= k, "is": x == k, "isnot": x != k}.get(op)
            if first:
                return holds(0)
            # later rounds: decided only when the answer is the same for every index >= 1
            vals = {holds(x) for x in (1, 2, max(k - 1, 1), max(k, 1), k + 1, k + 2)}
            return vals.pop() if len(vals) == 1 else None
    return None


def _decide_rounds(v, it, first, subst):
    def f(n):
        if n in subst:
            return subst[n]
        if n[0] == "phi":
            t = _round_truth(n[1], it, first)
            if t is not None:
                return mapx(n[2] if t else n[3], f)
        return None
    return mapx(strip_epochs(v), f)


def _is_hex_of(v, x) -> bool:
    """v is the lower-case hex text of x without prefix: f"{x:x}", format(x, "x"), "%x" % x, "{:x}".format(x), hex(x)[2:]"""
    if v[0] == "fstr" and v[1] == (x,) and len(v) > 2 and v[2] == "{:x}":
        return True
    if v[0] == "call" and v[1] == ("g", "format") and v[2] == (x, C("x")) and not v[3]:
        return True
    if v[0] == "bin" and v[1] == "%" and v[2] == C("%x") and v[3] in (x, ("tup", (x,))):
        return True
    if v[0] == "call" and v[1] == ("m", C("{:x}"), "format") and v[2] == (x,):
        return True
    if v[0] in ("slice", "slc") and len(v) >= 4 and v[1] == ("call", ("g", "hex"), (x,), ()) and v[2] == C(2) and v[3] == C(None):
        return True
    return False


def int_chain_rule(rep, R):
    f, ps = R["int-decorator"]
    key = ("p", "key")
    fn = ("p", "func")
    bad = None
    seen = 0
    for p in ps:
        if p.exit[0] != "return" or bad:
            continue
        calls = [e for e in p.events if e.kind == "call" and e.d.get("fn") == fn]
        pre = [e for e in calls if not e.loops]
        inl = [e for e in calls if e.loops]
        if len(pre) > 1 or len(inl) > 1:
            bad = ((pre + inl)[-1], f"{len(pre)} call(s) of the wrapped function before the loop and {len(inl)} per round")
            break
        for e in pre:
            a = [strip_epochs(x) for x in e.args]
            if len(a) < 2 or a[0] != key or a[1] != C(0):
                bad = (e, f"round 0 is func({', '.join(nshow(x) for x in a)}), not func(key, 0)")
        if bad or not inl:
            continue
        e = inl[0]
        a = [strip_epochs(x) for x in e.args]
        its = [strip_epochs(b.value) for b in p.events if b.kind == "bind" and b.loops == e.loops and b.value[0] == "it"]
        if len(a) < 2 or not its:
            bad = (e, "the per-round call does not pass (value, round index)")
            break
        it = its[0]
        dom = it[2]
        start = 0 if dom == ("call", ("g", "range"), (("p", "depth"),), ()) else (1 if dom == ("call", ("g", "range"), (C(1), ("p", "depth")), ()) else None)
        if start is None:
            continue  # the loop's shape is C18.exactly-depth's business
        if start == 0 and pre or start == 1 and not pre:
            continue  # as above
        inits = {("hv", b.name, e.loops[-1]): strip_epochs(b.value) for b in p.events if b.kind == "loopinit"}
        last = {}
        for b in p.events:
            if b.kind == "bind" and b.loops == e.loops:
                last[("hv", b.name, e.loops[-1])] = strip_epochs(b.value)
        res = strip_epochs(e.d.get("result"))
        for first in ((True, False) if start == 0 else (False,)):
            # rounds this path cannot describe (its own conditions on the index exclude them)
            if any(_round_truth(c.atom, it, first) is (not c.truth) for c in p.conds if it in set(walk(strip_epochs(c.atom)))):
                continue
            seen += 1
            seed = _decide_rounds(a[1], it, first, {})
            if seed != it and not (first and seed == C(0)):
                bad = (e, f"round i is seeded with {nshow(a[1])}, not with the round index")
                break
            if first:
                v = _decide_rounds(a[0], it, True, inits)
                if v != key:
                    bad = (e, f"round 0 hashes {nshow(v)} (first-round value of {nshow(a[0])}), not the key itself: keys for which that differs hash differently or fail")
                    break
            else:
                v = _decide_rounds(a[0], it, False, {})
                R = strip_epochs(p.exit[1])
                backs = [n for n in walk(v) if n[0] == "sub" and n[2] == C(-1) and n[1] == R]
                if backs and not [n for n in walk(v) if n[0] == "hv"]:
                    # the previous value read back as result[-1]: sound when every round appends exactly its own value to the result
                    apps = [b for b in p.events if b.kind == "call" and b.name == "append" and b.recv is not None and strip_epochs(b.recv) == R]
                    inl_apps = [b for b in apps if b.loops == e.loops]
                    pre_last = strip_epochs(R[1][-1]) if R[0] == "lst" and R[1] else None
                    for b in apps:
                        if not b.loops:
                            pre_last = strip_epochs(b.args[0])
                    if not _is_hex_of(v, backs[0]) or len(inl_apps) != 1 or strip_epochs(inl_apps[0].args[0]) != res or \
                            (start == 1 and (not pre or pre_last != strip_epochs(pre[0].d.get("result")))):
                        bad = (e, f"a later round hashes {nshow(v)}, which is not the lower-case hex of the value the previous round produced")
                        break
                    continue
                hvs = [n for n in walk(v) if n[0] == "hv"]
                if len(set(hvs)) != 1 or not _is_hex_of(v, hvs[0]):
                    bad = (e, f"a later round hashes {nshow(v)}, not the lower-case hex of the previous value")
                    break
                prev = hvs[0]
                if last.get(prev) != res:
                    bad = (e, f"a later round starts from {nshow(last.get(prev, prev))}, not from the previous round's value")
                    break
                if start == 1 and (inits.get(prev) is None or not pre or inits[prev] != strip_epochs(pre[0].d.get("result"))):
                    bad = (e, "round 1 does not start from round 0's value")
                    break
    if bad:
        rep.bad("C18.int-chain", "int-decorator", bad[1], f"hash_with_depth_int: {bad[1]}", bad[0].where())
    elif seen:
        rep.ok("C18.int-chain", f"int-decorator: key in round 0, hex of the previous value afterwards ({seen} round case(s))")


def _mentions_outside_domains(v, depth) -> bool:
    """depth occurs in v other than inside the domain of a loop symbol"""
    if not isinstance(v, tuple) or not v:
        return False
    if v == depth:
        return True
    if v[0] in ("it", "ix"):
        return False
    return any(_mentions_outside_domains(x, depth) for x in v[1:] if isinstance(x, tuple)) or \
        any(_mentions_outside_domains(y, depth) for x in v[1:] if isinstance(x, tuple) and x and not isinstance(x[0], str) for y in x)


from ..selftest import Mutant, del_stmt, insert_stmt, replace_expr, replace_stmt, seq

_H = "hashes.py"
MUTANTS = [
    Mutant("int decorator: depth == 1 short-cut calling func(key) without the round index", _H,
           insert_stmt(None, "hash_with_depth_int", "if depth == 1:\n    return [func(key)]", before="res = []"), rule="C18.prefix-stable"),
    Mutant("int decorator: depth == 1 short-cut with the same first round (same meaning)", _H,
           insert_stmt(None, "hash_with_depth_int", "if depth == 1:\n    return [func(key, 0)]", before="res = []"), expect="silent"),
    Mutant("int decorator: later rounds hash the decimal text", _H, replace_expr(None, "hash_with_depth_int", "f'{tmp:x}'", "f'{tmp}'"), rule="C18.int-chain"),
    Mutant("int decorator: later rounds hash upper-case hex", _H, replace_expr(None, "hash_with_depth_int", "f'{tmp:x}'", "f'{tmp:X}'"), rule="C18.int-chain"),
    Mutant("int decorator: later rounds hash 0x-prefixed hex", _H, replace_expr(None, "hash_with_depth_int", "f'{tmp:x}'", "hex(tmp)"), rule="C18.int-chain"),
    Mutant("int decorator: hex spelled format(tmp, 'x') (same meaning)", _H, replace_expr(None, "hash_with_depth_int", "f'{tmp:x}'", "format(tmp, 'x')"), expect="silent"),
    Mutant("int decorator: round 0 seeded with 1", _H, replace_expr(None, "hash_with_depth_int", "func(key, 0)", "func(key, 1)"), rule="C18."),
    Mutant("int decorator: later rounds seeded with idx - 1", _H, replace_expr(None, "hash_with_depth_int", "func(f'{tmp:x}', idx)", "func(f'{tmp:x}', idx - 1)"), rule="C18.int-chain"),
    Mutant("default_fnv_1a hands one map() iterator to every round", _H,
           replace_stmt(None, "default_fnv_1a", "res = []", "units = map(ord, key) if isinstance(key, str) else key\nreturn [fnv_1a(units, idx) for idx in range(depth)]"), rule="C18.pure"),
    Mutant("default_fnv_1a seeds with idx + depth", _H, replace_expr(None, "default_fnv_1a", "fnv_1a(key, idx)", "fnv_1a(key, idx + depth)"), rule="C18."),
    Mutant("fnv_1a walks bytes keys as latin-1 text and mixes ord() (same units)", _H, seq(
        replace_stmt(None, "fnv_1a", "tmp = ", "tmp = key if isinstance(key, str) else key.decode('latin-1')"),
        replace_stmt(None, "fnv_1a", "hval ^= t_str", "hval ^= ord(t_str)")), expect="silent"),
    Mutant("fnv_1a walks bytes keys as UTF-8 text and mixes ord()", _H, seq(
        replace_stmt(None, "fnv_1a", "tmp = ", "tmp = key if isinstance(key, str) else key.decode()"),
        replace_stmt(None, "fnv_1a", "hval ^= t_str", "hval ^= ord(t_str)")), rule="C18.text-keys"),
    Mutant("bytes decorator: digests collected first, converted in a second pass (same values)", _H, seq(
        replace_stmt(None, "hash_with_depth_bytes", "res.append(unpack(", "res.append(tmp[:8])"),
        replace_stmt(None, "hash_with_depth_bytes", "return res", "return [unpack('Q', w)[0] for w in res]")), expect="silent"),
    Mutant("bytes decorator: second pass converts 4 bytes as 'I'", _H, seq(
        replace_stmt(None, "hash_with_depth_bytes", "res.append(unpack(", "res.append(tmp[:4])"),
        replace_stmt(None, "hash_with_depth_bytes", "return res", "return [unpack('I', w)[0] for w in res]")), rule="C18.range"),
    Mutant("bytes decorator: second pass skips the first digest", _H, seq(
        replace_stmt(None, "hash_with_depth_bytes", "res.append(unpack(", "res.append(tmp[:8])"),
        replace_stmt(None, "hash_with_depth_bytes", "return res", "return [unpack('Q', w)[0] for w in res[1:]]")), rule="C18.exactly-depth"),
    Mutant("bytes decorator: utf-8 form computed first, None for bytes keys (same meaning)", _H,
           replace_stmt(None, "hash_with_depth_bytes", "tmp = key if not isinstance(key, str)", "enc = key.encode('utf-8') if isinstance(key, str) else None\ntmp = key if enc is None else enc"), expect="silent"),
    Mutant("bytes decorator: `utf-8 form or key` (an empty text key stays text)", _H,
           replace_stmt(None, "hash_with_depth_bytes", "tmp = key if not isinstance(key, str)", "tmp = (key.encode('utf-8') if isinstance(key, str) else None) or key"), rule="C18.text-keys"),
    Mutant("fnv_1a drops the mask in the loop", _H, del_stmt(None, "fnv_1a", "hval &= UINT64_T_MAX"), rule="C18."),
    Mutant("fnv_1a multiplies before xor", _H, replace_stmt(None, "fnv_1a", "hval ^= t_str", "hval *= fnv_64_prime\nhval ^= t_str\nhval //= fnv_64_prime\nhval *= fnv_64_prime"), rule="C18.fnv"),
    Mutant("fnv_1a_32: 31 * seed -> 32 * seed", _H, replace_expr(None, "fnv_1a_32", "31 * seed", "32 * seed"), rule="C18.fnv"),
    Mutant("fnv_1a prime mistyped", _H, replace_stmt(None, "fnv_1a", "fnv_64_prime = 1099511628211", "fnv_64_prime = 1099511628221"), rule="C18.fnv"),
    Mutant("hash_with_depth_bytes encodes latin-1", _H, replace_expr(None, "hashing_func", "key.encode('utf-8')", "key.encode('latin-1')"), rule="C18.text"),
    Mutant("hash_with_depth_bytes reads the last 8 bytes", _H, replace_expr(None, "hashing_func", "tmp[:8]", "tmp[-8:]"), rule="C18.range"),
    Mutant("bytes decorator loops depth + 1 times", _H, replace_expr(None, "hashing_func", "range(depth)", "range(depth + 1)"), rule="C18.exactly"),
    Mutant("default_fnv_1a memoises in a module dict", _H, insert_stmt(None, "default_fnv_1a", "_CACHE.setdefault(key, depth)"), rule="C18.pure"),
    Mutant("fnv_1a consumes str keys as utf-8 bytes only when non-ASCII", _H, replace_expr(None, "fnv_1a", "list(map(ord, key))", "list(key.encode('utf-16'))"), rule="C18.text"),
    Mutant("default_md5 salts with the depth index", _H, replace_expr(None, "default_md5", "md5(key).digest()", "md5(key + bytes(args[0])).digest()"), rule="C18.range"),
    Mutant("default_fnv_1a as a comprehension (same meaning)", _H,
           replace_stmt(None, "default_fnv_1a", "res = []", "return [fnv_1a(key, idx) for idx in range(depth)]"), expect="silent"),
    Mutant("default_fnv_1a comprehension over the pre-encoded key", _H,
           replace_stmt(None, "default_fnv_1a", "res = []", "return [fnv_1a(key.encode('utf-8') if isinstance(key, str) else key, idx) for idx in range(depth)]"), rule="C18.fnv"),
    Mutant("fnv mask spelled % 2**64 (same meaning)", _H, replace_stmt(None, "fnv_1a", "hval &= UINT64_T_MAX", "hval %= 2 ** 64"), expect="silent"),
]
