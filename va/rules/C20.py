"""C20 - Bitarray is a fixed-length bit vector: guard dominance, addressing agreement, mask shapes, ranges."""
from __future__ import annotations

import ast as _ast

from ..common import all_conds, all_events, cell_range_fn, conds_at, nshow, outer_field, own_methods, paths
from ..expr import C, SELF, norm, rowform, show, strip_epochs, walk
from ..intervals import ALL, EQ, GT, LT, Intervals, fmt_iv, join, path_orderings
from ..model import AnalysisError

EXPL = ("For every method of utilities.Bitarray, every access to the byte array (reads inside returned values and branch "
        "conditions, element stores) is located on every syntactic path.  Accesses whose index comes from a parameter must "
        "be dominated by a guard whose admitted orderings are exactly idx>=0 and idx<size (ordering-set semantics, so "
        ">=/> spellings and constant offsets are judged by meaning); the rejecting paths raise IndexError before any store; "
        "__setitem__ stores only for val in exactly {0,1}; all accesses agree on byte idx//8 and mask 1<<(idx%8); set is "
        "old|m, clear is old&~m, the read is (old&m)!=0; stored bytes stay in [0,255] (intervals); whole-array loops cover "
        "exactly the allocation range.")

FILES = ["utilities.py"]
CLS = "Bitarray"
ARR = "_bitarray"
# the three single-bit writers may delegate to one another (item store -> set_bit / clear_bit, or set_bit -> self[idx] = 1): each is judged with
# the others looked through, so that the accesses and guards of the whole delegation chain are seen
WRITERS = ("__setitem__", "set_bit", "clear_bit")


def _reads(expr):
    for n in walk(expr):
        if n[0] == "sub" and outer_field(n[1]) == ARR:
            yield n


def _byte_and_mask(idx):
    byte = norm(("bin", "//", idx, C(8)))
    mask = norm(("bin", "<<", C(1), ("bin", "%", idx, C(8))))
    return byte, mask


def _inrange_bit_read(i, value, size_f):
    """index i is x // 8 for x an element of range(size) produced by an unfiltered comprehension / loop, and the value that contains the read
    tests exactly bit x % 8 of that byte as 0 / 1"""
    if not (i[0] == "bin" and i[1] == "//" and i[3] == C(8) and i[2][0] == "it"):
        return False
    x = i[2]
    dom = strip_epochs(x[2])
    if dom not in (("call", ("g", "range"), (size_f,), ()), ("call", ("g", "range"), (C(0), size_f), ())):
        return False
    v = strip_epochs(norm(rowform(value)))
    for n in walk(v):
        if n[0] == "comp" and any(g[1] == x[1] and g[3] for g in n[3]):
            return False  # a filtered comprehension skips elements
    byte, mask = _byte_and_mask(x)
    rd = strip_epochs(("sub", ("f", SELF, ARR, 0), byte, 0))
    probe = norm(("bin", "&", rd, mask))
    good = [("phi", ("cmp", "==", probe, C(0)), C(0), C(1)), ("phi", ("cmp", "!=", probe, C(0)), C(1), C(0)),
            ("cmp", "!=", probe, C(0)), ("phi", probe, C(1), C(0)), ("phi", ("un", "not", probe), C(0), C(1)),
            norm(("bin", "&", ("bin", ">>", rd, ("bin", "%", x, C(8))), C(1)))]
    good = [strip_epochs(norm(rowform(g))) for g in good]
    reads = [n for n in walk(v) if n[0] == "sub" and outer_field(n[1]) == ARR]
    covered = [n for n in walk(v) if n in good]
    # every read of the array in the value sits inside one of the accepted probes
    inside = sum(1 for g in covered for n in walk(g) if n[0] == "sub" and outer_field(n[1]) == ARR)
    return bool(covered) and inside >= len(reads)


def _with_derived(prog, conds):
    """path conditions with every read of a maintained derived field of the bit vector (say _top = _size - 1) replaced by its formula"""
    from ..common import expand_derived
    from ..expr import norm as _norm
    return [_norm(expand_derived(prog, CLS, c)) for c in conds]


def count_maintained(prog, fld):
    """is self.<fld> kept equal to the number of set bits by EVERY writer of the byte array?  (the only way a remembered population
    count can be returned instead of a recount).  Decision table per returning path: a set-store only where the bit was clear, with
    count + 1; a clear-store only where it was set, with count - 1; whole-array zeroing leaves 0; no store, no change; starts at 0."""
    F = ("f", SELF, fld, 0)
    for f in own_methods(prog, CLS):
        if f.prop:
            continue
        ps = paths(prog, CLS, f, force_inline=WRITERS if f.src_name in WRITERS else ())
        for p in ps:
            if p.exit[0] != "return":
                continue
            stores = [e for e in p.events if e.kind == "setelem" and outer_field(e.cont) == ARR]
            deltas = [e for e in p.events if e.kind == "setfield" and e.base == SELF and e.name == fld]
            if f.src_name == "__init__":
                if p.fields.get((SELF, fld)) != C(0):
                    return False, f"{CLS}.__init__ does not start {fld} at 0"
                continue
            if not stores:
                vacuous = any(c.atom[0] == "loop0" and c.truth for c in p.conds) and strip_epochs(p.fields.get((SELF, fld), F)) == C(0)
                if deltas and not vacuous:
                    return False, f"{CLS}.{f.src_name} changes {fld} on a path that stores no bit"
                continue
            whole = [e for e in stores if e.loops or e.index[0] == "slc"]
            if whole:
                if strip_epochs(p.fields.get((SELF, fld), F)) != C(0):
                    return False, f"{CLS}.{f.src_name} rewrites the whole array without setting {fld} to 0"
                continue
            if len(stores) != 1:
                return False, f"{CLS}.{f.src_name} stores {len(stores)} bytes on one path"
            e = stores[0]
            v = strip_epochs(norm(rowform(e.value)))
            rd = ("sub", ("f", SELF, ARR, 0), strip_epochs(norm(rowform(e.index))), 0)
            if v[0] == "nary" and v[1] == "|" and len(v[2]) == 2 and rd in v[2]:
                kind, mask = "set", [t for t in v[2] if t != rd][0]
            elif v[0] == "nary" and v[1] == "&" and len(v[2]) == 2 and rd in v[2] and [t for t in v[2] if t != rd][0][0] == "un":
                kind, mask = "clear", [t for t in v[2] if t != rd][0][2]
            else:
                return False, f"{CLS}.{f.src_name} stores {nshow(e.value)}, neither old|m nor old&~m"
            probe = norm(("bin", "&", rd, mask))
            was_set = None
            for c in conds_at(p, e):
                c = strip_epochs(norm(rowform(c)))
                if c == probe or c == ("cmp", "!=", probe, C(0)):
                    was_set = True
                elif c in (("un", "not", probe), ("cmp", "==", probe, C(0))):
                    was_set = False
            want = norm(("bin", "+" if kind == "set" else "-", F, C(1)))
            if was_set is None or was_set != (kind == "clear"):
                return False, f"{CLS}.{f.src_name} {kind}s a bit and moves {fld} without having established that the bit was {'set' if kind == 'clear' else 'clear'} before"
            if len(deltas) != 1 or strip_epochs(norm(deltas[0].value)) != want:
                return False, f"{CLS}.{f.src_name} {kind}s a bit but {fld} does not move by exactly {'+1' if kind == 'set' else '-1'}"
    return True, ""


def _bit_known(conds, rd, ip, mask):
    """0 / 1 when the (true) path conditions establish the value of bit idx%8 of the byte rd, else None"""
    A = norm(("bin", "&", ("bin", ">>", rd, ("bin", "%", ip, C(8))), C(1)))
    B = norm(("bin", "&", rd, mask))
    UP = norm(("bin", ">>", rd, ("bin", "%", ip, C(8))))  # the byte shifted down: zero means this bit and every higher one is clear
    for c in conds:
        neg = c[0] == "un" and c[1] == "not"
        x = c[2] if neg else c
        if x in (A, B):
            return 0 if neg else 1
        if (neg and x == UP) or (not neg and x == ("cmp", "==", UP, C(0))) or (neg and x == ("cmp", "!=", UP, C(0))):
            return 0
        if x[0] == "cmp" and x[1] in ("==", "!=") and x[3][0] == "c" and isinstance(x[3][1], int):
            eq = (x[1] == "==") != neg
            if x[2] == A and x[3][1] in (0, 1):
                return x[3][1] if eq else 1 - x[3][1]
            if x[2] == B and x[3][1] == 0:
                return 0 if eq else 1
    return None


def check(prog, rep, tier):
    rep.extra["explanation"] = EXPL
    K = prog.cls(CLS)
    rep.rule("C20.guard", "parameter-indexed access is dominated by a guard admitting exactly 0 <= idx < size", floor=4)
    rep.rule("C20.reject", "out-of-range index raises IndexError before any store", floor=4)
    rep.rule("C20.value-guard", "__setitem__ stores only when val is exactly 0 or 1, and raises ValueError before any store otherwise", floor=1)
    rep.rule("C20.addressing", "every access uses byte idx//8 and mask 1<<(idx%8); set=old|m, clear=old&~m, read=(old&m)!=0", floor=5)
    rep.rule("C20.byte-range", "every stored byte stays within [0,255]", floor=4)
    rep.rule("C20.alloc", "size_bytes = ceil(size/8) sizes the allocation; size is kept; size<=0 rejected", floor=3)
    rep.rule("C20.full-range", "clear covers range(size_bytes); as_string / num_bits_set cover range(size) through the guarded reader", floor=3)
    rep.rule("C20.who-may-access", "no other method touches the byte array directly", floor=1)
    rep.assume("indices and values are ints (typing says int; ba[i] = 0.5 is outside the claim)")
    rep.trust("arithmetic lemma: 0 <= idx < size  implies  idx//8 < ceil(size/8)")
    crange = cell_range_fn(prog, CLS)
    size_f = ("f", SELF, "_size", 0)
    guarded = []  # functions with parameter-indexed accesses
    inrange_readers = set()  # functions that read the bits of every element of range(size) directly
    direct_access = {}
    for f in own_methods(prog, CLS):
        if f.prop or f.src_name == "__init__":
            continue
        if f.src_name.startswith("_") and not f.src_name.endswith("__"):
            continue  # a private helper is judged inside the public methods that call it (it is looked through there)
        # the item store may delegate to the guarded single-bit writers: look through them so that their accesses (and guards) are seen
        ps = paths(prog, CLS, f, force_inline=WRITERS if f.src_name in WRITERS else ())
        rep.analysed(f, CLS, len(ps))
        accesses = []  # (path, kind, index, value, conds, loc)
        for p in ps:
            for e in p.events:
                if e.kind == "setelem" and outer_field(e.cont) == ARR:
                    accesses.append((p, "store", e.index, e.value, conds_at(p, e), e.where(), e))
                    for r in _reads(e.value):
                        accesses.append((p, "read", r[2], None, conds_at(p, e), e.where(), e))
                elif e.kind in ("return", "yield"):
                    for r in _reads(e.value):
                        accesses.append((p, "read", r[2], e.value, conds_at(p, e), e.where(), e))
            for i, c in enumerate(p.conds):
                for r in _reads(c.atom):
                    class _E:
                        ncond = i
                    accesses.append((p, "read", r[2], None, conds_at(p, _E), f.where(c.node), None))
        if not accesses:
            continue
        direct_access[f.src_name] = accesses
        params = [a for a in f.params[1:]]
        idx_params = set()
        for (_, _, index, _, _, _, _) in accesses:
            for n in walk(index):
                if n[0] == "p":
                    idx_params.add(n[1])
        if idx_params:
            guarded.append(f.src_name)
            if len(idx_params) != 1:
                raise AnalysisError(f"{CLS}.{f.src_name}: index depends on several parameters {idx_params}")
            ip = ("p", idx_params.pop())
            byte, mask = _byte_and_mask(ip)
            # ---- guard: each access path within R, union over paths == R
            u0, us = set(), set()
            okpaths = True
            for (p, kind, index, value, conds, loc, e) in accesses:
                conds = _with_derived(prog, conds)  # a remembered size - 1 (highest valid index) reads as size - 1
                o0 = path_orderings(conds, ip, C(0))
                os_ = path_orderings(conds, ip, size_f)
                o0s = path_orderings([strip_epochs(c) for c in conds], ip, size_f)
                os_ = os_ & o0s
                if not (o0 <= {EQ, GT}) or not (os_ <= {LT}):
                    okpaths = False
                    rep.bad("C20.guard", f"{CLS}.{f.src_name}", f"access {ARR}[{nshow(index)}]",
                            f"{kind} of the byte array is reachable with idx vs 0 in {sorted(o0)} and idx vs size in {sorted(os_)}; "
                            "the guard must leave only idx>=0 and idx<size", loc)
                u0 |= o0
                us |= os_
            if okpaths:
                if u0 != {EQ, GT} or us != {LT}:
                    rep.bad("C20.guard", f"{CLS}.{f.src_name}", "guard rejects valid indices",
                            f"accepting paths admit only idx vs 0 in {sorted(u0)}, idx vs size in {sorted(us)}: some index in 0..size-1 is rejected",
                            f.where())
                else:
                    rep.ok("C20.guard", f"{CLS}.{f.src_name}: {len(accesses)} accesses under exactly 0<=idx<size")
            # ---- rejecting paths
            rej = [p for p in ps if p.exit[0] == "raise" and "IndexError" in show(p.exit[1])]
            bad_rej = [p for p in rej if any(e.kind == "setelem" for e in p.events)]
            if not rej:
                rep.bad("C20.reject", f"{CLS}.{f.src_name}", "no IndexError exit", "no path raises IndexError for an out-of-range index", f.where())
            elif bad_rej:
                rep.bad("C20.reject", f"{CLS}.{f.src_name}", "store before IndexError", "a store precedes the IndexError exit", f.where())
            else:
                # the rejecting paths must cover lt-0 and ge-size
                cov0, covs = set(), set()
                for p in rej:
                    cs = _with_derived(prog, all_conds(p))
                    cov0 |= path_orderings(cs, ip, C(0))
                    covs |= path_orderings(cs, ip, size_f)
                if LT in cov0 and {EQ, GT} <= covs:
                    rep.ok("C20.reject", f"{CLS}.{f.src_name}: {len(rej)} rejecting path(s), no store before raise")
                else:
                    rep.bad("C20.reject", f"{CLS}.{f.src_name}", "IndexError exit does not cover the invalid indices",
                            f"rejecting paths cover idx vs 0 in {sorted(cov0)}, idx vs size in {sorted(covs)}", f.where())
            # ---- addressing and shapes
            for (p, kind, index, value, conds, loc, e) in accesses:
                if strip_epochs(index) != strip_epochs(byte):
                    rep.bad("C20.addressing", f"{CLS}.{f.src_name}", f"index {nshow(index)}",
                            f"byte index is {nshow(index)}, expected {nshow(byte)}", loc)
                    continue
                if kind == "store":
                    v = strip_epochs(norm(rowform(value)))
                    rd = strip_epochs(("sub", ("f", SELF, ARR, 0), byte, 0))
                    want_set = norm(("bin", "|", rd, mask))
                    want_clr = norm(("bin", "&", rd, ("un", "~", mask)))
                    want_clr2 = norm(("bin", "&", rd, ("bin", "^", C(255), mask)))  # inside a byte, 0xFF ^ m is ~m
                    shape = "set" if v == want_set else ("clear" if v in (want_clr, want_clr2) else None)
                    if shape is None and "val" in f.params:
                        # branch-free form: blank the bit, then or in val << (idx%8) - the set for val = 1, the clear for val = 0
                        k_ = ("bin", "<<", ("p", "val"), ("bin", "%", ip, C(8)))
                        if v in (norm(("bin", "|", want_clr, k_)), norm(("bin", "|", want_clr2, k_))):
                            iv = Intervals(conds, {}, crange).iv(("p", "val"))
                            if iv[0] is not None and iv[1] is not None and 0 <= iv[0] and iv[1] <= 1:
                                rep.ok("C20.addressing", f"{CLS}.{f.src_name}: blend store (old&~m) | (val<<(idx%8)): old|m for val = 1")
                                rep.ok("C20.addressing", f"{CLS}.{f.src_name}: blend store (old&~m) | (val<<(idx%8)): old&~m for val = 0")
                                biv = (0, 255)
                                rep.ok("C20.byte-range", f"{CLS}.{f.src_name}: stored byte in {fmt_iv(biv)} (val = 1)")
                                rep.ok("C20.byte-range", f"{CLS}.{f.src_name}: stored byte in {fmt_iv(biv)} (val = 0)")
                                continue
                    toggled = False
                    if shape is None and v == norm(("bin", "^", rd, mask)):
                        # toggle form: old ^ m is old|m where the bit is known to be 0 and old&~m where it is known to be 1
                        known = _bit_known([strip_epochs(c) for c in conds], rd, ip, mask)
                        shape = "set" if known == 0 else ("clear" if known == 1 else None)
                        toggled = shape is not None
                    if shape is None:
                        rep.bad("C20.addressing", f"{CLS}.{f.src_name}", f"store {nshow(value)}",
                                f"stored value {nshow(value)} is neither old|m nor old&~m with m = 1<<(idx%8)", loc)
                        continue
                    # which one is right here?
                    want = None
                    if f.src_name == "set_bit":
                        want = "set"
                    elif f.src_name == "clear_bit":
                        want = "clear"
                    elif "val" in f.params:
                        iv = Intervals(conds, {}, crange).iv(("p", "val"))
                        if iv[0] is not None and iv[1] is not None and iv[0] > iv[1]:
                            continue  # the tests on val contradict each other (val == 0 and val truthy): no execution takes this path
                        want = "set" if iv == (1, 1) else ("clear" if iv == (0, 0) else "?")
                        if want == "?":
                            rep.bad("C20.value-guard", f"{CLS}.{f.src_name}", f"store under val in {fmt_iv(iv)}",
                                    f"a store happens with val in {fmt_iv(iv)}; it must be exactly 0 (clear) or exactly 1 (set)", loc)
                            continue
                    if want is not None and want != shape:
                        rep.bad("C20.addressing", f"{CLS}.{f.src_name}", f"store {nshow(value)}",
                                f"{f.src_name} performs a {shape} where a {want} is required", loc)
                    else:
                        rep.ok("C20.addressing", f"{CLS}.{f.src_name}: {shape} store old{'|m' if shape == 'set' else '&~m'}")
                    biv = (0, 255) if toggled else Intervals(conds, {}, crange).iv(value)  # a byte with one bit flipped is a byte
                    if biv[0] is not None and biv[0] >= 0 and biv[1] is not None and biv[1] <= 255:
                        rep.ok("C20.byte-range", f"{CLS}.{f.src_name}: stored byte in {fmt_iv(biv)}")
                    else:
                        rep.bad("C20.byte-range", f"{CLS}.{f.src_name}", f"store {nshow(value)}", f"stored byte in {fmt_iv(biv)}", loc)
                elif kind == "read" and value is not None and e is not None and e.kind == "return":
                    rd = strip_epochs(("sub", ("f", SELF, ARR, 0), byte, 0))
                    probe = norm(("bin", "&", rd, mask))
                    v = strip_epochs(norm(rowform(value)))
                    good = [("phi", ("cmp", "==", probe, C(0)), C(0), C(1)), ("phi", ("cmp", "!=", probe, C(0)), C(1), C(0)),
                            ("cmp", "!=", probe, C(0)), ("phi", probe, C(1), C(0)), ("phi", ("un", "not", probe), C(0), C(1)),
                            norm(("bin", "&", ("bin", ">>", rd, ("bin", "%", ip, C(8))), C(1)))]  # (old >> (idx%8)) & 1: the same bit
                    if v in good:
                        rep.ok("C20.addressing", f"{CLS}.{f.src_name}: read returns (old&m)!=0")
                    else:
                        # statement form: constant returned under a condition on the probe
                        cs = [strip_epochs(c) for c in conds]
                        if v == C(0) and ("cmp", "==", probe, C(0)) in cs or v == C(1) and ("cmp", "!=", probe, C(0)) in cs:
                            rep.ok("C20.addressing", f"{CLS}.{f.src_name}: read returns (old&m)!=0 (statement form)")
                        else:
                            rep.bad("C20.addressing", f"{CLS}.{f.src_name}", f"return {nshow(value)}",
                                    f"returned value {nshow(value)} is not ((old & 1<<(idx%8)) != 0) as 0/1", loc)
            # a writer that returns without storing must have found the bit already at the wanted value
            if f.src_name in ("set_bit", "clear_bit"):
                wanted = 1 if f.src_name == "set_bit" else 0
                rd_ = strip_epochs(("sub", ("f", SELF, ARR, 0), byte, 0))
                for p in ps:
                    if p.exit[0] != "return" or any(e.kind == "setelem" and outer_field(e.cont) == ARR for e in p.events):
                        continue
                    if _bit_known([strip_epochs(c) for c in all_conds(p)], rd_, ip, mask) != wanted:
                        rep.bad("C20.addressing", f"{CLS}.{f.src_name}", "returns without storing",
                                f"a path of {f.src_name} returns without writing the byte and without having found the bit already {'set' if wanted else 'clear'}", f.where())
                        break
            # value guard exits for __setitem__
            if "val" in f.params:
                vr = [p for p in ps if p.exit[0] == "raise" and "ValueError" in show(p.exit[1])]
                stores = [p for p in ps if any(e.kind == "setelem" for e in p.events)]
                u = None
                for p in stores:
                    iv = Intervals(all_conds(p), {}, crange).iv(("p", "val"))
                    u = iv if u is None else join(u, iv)
                badv = [p for p in vr if any(e.kind == "setelem" for e in p.events)]
                if not vr or badv:
                    rep.bad("C20.value-guard", f"{CLS}.{f.src_name}", "ValueError exit", "no ValueError exit for an invalid value, or a store precedes it", f.where())
                elif u != (0, 1):
                    rep.bad("C20.value-guard", f"{CLS}.{f.src_name}", f"stores under val in {fmt_iv(u or (None, None))}",
                            f"stores happen for val in {fmt_iv(u or (None, None))}; exactly {{0,1}} is required", f.where())
                else:
                    rep.ok("C20.value-guard", f"{CLS}.{f.src_name}: stores exactly for val in [0,1], {len(vr)} rejecting path(s)")
        else:
            # whole-array loop: index must be the element of range(size_bytes) and the store a constant 0
            L = ("f", SELF, "_size_bytes", 0)
            for (p, kind, index, value, conds, loc, e) in accesses:
                i = strip_epochs(index)
                if f.src_name != "clear" and kind == "read" and value is not None and _inrange_bit_read(i, value, size_f):
                    # the bit of an element of range(size), read with the byte / mask addressing: the domain itself is the guard
                    # (0 <= x < size for every x the loop produces), so the access is in range without passing through check_bit
                    rep.ok("C20.full-range", f"{CLS}.{f.src_name}: bit x read as (byte[x//8] & 1<<(x%8)) != 0 for every x of range(size)")
                    inrange_readers.add(f.src_name)
                    continue
                ok = i[0] == "it" and strip_epochs(i[2]) == ("call", ("g", "range"), (L,), ())
                if not ok and i[0] == "it" and strip_epochs(i[2]) == ("call", ("g", "range"), (("call", ("g", "len"), (("f", SELF, ARR, 0),), ()),), ()):
                    ok = True  # range(len(self._bitarray)): every position of the allocation
                if not ok and i[0] == "ix" and strip_epochs(i[2]) == ("f", SELF, ARR, 0):
                    # enumerate(self._bitarray): every position of the allocation; a store skipped only where the byte is already falsy (0)
                    ok = all(strip_epochs(c.atom) == ("it", i[1], i[2]) and c.truth for c in p.conds[:e.ncond]
                             if any(n[0] in ("it", "ix") and n[1] == i[1] for n in walk(strip_epochs(c.atom))))
                if f.src_name == "clear":
                    ok = ok and kind == "store" and value == C(0)
                    if i == ("slc", C(None), C(None), C(None)) and kind == "store":
                        # self._bitarray[:] = array('B', [0]) * size_bytes : one block store of zeros over the whole allocation
                        v = strip_epochs(value)
                        ok = v[0] == "nary" and v[1] == "*" and len(v[2]) == 2 and L in v[2] and \
                            any(x[0] == "newb" and x[1] == "array" and len(x[3]) == 2 and x[3][0] == C("B") and x[3][1] == ("lst", (C(0),)) for x in v[2])
                        # ... or array('B', bytes(size_bytes)): bytes(n) is n zero bytes
                        ok = ok or (v[0] == "newb" and v[1] == "array" and len(v[3]) == 2 and v[3][0] == C("B")
                                    and v[3][1] == ("call", ("g", "bytes"), (L,), ()))
                if ok:
                    rep.ok("C20.full-range", f"{CLS}.{f.src_name}: {kind} over range(size_bytes)")
                else:
                    rep.bad("C20.full-range", f"{CLS}.{f.src_name}", f"{kind} {ARR}[{nshow(index)}]",
                            f"whole-array {kind} does not cover exactly range(size_bytes) (index {nshow(index)}, value {nshow(value) if value else '-'})", loc)
    if "clear" not in direct_access:
        rep.bad("C20.full-range", f"{CLS}.clear", "no store", "clear() stores nothing into the byte array", K.module.relpath + ":1")
    # ---- who may access: everything else goes through the guarded reader
    allowed = set(guarded) | {"clear"}
    # the population count may be taken byte by byte over the whole array: bits beyond `size` in the last byte are never set (every
    # writer is guarded by idx < size - C20.guard -, allocation and clear store zeros), so whole bytes count exactly the bits in range
    bytewise_count = False
    nb_ = prog.method(CLS, "num_bits_set")
    arr_ = ("f", SELF, ARR, 0)
    rvs_ = [strip_epochs(p.exit[1]) for p in paths(prog, CLS, nb_) if p.exit[0] == "return"]
    if len(rvs_) == 1 and rvs_[0][0] == "call" and rvs_[0][1] == ("g", "sum") and len(rvs_[0][2]) == 1 and rvs_[0][2][0][0] == "comp":
        g_ = rvs_[0][2][0]
        if len(g_[3]) == 1 and not g_[3][0][3] and strip_epochs(g_[3][0][2]) == arr_:
            it_ = ("it", g_[3][0][1], arr_)
            pops = (("call", ("m", ("call", ("g", "bin"), (it_,), ()), "count"), (C("1"),), ()), ("call", ("m", it_, "bit_count"), (), ()))
            bytewise_count = strip_epochs(g_[2]) in pops
    if bytewise_count:
        allowed.add("num_bits_set")
    extra = [n for n in direct_access if n not in allowed and not (n in inrange_readers and rep.rules["C20.full-range"]["violations"] == 0)]
    if extra:
        rep.bad("C20.who-may-access", f"{CLS}.{extra[0]}", "direct access", f"{extra} access the byte array without the guard", K.module.relpath + ":1")
    else:
        rep.ok("C20.who-may-access", f"direct access only in {sorted(allowed)}")
    for nm in ("__setitem__", "check_bit", "set_bit", "clear_bit"):
        if nm in guarded:
            continue
        if K.find_method(nm) is None:
            raise AnalysisError(f"anchor vanished: Bitarray.{nm}")
        rep.bad("C20.addressing", f"{CLS}.{nm}", "no access to the byte array",
                f"{nm} no longer {'reads' if nm == 'check_bit' else 'writes'} the bit it is asked for", K.find_method(nm).where())
    # ---- as_string / num_bits_set: comprehension over range(size) of check_bit(elem)
    for name in ("as_string", "num_bits_set"):
        f = prog.method(CLS, name)
        ps = paths(prog, CLS, f)
        good = False
        if name in inrange_readers and name in direct_access and all(a[1] == "read" for a in direct_access[name]):
            good = True
        if name == "num_bits_set" and bytewise_count:
            if rep.rules["C20.guard"]["violations"] == 0:
                rep.ok("C20.full-range", f"{CLS}.{name}: population count of every byte of the array (padding bits are never set: all writers are guarded)")
                continue
        for p in ps:
            for e in p.events:
                if e.kind == "call" and e.name == "map" and len(e.args) == 2 and e.args[0][0] == "bm" and e.args[0][1] == SELF \
                        and e.args[0][2] == "check_bit":
                    # map(self.check_bit, <domain>): the guarded reader applied to every element of the domain
                    if strip_epochs(e.args[1]) == ("call", ("g", "range"), (size_f,), ()):
                        good = True
                    else:
                        rep.bad("C20.full-range", f"{CLS}.{name}", f"map(check_bit, {nshow(e.args[1])})",
                                f"{name} reads bits {nshow(e.args[1])}, not every element of range(size)", e.where())
                        good = None
                if e.kind == "call" and e.name == "check_bit" and e.args:
                    a = strip_epochs(e.args[0])
                    if a[0] == "it" and strip_epochs(a[2]) == ("call", ("g", "range"), (size_f,), ()):
                        good = True
                    else:
                        rep.bad("C20.full-range", f"{CLS}.{name}", f"check_bit({nshow(a)})",
                                f"{name} reads bits {nshow(a)}, not every element of range(size)", e.where())
                        good = None
        # the answer is recomputed from the bits: it may not come from a remembered field that some writer does not maintain
        for p in ps:
            if p.exit[0] != "return" or good is None:
                continue
            stale = sorted({n[2] for n in walk(p.exit[1]) if n[0] == "f" and n[1] == SELF and n[2] not in (ARR, "_size", "_size_bytes")})
            why = ""
            if stale and name == "num_bits_set" and strip_epochs(p.exit[1]) == ("f", SELF, stale[0], 0):
                # a remembered population count: exact iff every writer of the byte array maintains it
                okm, why = count_maintained(prog, stale[0])
                if okm:
                    rep.ok("C20.full-range", f"{CLS}.{name}: returns {stale[0]}, which every writer of the byte array keeps equal to the population count")
                    good = None
                    break
            if stale:
                rep.bad("C20.full-range", f"{CLS}.{name}", f"returns remembered {stale}",
                        f"{name} can return a value read from {stale} instead of recomputing it from the bits: every writer of the byte array (item assignment, set_bit, clear_bit, clear) "
                        "would have to keep that field exact, and the result disagrees with the bits as soon as one does not" + (f" ({why})" if why else ""), f.where(p.exit[2]))
                good = None
                break
        if good:
            rep.ok("C20.full-range", f"{CLS}.{name}: check_bit over range(size)")
        elif good is False:
            rep.bad("C20.full-range", f"{CLS}.{name}", "no guarded read", f"{name} does not read the bits through check_bit over range(size)", f.where())
    # ---- allocation
    init = prog.method(CLS, "__init__")
    ps = paths(prog, CLS, init)
    rep.analysed(init, CLS, len(ps))
    for p in ps:
        if p.exit[0] != "return":
            continue
        fs = {k[1]: v for k, v in p.fields.items() if k[0] == SELF}
        sb = strip_epochs(fs.get("_size_bytes", ("unk", "missing")))
        want = norm(("call", ("ext", "math", "ceil"), (("bin", "/", ("p", "size"), C(8)),), ()))
        want2 = norm(("bin", "//", ("bin", "+", ("p", "size"), C(7)), C(8)))  # the integer spelling of ceil(size / 8)
        want3 = norm(("un", "-", ("bin", "//", ("un", "-", ("p", "size")), C(8))))
        want4 = norm(("bin", "+", ("bin", "//", ("bin", "-", ("p", "size"), C(1)), C(8)), C(1)))  # ((size - 1) // 8) + 1, for size >= 1
        if sb in (want, want2, want3, want4):
            rep.ok("C20.alloc", "size_bytes = ceil(size/8)")
        else:
            rep.bad("C20.alloc", f"{CLS}.__init__", f"_size_bytes = {nshow(sb)}", f"_size_bytes is {nshow(sb)}, expected ceil(size/8)", init.where())
        arr = strip_epochs(fs.get(ARR, ("unk", "missing")))
        okarr = arr[0] == "nary" and arr[1] == "*" and len(arr[2]) == 2 and any(x == sb for x in arr[2]) and \
            any(x[0] == "newb" and x[1] == "array" and x[3] and x[3][0] == C("B") and x[3][1] == ("lst", (C(0),)) for x in arr[2])
        if not okarr:
            okarr = arr[0] == "newb" and arr[1] == "array" and len(arr[3]) == 2 and arr[3][0] == C("B") and arr[3][1] == ("call", ("g", "bytes"), (sb,), ())
        if okarr:
            rep.ok("C20.alloc", "bitarray = array('B',[0]) * size_bytes")
        else:
            rep.bad("C20.alloc", f"{CLS}.__init__", f"{ARR} = {nshow(arr)}", "allocation is not array('B',[0]) * size_bytes", init.where())
        if fs.get("_size") == ("p", "size"):
            iv = Intervals(all_conds(p), {}, crange).iv(("p", "size"))
            if iv[0] is None:
                # the guard may be written on a shifted value (top = size - 1; top < 0): decide size vs 1 by orderings
                o1 = path_orderings([strip_epochs(c) for c in all_conds(p)], ("p", "size"), C(1))
                if o1 <= {EQ, GT}:
                    iv = (1 if EQ in o1 else 2, iv[1])
            if iv[0] is not None and iv[0] == 1:
                rep.ok("C20.alloc", "size kept, size >= 1 on construction")
            elif iv[0] is not None and iv[0] > 1:
                rep.bad("C20.alloc", f"{CLS}.__init__", "size guard rejects valid sizes", f"construction succeeds only with size in {fmt_iv(iv)}: a bit vector of size 1 .. {iv[0] - 1} is refused",
                        init.where())
            else:
                rep.bad("C20.alloc", f"{CLS}.__init__", "size guard", f"construction succeeds with size in {fmt_iv(iv)}", init.where())
        else:
            rep.bad("C20.alloc", f"{CLS}.__init__", f"_size = {nshow(fs.get('_size', ('unk','missing')))}", "_size is not the size argument", init.where())


from ..selftest import Mutant, del_stmt, replace_expr, replace_stmt, swap_binop, swap_cmp, seq

_U = "utilities.py"
MUTANTS = [
    Mutant("num_bits_set as a per-byte population count (same meaning: padding bits are never set)", "utilities.py",
           replace_stmt("Bitarray", "num_bits_set", "return sum(", "return sum(bin(byte).count('1') for byte in self._bitarray)"), expect="silent"),
    Mutant("num_bits_set per byte, last byte left out", "utilities.py",
           replace_stmt("Bitarray", "num_bits_set", "return sum(", "return sum(bin(byte).count('1') for byte in self._bitarray[:-1])"), rule="C20."),
    Mutant("set_bit toggles when the masked byte differs from 1 (wrong for idx % 8 != 0)", "utilities.py",
           replace_stmt("Bitarray", "set_bit", "self._bitarray[b] = ", "if (self._bitarray[b] & (1 << (idx % 8))) != 1:\n    self._bitarray[b] = self._bitarray[b] ^ (1 << (idx % 8))"), rule="C20.addressing"),
    Mutant("set_bit toggles only when the bit is clear (same meaning)", "utilities.py",
           replace_stmt("Bitarray", "set_bit", "self._bitarray[b] = ", "if (self._bitarray[b] >> (idx % 8)) & 1 != 1:\n    self._bitarray[b] = self._bitarray[b] ^ (1 << (idx % 8))"), expect="silent"),
    Mutant("clear_bit does nothing when the bit is clear ... and nothing when it is set", "utilities.py",
           replace_stmt("Bitarray", "clear_bit", "self._bitarray[b] = ", "if (self._bitarray[b] >> (idx % 8)) & 1 == 2:\n    self._bitarray[b] = self._bitarray[b] & ~(1 << (idx % 8))"), rule="C20."),

    Mutant("__setitem__ guard >= -> >", _U, swap_cmp("Bitarray", "__setitem__", _ast.GtE, _ast.Gt), rule="C20.guard"),
    Mutant("check_bit guard >= -> >", _U, swap_cmp("Bitarray", "check_bit", _ast.GtE, _ast.Gt), rule="C20.guard"),
    Mutant("set_bit guard >= -> >", _U, swap_cmp("Bitarray", "set_bit", _ast.GtE, _ast.Gt), rule="C20.guard"),
    Mutant("clear_bit guard >= -> >", _U, swap_cmp("Bitarray", "clear_bit", _ast.GtE, _ast.Gt), rule="C20.guard"),
    Mutant("set_bit guard idx < 0 -> idx <= 0 (rejects index 0)", _U, replace_expr("Bitarray", "set_bit", "idx < 0", "idx <= 0"), rule="C20."),
    Mutant("set_bit | -> ^", _U, swap_binop("Bitarray", "set_bit", _ast.BitOr, _ast.BitXor), rule="C20.addressing"),
    Mutant("clear_bit drops the ~", _U, replace_expr("Bitarray", "clear_bit", "~(1 << idx % 8)", "1 << idx % 8"), rule="C20.addressing"),
    Mutant("num_bits_set over range(size - 1)", _U, replace_expr("Bitarray", "num_bits_set", "range(self._size)", "range(self._size - 1)"), rule="C20.full-range"),
    Mutant("__setitem__ val > 1 -> val > 2", _U, replace_expr("Bitarray", "__setitem__", "val > 1", "val > 2"), rule="C20.value"),
    Mutant("clear over range(size_bytes - 1)", _U, replace_expr("Bitarray", "clear", "range(self._size_bytes)", "range(self._size_bytes - 1)"), rule="C20.full-range"),
    Mutant("check_bit mask uses idx % 7", _U, replace_expr("Bitarray", "check_bit", "idx % 8", "idx % 7"), rule="C20.addressing"),
    Mutant("size_bytes = size // 8", _U, replace_expr("Bitarray", "__init__", "math.ceil(size / 8)", "size // 8"), rule="C20.alloc"),
    Mutant("guard deleted in clear_bit", _U, del_stmt("Bitarray", "clear_bit", "if idx < 0"), rule="C20."),
    Mutant("as_string reads each bit of range(size) directly (same result)", _U, replace_expr("Bitarray", "as_string", "self.check_bit(x)",
           "(0 if (self._bitarray[x // 8] & (1 << (x % 8))) == 0 else 1)"), expect="silent"),
    Mutant("as_string reads directly over range(size + 1)", _U, seq(replace_expr("Bitarray", "as_string", "self.check_bit(x)",
           "(0 if (self._bitarray[x // 8] & (1 << (x % 8))) == 0 else 1)"), replace_expr("Bitarray", "as_string", "range(self._size)", "range(self._size + 1)")), rule="C20."),
    Mutant("num_bits_set reads directly with mask x % 7", _U, replace_expr("Bitarray", "num_bits_set", "self.check_bit(x)",
           "(0 if (self._bitarray[x // 8] & (1 << (x % 7))) == 0 else 1)"), rule="C20."),
    Mutant("set_bit delegates to the item store (same result)", _U, replace_stmt("Bitarray", "set_bit", "self._bitarray[b] = ", "self[idx] = 1"), expect="silent"),
    Mutant("set_bit delegates to the item store with 0", _U, replace_stmt("Bitarray", "set_bit", "self._bitarray[b] = ", "self[idx] = 0"), rule="C20.addressing"),
    Mutant("constructor refuses size 1", _U, replace_expr("Bitarray", "__init__", "size <= 0", "size <= 1"), rule="C20.alloc"),
    Mutant("constructor guard spelled size < 1 (same meaning)", _U, replace_expr("Bitarray", "__init__", "size <= 0", "size < 1"), expect="silent"),
    Mutant("constructor guard on top = size - 1 (same meaning)", _U, replace_expr("Bitarray", "__init__", "size <= 0", "size - 1 < 0"), expect="silent"),
    Mutant("guard spelled idx > size - 1 (same meaning)", _U, replace_expr("Bitarray", "set_bit", "idx >= self._size", "idx > self._size - 1"), expect="silent"),
    Mutant("guard spelled not 0 <= idx (same meaning)", _U, replace_expr("Bitarray", "check_bit", "idx < 0", "not idx >= 0"), expect="silent"),
]
