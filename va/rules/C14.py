"""C14 - elements_added tracks the documented quantity through every operation (pairing + delta agreement)."""
from __future__ import annotations

import ast as _ast
import math

from ..common import all_conds, conds_at, mro_methods, nshow, outer_field, paths, saturating_move, unclamped
from ..expr import C, SELF, canon, first_diff, norm, show, strip_epochs, walk
from ..model import AnalysisError
from ..own import BINF, TABLE, is_bucket
from .C03 import CTXS, bin_drops, cpaths, insert_flows
from .C09 import add_alt_shape, sub_counter_once

EXPL = ("Per mutator path: storage is mutated if and only if the counter is updated exactly once, and the counter delta agrees with "
        "the storage delta of the structure's documented meaning - Bloom/on-disk: +1 per add outside the hash loop; expanding / "
        "rotating: +1 on every path of add; counting Bloom and count-min: +/- the same amount that is applied to the cells "
        "(join: + the operand's total); cuckoo: +weight of the entry that entered the table on each success exit (from the "
        "ownership analysis), -1 per removal, reset and recount on expansion and load; counting cuckoo additionally "
        "unique_elements +/-1 per bin; quotient filter: +1 per slot filled, -1 per slot emptied, 0 on the absent path, reset "
        "with the arrays.  Load factors read the counter.  The two Bloom statistics conform to -(m/k) ln(1 - X/m) and "
        "(1 - e^(-kn/m))^k, and set-operation results take estimate_elements() as their counter.")
FILES = ["blooms/bloom.py", "blooms/countingbloom.py", "blooms/expandingbloom.py", "countminsketch/countminsketch.py",
         "cuckoo/cuckoo.py", "cuckoo/countingcuckoo.py", "quotientfilter/quotientfilter.py"]


def counter_events(p, field, base=SELF):
    return [e for e in p.events if e.kind == "setfield" and e.name == field and e.base == base]


def delta_of(e, field):
    prev = ("f", SELF, field, 0)
    v = strip_epochs(e.value)
    # a total pinned at a limit of its storage - max(total - x, 0), min(total + x, LIMIT) - moves by the same amount until it gets there
    if v[0] == "call" and v[1] in (("g", "max"), ("g", "min")) and len(v[2]) == 2:
        inner = [x for x in v[2] if x[0] != "c"]
        if len(inner) == 1 and any(n == prev for n in walk(inner[0])):
            v = inner[0]
    if v[0] == "nary" and v[1] == "+" and prev in v[2]:
        rest = [x for x in v[2] if x != prev]
        return rest[0] if len(rest) == 1 else ("nary", "+", tuple(rest))
    if v[0] == "bin" and v[1] == "-" and v[2] == prev:
        return ("un", "-", v[3])
    return None


GEOMETRY = ("_q", "_r", "_size", "_QuotientFilter__mod_size")
ARRAYS = ("_filter", "_is_occupied", "_is_continuation", "_is_shifted")


def geometry_writers(prog):
    """(entry methods, private helper qualnames): who assigns a geometry field or one of the four arrays of the receiver"""
    CTX = "QuotientFilter"
    K = prog.cls(CTX)
    direct = []
    for f in K.methods.values():
        for p in paths(prog, CTX, f):
            if any(e.kind == "setfield" and e.base == SELF and e.name in GEOMETRY + ARRAYS and e.func is f for e in p.events):
                direct.append(f)
                break
    helpers = tuple(sorted(f.qualname for f in direct if f.src_name.startswith("_") and f.src_name != "__init__"))
    entries = [f for f in K.methods.values() if f.src_name == "__init__" or not f.src_name.startswith("_")]
    return entries, helpers


def donor_of(v, k):
    """the other filter X when v is X's array k itself or a copy of it (X.k[:], array(tc, X.k), list(X.k), copy / deepcopy of X.k)"""
    v = strip_epochs(v)
    src = v
    if v[0] == "slice" and tuple(v[2:5]) == (C(None), C(None), C(None)):
        src = v[1]
    elif v[0] == "call" and v[1] in (("ext", "copy", "deepcopy"), ("ext", "copy", "copy"), ("g", "list"), ("g", "bytearray")) and len(v[2]) == 1:
        src = v[2][0]
    elif v[0] == "newb" and v[1] == "array" and len(v[3]) == 2:
        src = v[3][1]
    src = strip_epochs(src)
    if src[0] == "f" and src[2] == k and src[1] != SELF:
        return src[1]
    return None


def quotient_counter_rules(prog, rep, rid):
    """quotient filter: +1 per slot filled, -1 per slot emptied, unchanged when absent, reset with the arrays (shared with C04)"""
    # ---------------------------------------------------------------- quotient filter
    ctx = "QuotientFilter"
    E = "_elements_added"
    fa = prog.method(ctx, "_add")
    okq = True
    for p in paths(prog, ctx, fa):
        if p.exit[0] != "return":
            if counter_events(p, E):
                rep.bad(rid, f"{ctx}._add", "counter moved on a raising path",
                        "_add has already counted the element on a path that then raises without storing it: elements_added stays one above the number of stored hashes",
                        counter_events(p, E)[0].where())
                okq = False
                break
            continue
        d = [delta_of(e, E) for e in counter_events(p, E)]
        filled = any((e.kind == "call" and e.target is not None and e.target.src_name == "_shift_insert") or
                     (e.kind == "setelem" and outer_field(e.cont) == "_filter") for e in p.events)
        if d != [C(1)] or not filled:
            what = f"counter deltas {[nshow(x) if x else '?' for x in d]}" + ("" if filled else ", no slot filled")
            rep.bad(rid, f"{ctx}._add", what, "a returning path of _add does not fill exactly one slot and count exactly one element"
                    if filled else "a path of _add counts an element and returns without storing it", fa.where())
            okq = False
            break
    if okq:
        rep.ok(rid, f"{ctx}._add: +1 on every non-raising path")
    # judged on the public removal as a whole, with the private routine looked through: whichever of the two holds the bookkeeping
    # (the routine itself, or its caller acting on the routine's answer), a removal that empties a slot counts one down
    fr = prog.method(ctx, "remove_alt")
    if prog.cls(ctx).find_method("_remove_element") is None:
        raise AnalysisError("anchor vanished: QuotientFilter._remove_element")
    okq = True
    npaths = 0
    for p in paths(prog, ctx, fr, max_states=20000, force_inline=("_remove_element",)):
        if p.exit[0] != "return":
            continue
        npaths += 1
        mut = [e for e in p.events if e.kind == "setelem" or (e.kind == "call" and e.name in ("clear_bit", "set_bit", "__setitem__"))]
        d = [delta_of(e, E) for e in counter_events(p, E)]
        want = [("un", "-", C(1))] if mut else []
        if d != want:
            loc = fr.where(p.exit[2]) if p.exit[2] is not None else fr.where()
            rep.bad(rid, f"{ctx}._remove_element", f"table mutated={bool(mut)}, counter deltas {[nshow(x) if x else '?' for x in d]}",
                    f"a path of remove_alt / _remove_element {'empties a slot' if mut else 'changes nothing'} but elements_added moves by {[nshow(x) if x else '?' for x in d] or 'nothing'}: "
                    "after a removal elements_added is no longer the number of stored hashes (and the load factor is wrong)", loc)
            okq = False
            break
    rep.analysed(fr, ctx, npaths)
    if okq:
        rep.ok(rid, f"{ctx}.remove_alt (with _remove_element looked through): -1 on every mutating path ({npaths} paths), 0 when absent")
    # reset with the arrays: wherever a method (private helpers looked through) gives the receiver a new remainder array, it also
    # sets the counter - to 0 next to a fresh allocation, to the donor's counter next to an adopted array
    entries, helpers = geometry_writers(prog)
    nres, badr = 0, None
    for f in entries:
        for p in paths(prog, ctx, f, force_inline=helpers):
            if p.exit[0] != "return":
                continue
            arr = [e for e in p.events if e.kind == "setfield" and e.base == SELF and e.name == "_filter"]
            if not arr:
                continue
            nres += 1
            v = strip_epochs(arr[-1].value)
            sets = [strip_epochs(e.value) for e in counter_events(p, E) if e.kind == "setfield"]
            donor = donor_of(v, "_filter")
            if donor is not None:
                want = ("f", donor, E, 0)
                what = f"the counter of {nshow(donor)}"
            else:
                want, what = C(0), "0"
            if want not in sets:
                badr = badr or (f, arr[-1], what)
    if badr:
        rep.bad(rid, f"{ctx}.{badr[0].src_name}", "no reset", f"{badr[0].src_name} replaces the arrays without setting elements_added to {badr[2]}: the counter no longer "
                "matches the stored hashes (re-inserted elements are counted twice)", badr[1].where())
    elif nres:
        rep.ok(rid, f"{ctx}: counter reset together with the arrays on {nres} path(s)")


def check(prog, rep, tier):
    rep.extra["explanation"] = EXPL
    rep.rule("C14.bloom", "Bloom / on-disk add: +1 once, outside the hash loop; expanding / rotating: +1 on every path", floor=3)
    rep.rule("C14.counting-bloom", "counting Bloom: total moves by the amount applied to the cells", floor=2)
    rep.rule("C14.count-min", "count-min: total moves by +/- num_els, join adds the operand's total", floor=3)
    rep.rule("C14.cuckoo-insert", "cuckoo insert: counter moves by the weight of the entry that entered the table, on every success exit", floor=2)
    rep.rule("C14.cuckoo-remove", "cuckoo remove: -1 per removal (counting: bin dropped -> unique -1)", floor=2)
    rep.rule("C14.cuckoo-recount", "expansion resets the counters and re-inserts; loaders reset and recount from the table", floor=4)
    rep.rule("C14.quotient", "quotient filter: +1 per slot filled, -1 per slot emptied, unchanged when absent, reset with the arrays", floor=3)
    rep.rule("C14.load-factor", "load factors are derived from the counter", floor=3)
    rep.rule("C14.bloom-statistics", "estimate_elements and current_false_positive_rate are the standard formulas; set-operation results use the estimate", floor=4)
    # ---------------------------------------------------------------- Bloom family
    sub_counter_once(prog, rep, "C14.bloom")
    f = prog.method("BloomFilterOnDisk", "add_alt")
    n = 0
    for p in paths(prog, "BloomFilterOnDisk", f, inline="deep"):
        if p.exit[0] == "return":
            n = len(counter_events(p, "_els_added"))
            if n != 1:
                break
    if n == 1:
        rep.ok("C14.bloom", "BloomFilterOnDisk.add_alt: exactly one counter increment")
    else:
        rep.bad("C14.bloom", "BloomFilterOnDisk.add_alt", f"{n} counter updates", "an on-disk add does not count exactly once", f.where())
    for ctx, fn in (("ExpandingBloomFilter", "__check_for_growth"), ("RotatingBloomFilter", "__rotate_bloom_filter")):
        fa = prog.method(ctx, "add_alt")
        okx = True
        for p in paths(prog, ctx, fa):
            if p.exit[0] == "raise":
                continue
            inc = counter_events(p, "_added_elements")
            if len(inc) != 1 or canon(inc[0].value) != canon(("bin", "+", ("f", SELF, "_added_elements", 0), C(1))):
                rep.bad("C14.bloom", f"{ctx}.add_alt", "total counter", "elements_added is not incremented exactly once by one on every path of add_alt (duplicates count too)", fa.where())
                okx = False
                break
        if okx:
            rep.ok("C14.bloom", f"{ctx}.add_alt: +1 on every path")
    # the count persisted in the on-disk filter's file follows every mutator, and export copies a synced file
    rep.rule("C14.ondisk-persisted", "on-disk Bloom: every mutator of persisted state rewrites the stored count; export syncs before copying", floor=2)
    from ..effects import Effects
    from .C19 import ondisk_sync_lemma
    missing = ondisk_sync_lemma(prog, Effects(prog))
    if missing:
        m_ = missing[0]
        rep.bad("C14.ondisk-persisted", f"BloomFilterOnDisk.{m_.src_name}", "mutator without footer sync",
                f"{m_.cls.name}.{m_.src_name} changes the bits or the counter of an on-disk filter without rewriting the count stored in the file: "
                "a copy exported (or the file reopened) before the next add reports a stale elements_added", m_.where())
    else:
        rep.ok("C14.ondisk-persisted", "every mutator of persisted state reaches __update")
    fe = prog.method("BloomFilterOnDisk", "export")
    oke = True
    for p in paths(prog, "BloomFilterOnDisk", fe):
        cp = [i for i, e in enumerate(p.events) if e.kind == "call" and e.name == "copyfile"]
        up = [i for i, e in enumerate(p.events) if e.kind == "call" and e.target is not None and e.target.src_name == "__update"]
        if cp and (not up or up[0] > cp[0]):
            rep.bad("C14.ondisk-persisted", "BloomFilterOnDisk.export", "copy without sync", "export copies the backing file without first writing the current element count into it", fe.where())
            oke = False
            break
    if oke:
        rep.ok("C14.ondisk-persisted", "BloomFilterOnDisk.export: __update before copyfile")
    # ---------------------------------------------------------------- counting Bloom
    ctx = "CountingBloomFilter"
    num = ("p", "num_els")
    fa = prog.method(ctx, "add_alt")
    ok = True
    for p in paths(prog, ctx, fa):
        if p.exit[0] != "return":
            continue
        ev = counter_events(p, "_els_added")
        want = [canon(("call", ("g", "min"), (("bin", "+", ("f", SELF, "_els_added", 0), num), C(2**64 - 1)), ())),
                canon(("bin", "+", ("f", SELF, "_els_added", 0), num))]
        if len(ev) != 1 or canon(ev[0].value) not in want:
            rep.bad("C14.counting-bloom", f"{ctx}.add_alt", f"total = {nshow(ev[0].value) if ev else 'unchanged'}", "the total does not move by num_els (clamped) exactly once per add", fa.where())
            ok = False
            break
    if ok:
        rep.ok("C14.counting-bloom", f"{ctx}.add_alt: total += num_els (clamped)")
    fr = prog.method(ctx, "remove_alt")
    ok = True
    for p in paths(prog, ctx, fr):
        if p.exit[0] != "return":
            continue
        st = [e for e in p.events if e.kind == "setelem" and outer_field(e.cont) == "_bloom"]
        ev = counter_events(p, "_els_added")
        inloop = any(c.loops for c in p.conds)
        if not st and not inloop and not any(c.atom[0] == "loop0" for c in p.conds):
            if ev:
                rep.bad("C14.counting-bloom", f"{ctx}.remove_alt", "total changed on a no-op", "the total changes although no cell was touched", ev[0].where())
                ok = False
            continue
        if len(ev) != 1 or delta_of(ev[0], "_els_added") is None:
            rep.bad("C14.counting-bloom", f"{ctx}.remove_alt", "total", "the total is not decremented exactly once when cells are decremented", fr.where())
            ok = False
            break
        d = delta_of(ev[0], "_els_added")
        def amount(e):
            v_ = strip_epochs(e.value)
            a_ = v_[3]
            # cell - min(amount, cell): the per-cell clamp of the same amount
            if a_[0] == "call" and a_[1] == ("g", "min") and len(a_[2]) == 2 and v_[2] in a_[2]:
                a_ = [x for x in a_[2] if x != v_[2]][0]
            return canon(a_)
        amts = {amount(e) for e in st if strip_epochs(e.value)[0] == "bin" and strip_epochs(e.value)[1] == "-"}
        if st and (d[0] != "un" or amts != {canon(d[2])}):
            rep.bad("C14.counting-bloom", f"{ctx}.remove_alt", f"total delta {nshow(d)} vs cell delta {sorted(nshow(a) for a in amts)}",
                    "the total is decremented by a different amount than the cells", ev[0].where())
            ok = False
            break
    if ok:
        rep.ok("C14.counting-bloom", f"{ctx}.remove_alt: total -= the amount removed from the cells")
    # ---------------------------------------------------------------- Bloom loaders: the count a load leaves is the stored one
    from .C05 import loaded_obj, reader_paths
    for cn_ in ("BloomFilter", "CountingBloomFilter"):
        for rn in ("_load", "_load_hex", "frombytes"):
            rf_, rps = reader_paths(prog, cn_, rn)
            okld = bool(rps)
            for p in rps:
                v = p.fields.get((loaded_obj(rf_, p), "_els_added"))
                if v is None or not any(n[0] == "unp" for n in walk(v)):
                    rep.bad("C14.bloom", f"{cn_}.{rn}", f"_els_added = {nshow(v) if v else 'unassigned'}",
                            f"after {rn} the element count is {nshow(v) if v else 'not set'}, not the count stored in the input: elements_added no longer tracks the additions "
                            "the loaded filter has seen (and a counting filter's removals drive it negative)", rf_.where())
                    okld = False
                    break
            if okld:
                rep.ok("C14.bloom", f"{cn_}.{rn}: elements_added restored from the stored count")
    # ---------------------------------------------------------------- count-min
    T = "_CountMinSketch__elements_added"
    for fn, sign in (("add_alt", "+"), ("remove_alt", "-")):
        f = prog.method("CountMinSketch", fn)
        ok = True
        for p in paths(prog, "CountMinSketch", f):
            if p.exit[0] != "return":
                continue
            ev = counter_events(p, T)
            if not ev or not saturating_move(p, ev[0], ("bin", sign, ("f", SELF, T, 0), num), (-2**63, 2**63 - 1)):
                rep.bad("C14.count-min", f"CountMinSketch.{fn}", "total", f"the total does not move by {sign}num_els", f.where())
                ok = False
                break
        if ok:
            rep.ok("C14.count-min", f"CountMinSketch.{fn}: total {sign}= num_els")
    f = prog.method("CountMinSketch", "join")
    ok = True
    for p in paths(prog, "CountMinSketch", f):
        if p.exit[0] != "return":
            continue
        ev = counter_events(p, T)
        if not ev and any(c.truth and strip_epochs(c.atom) in (("cmp", "==", ("f", ("p", "second"), T, 0), C(0)), ("cmp", "==", C(0), ("f", ("p", "second"), T, 0)))
                          for c in p.conds):
            continue  # the operand's total is known to be 0 on this path: nothing to add
        if not ev or not saturating_move(p, ev[0], ("bin", "+", ("f", SELF, T, 0), ("f", ("p", "second"), T, 0)), (-2**63, 2**63 - 1)):
            rep.bad("C14.count-min", "CountMinSketch.join", "total", "join does not add the operand's total", f.where())
            ok = False
            break
    if ok:
        rep.ok("C14.count-min", "CountMinSketch.join: total += second.total")
    # ---------------------------------------------------------------- cuckoo insert (weights from the ownership analysis)
    for ctx in CTXS:
        f, flows = insert_flows(prog, ctx)
        counting = ctx == "CountingCuckooFilter"
        okc = True
        for p, fl in flows:
            if p.exit[0] != "return" or strip_epochs(p.exit[1]) != C(None):
                if any(fld == "_inserted_elements" for fld, _, _ in fl.counter) and p.exit[0] == "return":
                    rep.bad("C14.cuckoo-insert", f"{ctx}.{f.src_name}", "counter moved on the failure exit", "the counter is updated although the insert hands back a left-over", f.where())
                    okc = False
                continue
            w = ("p", "count") if counting else C(1)
            tot = [d for fld, d, _ in fl.counter if fld == "_inserted_elements"]
            uniq = [d for fld, d, _ in fl.counter if fld == "_CountingCuckooFilter__unique_elements"]
            if len(tot) != 1 or canon(tot[0]) != canon(w):
                rep.bad("C14.cuckoo-insert", f"{ctx}.{f.src_name}", f"counter += {[nshow(t) for t in tot]} for weight {nshow(w)}",
                        f"on a success exit the table gained an entry of weight {nshow(w)} but elements_added moved by {[nshow(t) for t in tot] or 'nothing'}: "
                        "after re-insertion (expansion) the counter no longer is the sum of the stored counts", fl.counter[0][2].where() if fl.counter else f.where())
                okc = False
            if counting and (len(uniq) != 1 or uniq[0] != C(1)):
                rep.bad("C14.cuckoo-insert", f"{ctx}.{f.src_name}", f"unique += {[nshow(t) for t in uniq]}", "a new bin does not bump unique_elements by exactly one", f.where())
                okc = False
        if okc:
            rep.ok("C14.cuckoo-insert", f"{ctx}.{f.src_name}: counter += weight on every success exit")
        # remove
        rm = prog.method(ctx, "remove")
        okr, seen = True, False
        for p in cpaths(prog, ctx, rm):
            if p.exit[0] != "return":
                continue
            tot = [delta_of(e, "_inserted_elements") for e in counter_events(p, "_inserted_elements")]
            rem = bin_drops(p)
            dec = [e for e in p.events if e.kind == "call" and e.name == "decrement"]
            uniq = [delta_of(e, "_CountingCuckooFilter__unique_elements") for e in counter_events(p, "_CountingCuckooFilter__unique_elements")]
            changed = bool(dec) if counting else bool(rem)
            if changed:
                seen = True
            if changed != (len(tot) == 1) or (tot and tot[0] != ("un", "-", C(1))):
                rep.bad("C14.cuckoo-remove", f"{ctx}.remove", f"table changed={changed}, counter deltas {[nshow(t) if t else '?' for t in tot]}",
                        "elements_added does not drop by one exactly when an entry / one count is removed", rm.where())
                okr = False
                break
            if counting and (bool(rem) != (len(uniq) == 1) or (uniq and uniq[0] != ("un", "-", C(1)))):
                rep.bad("C14.cuckoo-remove", f"{ctx}.remove", "unique_elements", "unique_elements does not drop by one exactly when a bin is dropped", rm.where())
                okr = False
                break
        if okr and seen:
            rep.ok("C14.cuckoo-remove", f"{ctx}.remove")
        # recount on expansion / load
        se = prog.method(ctx, "_setup_expand")
        okx = all(any(e.value == C(0) for e in counter_events(p, "_inserted_elements")) for p in cpaths(prog, ctx, se) if p.exit[0] == "return")
        if counting:
            ex = prog.method(ctx, "_expand_logic")
            for p in cpaths(prog, ctx, ex):
                evs = p.events
                su = [i for i, e in enumerate(evs) if e.kind == "call" and e.name == "_setup_expand"]
                un = [i for i, e in enumerate(evs) if e.kind == "setfield" and e.name == "_CountingCuckooFilter__unique_elements" and e.value == C(0)]
                ins = [i for i, e in enumerate(evs) if e.kind == "call" and e.name == "_insert_fingerprint_alt"]
                if not un or (ins and un[0] > ins[0]):
                    okx = False
        if okx:
            rep.ok("C14.cuckoo-recount", f"{ctx}: expansion resets the counter(s) before re-inserting")
        else:
            rep.bad("C14.cuckoo-recount", f"{ctx}._setup_expand", "no reset", "expansion does not reset the element counter(s) before re-inserting every entry: entries are counted twice", se.where())
        ld = prog.method(ctx, "_load")
        okl = True
        seenl = False
        for p in paths(prog, ctx, ld, inline="deep"):
            if p.exit[0] != "return":
                continue
            evs = [e for e in p.events if e.kind == "setfield" and e.name == "_inserted_elements" and e.base == SELF]
            if not evs:
                okl = False
                break
            lastv = strip_epochs(evs[-1].value)
            tabs = {("f", SELF, "_buckets", 0)}
            if p.fields.get((SELF, "_buckets")) is not None:
                tabs.add(strip_epochs(p.fields[(SELF, "_buckets")]))  # (inside the loader the field reads as what was just assigned)
            if not counting and lastv[0] == "call" and lastv[1] == ("g", "sum") and len(lastv[2]) == 1 and lastv[2][0][0] == "comp" \
                    and len(lastv[2][0][3]) == 1 and not lastv[2][0][3][0][3] and lastv[2][0][3][0][2] in tabs \
                    and lastv[2][0][2] == ("call", ("g", "len"), (("it", lastv[2][0][3][0][1], lastv[2][0][3][0][2]),), ()):
                seenl = True
                continue  # counted afresh from the loaded table: sum(len(bucket) for bucket in buckets)
            if evs[0].value != C(0):
                okl = False
                break
            adds = [delta_of(e, "_inserted_elements") for e in evs[1:]]
            stored = [e for e in p.events if e.kind == "call" and e.target is None and e.name == "append" and e.loops]
            if counting:
                bins = [e for e in p.events if e.kind == "new" and e.cls == "CountingCuckooBin" and e.loops]
                if bins:
                    seenl = True
                    cnt = strip_epochs(bins[0].args[1])
                    un = [delta_of(e, "_CountingCuckooFilter__unique_elements") for e in counter_events(p, "_CountingCuckooFilter__unique_elements")]
                    per_bin = adds == [cnt] and un == [C(1)]
                    # ... or per bucket, over the list of bins just built for it: += sum(b.count for b in bucket), unique += len(bucket)
                    per_bucket = False
                    if len(adds) == 1 and len(un) == 1 and adds[0] is not None and un[0] is not None:
                        a_, u_ = strip_epochs(adds[0]), strip_epochs(un[0])
                        if u_[0] == "call" and u_[1] == ("g", "len") and len(u_[2]) == 1:
                            L_ = u_[2][0]
                            built = L_[0] == "comp" and L_[1] == "list" and strip_epochs(L_[2])[:3] == strip_epochs(bins[0].obj)[:3]
                            if built and a_[0] == "call" and a_[1] == ("g", "sum") and len(a_[2]) == 1 and a_[2][0][0] == "comp" and len(a_[2][0][3]) == 1 \
                                    and not a_[2][0][3][0][3] and strip_epochs(a_[2][0][3][0][2]) == L_:
                                it_ = ("it", a_[2][0][3][0][1], a_[2][0][3][0][2])
                                per_bucket = strip_epochs(a_[2][0][2]) in (("f", strip_epochs(it_), "count", 0), ("sub", ("f", strip_epochs(it_), BINF, 0), C(1), 0))
                    if not per_bin and not per_bucket:
                        okl = False
                        break
            else:
                if len(evs) > 1:
                    seenl = True
                    a = adds[0]
                    if not (a is not None and a[0] == "call" and a[1] == ("g", "len")):
                        okl = False
                        break
        if okl and seenl:
            rep.ok("C14.cuckoo-recount", f"{ctx}._load: counter reset, then recounted from the loaded entries")
        else:
            rep.bad("C14.cuckoo-recount", f"{ctx}._load", "recount", "loading does not reset the counter and recount it from the loaded entries (plain: + len(bucket); counting: + count, unique + 1 per bin)", ld.where())
    # present-key add of the counting filter
    add = prog.method("CountingCuckooFilter", "add")
    oka, seen = True, False
    for p in cpaths(prog, "CountingCuckooFilter", add):
        inc = [e for e in p.events if e.kind == "call" and e.name == "increment"]
        tot = [delta_of(e, "_inserted_elements") for e in counter_events(p, "_inserted_elements")]
        if inc:
            seen = True
        if bool(inc) != (tot == [C(1)]):
            rep.bad("C14.cuckoo-insert", "CountingCuckooFilter.add", f"increment={bool(inc)} counter deltas {[nshow(t) if t else '?' for t in tot]}",
                    "elements_added does not move by one exactly when an existing bin is incremented", add.where())
            oka = False
            break
    if oka and seen:
        rep.ok("C14.cuckoo-insert", "CountingCuckooFilter.add: bin.increment() <-> elements_added += 1")
    quotient_counter_rules(prog, rep, "C14.quotient")
    # ---------------------------------------------------------------- load factors
    lf = {"CuckooFilter": ("load_factor", ("bin", "/", ("f", SELF, "_inserted_elements", 0), ("bin", "*", ("f", SELF, "_cuckoo_capacity", 0), ("f", SELF, "_bucket_size", 0)))),
          "CountingCuckooFilter": ("load_factor", ("bin", "/", ("f", SELF, "_CountingCuckooFilter__unique_elements", 0), ("bin", "*", ("f", SELF, "_cuckoo_capacity", 0), ("f", SELF, "_bucket_size", 0)))),
          "QuotientFilter": ("load_factor", ("bin", "/", ("f", SELF, "_elements_added", 0), ("f", SELF, "_size", 0)))}
    for ctx, (nm, want) in lf.items():
        K = prog.cls(ctx)
        f = K.find_method(nm) or K.find_getter(nm)
        rv = {canon(p.exit[1]) for p in paths(prog, ctx, f) if p.exit[0] == "return"}
        from ..common import expand_derived, maintained_derived
        derived, stale = maintained_derived(prog, ctx)
        used_stale = [d for d in stale if any(n[0] == "f" and n[1] == SELF and n[2] == d for v in rv for n in walk(v))]
        if rv != {canon(want)} and used_stale:
            d = used_stale[0]
            sf, sev, ins = stale[d]
            rep.bad("C14.load-factor", f"{ctx}.{nm}", f"reads remembered {d}",
                    f"the load factor reads {d}, which remembers {nshow(derived[d])}; {sf.cls.name if sf.cls else ''}.{sf.src_name} assigns {sev.name} and does not refresh it afterwards, "
                    "so the load factor is computed for a table size the filter no longer has", sev.where())
            continue
        if rv != {canon(want)}:
            rv = {canon(expand_derived(prog, ctx, v)) for v in rv}  # a remembered product that every writer of its factors refreshes
        if rv == {canon(want)}:
            rep.ok("C14.load-factor", f"{ctx}.{nm}")
        else:
            rep.bad("C14.load-factor", f"{ctx}.{nm}", f"returns {sorted(nshow(x) for x in rv)}", f"the load factor is not {nshow(want)}", f.where())
    # ---------------------------------------------------------------- Bloom statistics
    ctx = "BloomFilter"
    m, k, n_ = ("f", SELF, "_num_bits", 0), ("f", SELF, "_number_hashes", 0), ("f", SELF, "_els_added", 0)
    fl = lambda x: ("call", ("g", "float"), (x,), ())  # noqa: E731
    f = prog.method(ctx, "estimate_elements")
    X = None
    okst = True
    for p in paths(prog, ctx, f):
        if p.exit[0] != "return":
            continue
        rv = strip_epochs(p.exit[1])
        xs = [e.value for e in p.events if e.kind == "bind" and strip_epochs(e.value)[0] == "ret" and strip_epochs(e.value)[1].endswith("._cnt_number_bits_set")]
        if not xs:
            okst = False
            break
        X = strip_epochs(xs[0])
        full = [c for c in p.conds if strip_epochs(c.atom) in (("cmp", ">=", X, m), ("cmp", "<", X, m))]
        if rv == C(-1):
            continue
        want = ("call", ("g", "int"), (("bin", "*", ("bin", "*", C(-1), ("bin", "/", fl(m), fl(k))),
                                         ("call", ("ext", "math", "log"), (("bin", "-", C(1), ("bin", "/", fl(X), fl(m))),), ())),), ())
        from ..expr import mapx
        # float(x) / float(y) and x / y are the same true division for the integer geometry fields and counts
        nofl = lambda v_: mapx(strip_epochs(v_), lambda n: n[2][0] if (n[0] == "call" and n[1] == ("g", "float") and len(n[2]) == 1 and n[2][0][0] in ("f", "ret", "hv", "p")) else None)  # noqa: E731
        d = first_diff(canon(norm(nofl(want))), canon(norm(nofl(rv))))
        if d is not None:
            rep.bad("C14.bloom-statistics", f"{ctx}.estimate_elements", f"estimate {nshow(rv)}", f"the estimate is {nshow(rv)}, not int(-(m/k) ln(1 - X/m)) ({d[1]} differs)", f.where(p.exit[2]))
            okst = False
            break
    if okst and X is not None:
        rep.ok("C14.bloom-statistics", f"{ctx}.estimate_elements = int(-(m/k) ln(1 - X/m)), X = set-bit count")
    elif okst:
        rep.bad("C14.bloom-statistics", f"{ctx}.estimate_elements", "no set-bit count", "the estimate is not computed from the set-bit count", f.where())
    f = prog.method(ctx, "current_false_positive_rate")
    want = ("call", ("ext", "math", "pow"), (("bin", "-", C(1), ("call", ("ext", "math", "exp"), (("bin", "/", ("bin", "*", ("bin", "*", k, C(-1)), n_), m),), ())), k), ())
    rv = [p.exit[1] for p in paths(prog, ctx, f) if p.exit[0] == "return"]
    d = first_diff(canon(want), canon(rv[0])) if rv else ("", "shape", None, None)
    if d is None:
        rep.ok("C14.bloom-statistics", f"{ctx}.current_false_positive_rate = (1 - e^(-kn/m))^k")
    else:
        rep.bad("C14.bloom-statistics", f"{ctx}.current_false_positive_rate", f"rate {nshow(rv[0]) if rv else '?'}", f"the current rate is {nshow(rv[0]) if rv else '?'}, not (1 - e^(-k n / m))^k ({d[1]} differs)", f.where())
    for cctx in ("BloomFilter", "CountingBloomFilter"):
        for fn in ("union", "intersection"):
            f = prog.method(cctx, fn)
            okr, seen = True, False
            for p in paths(prog, cctx, f):
                if p.exit[0] != "return" or p.exit[1][0] != "new":
                    continue
                seen = True
                v = p.fields.get((p.exit[1], "_els_added"))
                if v is None or not (strip_epochs(v)[0] == "ret" and strip_epochs(v)[1].endswith(".estimate_elements") and strip_epochs(v)[3] == (strip_epochs(p.exit[1]),)):
                    okr = False
            if okr and seen:
                rep.ok("C14.bloom-statistics", f"{cctx}.{fn}: result counter = its own estimate_elements()")
            else:
                rep.bad("C14.bloom-statistics", f"{cctx}.{fn}", "result counter", "the result's element counter is not its estimate_elements()", f.where())
    # counting Bloom's set-bit count
    f = prog.method("CountingBloomFilter", "_cnt_number_bits_set")
    rv = [strip_epochs(p.exit[1]) for p in paths(prog, "CountingBloomFilter", f) if p.exit[0] == "return"]
    okn = False
    if len(rv) == 1 and rv[0][0] == "call" and rv[0][1] == ("g", "sum") and rv[0][2][0][0] == "comp" and rv[0][2][0][2] == C(1) and \
            strip_epochs(rv[0][2][0][3][0][2]) == ("f", SELF, "_bloom", 0) and len(rv[0][2][0][3][0][3]) == 1:
        g_ = rv[0][2][0][3][0]
        el = ("it", g_[1], ("f", SELF, "_bloom", 0))
        flt = g_[3][0]
        # the filter keeps exactly the non-zero cells (unsigned): x > 0, x != 0, 0 < x, or x's truthiness
        okn = flt in (("cmp", ">", el, C(0)), ("cmp", "!=", el, C(0)), ("cmp", "<", C(0), el), ("cmp", ">=", el, C(1)), el)
    if not okn and len(rv) == 1:
        # ... or all cells minus the zero ones: len(cells) - cells.count(0)
        F_ = ("f", SELF, "_bloom", 0)
        okn = canon(rv[0]) == canon(("bin", "-", ("call", ("g", "len"), (F_,), ()), ("call", ("m", F_, "count"), (C(0),), ())))
    if okn:
        rep.ok("C14.bloom-statistics", "CountingBloomFilter: X = number of non-zero cells")
    else:
        rep.bad("C14.bloom-statistics", "CountingBloomFilter._cnt_number_bits_set", f"returns {[nshow(x) for x in rv]}", "the set-position count is not the number of non-zero cells", f.where())


from ..selftest import Mutant, del_stmt, insert_stmt, replace_expr, replace_stmt, seq

_B, _CB, _E, _CM, _CK, _CC, _Q = ("blooms/bloom.py", "blooms/countingbloom.py", "blooms/expandingbloom.py", "countminsketch/countminsketch.py",
                                  "cuckoo/cuckoo.py", "cuckoo/countingcuckoo.py", "quotientfilter/quotientfilter.py")
MUTANTS = [
    Mutant("D8 re-introduced: counting insert adds 1 instead of count", _CC, replace_stmt("CountingCuckooFilter", "_insert_fingerprint_alt", "self._inserted_elements += count", "self._inserted_elements += 1"), rule="C14.cuckoo-insert"),
    Mutant("D11 re-introduced: quotient removal does not count (early exit)", _Q, del_stmt("QuotientFilter", "_remove_element", "self._elements_added -= 1"), rule="C14.quotient"),
    Mutant("D11 re-introduced: quotient removal does not count (main exit)", _Q, del_stmt("QuotientFilter", "_remove_element", "self._elements_added -= 1", nth=1), rule="C14.quotient"),
    Mutant("counting _parse_buckets: delete += count", _CC, del_stmt("CountingCuckooFilter", "_parse_buckets", "self._inserted_elements += count"), rule="C14.cuckoo-recount"),
    Mutant("counting _expand_logic: unique = 1", _CC, replace_stmt("CountingCuckooFilter", "_expand_logic", "self.__unique_elements = 0", "self.__unique_elements = 1"), rule="C14.cuckoo-recount"),
    Mutant("_setup_expand keeps the old counter", _CK, del_stmt("CuckooFilter", "_setup_expand", "self._inserted_elements = 0"), rule="C14.cuckoo-recount"),
    Mutant("cuckoo remove forgets the counter", _CK, del_stmt("CuckooFilter", "remove", "self._inserted_elements -= 1"), rule="C14.cuckoo-remove"),
    Mutant("counting remove: unique not decremented", _CC, del_stmt("CountingCuckooFilter", "remove", "self.__unique_elements -= 1"), rule="C14.cuckoo-remove"),
    Mutant("cuckoo _load does not reset the counter", _CK, del_stmt("CuckooFilter", "_load", "self._inserted_elements = 0"), rule="C14.cuckoo-recount"),
    Mutant("counting add on present key does not count", _CC, del_stmt("CountingCuckooFilter", "add", "self._inserted_elements += 1"), rule="C14.cuckoo-insert"),
    Mutant("counting Bloom remove: total -= num_els", _CB, replace_stmt("CountingBloomFilter", "remove_alt", "self.elements_added -= to_remove", "self.elements_added -= num_els"), rule="C14.counting"),
    Mutant("count-min remove: total untouched", _CM, del_stmt("CountMinSketch", "remove_alt", "self.__elements_added -= num_els"), rule="C14.count-min"),
    Mutant("estimate_elements: bits/hashes inverted", _B, replace_expr("BloomFilter", "estimate_elements", "float(self.number_bits) / float(self.number_hashes)", "float(self.number_hashes) / float(self.number_bits)"), rule="C14.bloom-stat"),
    Mutant("current fpr: exponent without the sign", _B, replace_expr("BloomFilter", "current_false_positive_rate", "self.number_hashes * -1 * self.elements_added", "self.number_hashes * self.elements_added"), rule="C14.bloom-stat"),
    Mutant("union result counter = sum of operands", _B, replace_stmt("BloomFilter", "union", "res.elements_added = res.estimate_elements()", "res.elements_added = self.elements_added + second.elements_added"), rule="C14.bloom-stat"),
    Mutant("quotient load factor from size only", _Q, replace_expr("QuotientFilter", "load_factor", "self._elements_added / self._size", "len(self._filter) / self._size"), rule="C14.load"),
    Mutant("expanding add_alt counts only effective insertions", _E, replace_stmt("ExpandingBloomFilter", "add_alt", "self._added_elements += 1", "pass"), rule="C14.bloom"),
    Mutant("on-disk clear and export only flush the mapping", _B,
           seq(replace_stmt("BloomFilterOnDisk", "clear", "self.__update()", "self._bloom.flush()"), replace_stmt("BloomFilterOnDisk", "export", "self.__update()", "self._bloom.flush()")), rule="C14.ondisk"),
    Mutant("quotient _add counts before the space check (same on normal paths)", _Q, replace_stmt("QuotientFilter", "_add", "if self._size == self._elements_added", "if self._size <= self._elements_added:\n    raise QuotientFilterError('Unable to insert the element due to insufficient space')"), expect="silent"),
]
