"""C08 - counting filters count exactly and removal undoes addition."""
from __future__ import annotations

import ast as _ast

from ..common import all_conds, conds_at, nshow, outer_field, paths
from ..expr import C, SELF, canon, mapx, norm, show, strip_epochs, walk
from ..intervals import EQ, GT, LT, path_orderings
from ..model import AnalysisError
from ..own import BINF, is_bucket
from .C03 import cpaths, insert_flows, key_triple, presence

EXPL = ("Counting Bloom: add_alt, remove_alt and check_alt address the same cells (index = hash mod number of positions over the "
        "key's hash list; the lemmas 'bloom_length = number of bits in this class' and 'len(hashes) = number_hashes' are checked "
        "/ stated), add and remove walk the same index list once per occurrence with amounts num_els and min(num_els, current "
        "minimum), and the two no-op exits of remove are guarded exactly by minimum == 0 and minimum == limit, before any store.  "
        "Counting cuckoo (ownership analysis with weights): the bin inserted for a key carries the caller's count on every path "
        "including the eviction path; a kicked bin is re-inserted with its own fingerprint and count; add on a present key "
        "increments its bin; remove decrements, drops the bin exactly at zero, and the absent path returns False before any "
        "mutation.  The counts themselves under collisions are not decided.")
FILES = ["blooms/countingbloom.py", "cuckoo/countingcuckoo.py"]
CB = "CountingBloomFilter"
CC = "CountingCuckooFilter"
UMAX = 2**32 - 1


def index_forms(prog, fname):
    """set of (modulus field, source, domain description) used to address the counter array in fname"""
    f = prog.method(CB, fname)
    out = set()
    evs = []
    for p in paths(prog, CB, f):
        items = []
        for e in p.events:
            if e.kind == "setelem" and outer_field(e.cont) == "_bloom" and strip_epochs(e.cont)[1] == SELF:
                items.append((e.index, e))
            vals = [e.d.get("value")] if e.kind in ("setelem", "return", "bind", "setfield") else (list(e.args) if e.kind == "call" else [])
            for v in vals:
                if v is None:
                    continue
                for n in walk(v):
                    if n[0] == "sub" and strip_epochs(n[1]) == ("f", SELF, "_bloom", 0):
                        items.append((n[2], e))
        for idx, e in items:
            idx = strip_epochs(idx)
            comp = None
            cur = idx
            # unwrap: indices[i] / for k in indices / enumerate(indices)
            while True:
                if cur[0] == "sub" and cur[1][0] == "comp":
                    comp = cur[1]
                    break
                if cur[0] == "it":
                    d = cur[2]
                    while d[0] == "call" and d[1] == ("g", "enumerate"):
                        d = d[2][0]
                    if d[0] == "comp":
                        comp = d
                        break
                    # direct:  x % m for x in hashes  inside a generator: idx itself is the element expression
                    break
                break
            elt, gens = (comp[2], comp[3]) if comp is not None else (idx, None)
            elt = strip_epochs(elt)
            if not (elt[0] == "bin" and elt[1] == "%" and elt[3][0] == "f" and elt[3][1] == SELF):
                out.add(("?", nshow(elt), ""))
                evs.append(e)
                continue
            mod = elt[3][2]
            src = elt[2]
            if src[0] == "sub" and src[1] == ("p", "hashes") and src[2][0] == "it":
                dom = strip_epochs(src[2][2])
                desc = "first-k" if dom == ("call", ("g", "range"), (("f", SELF, "_number_hashes", 0),), ()) else nshow(dom)
            elif src[0] == "it" and strip_epochs(src[2]) == ("p", "hashes"):
                desc = "all"
            else:
                desc = nshow(src)
            out.add((mod, "hashes", desc))
            evs.append(e)
    return f, out, evs


def check(prog, rep, tier):
    rep.extra["explanation"] = EXPL
    rep.rule("C08.cbf-address", "counting Bloom add / remove / check address the same cells", floor=3)
    rep.rule("C08.cbf-length-lemma", "in CountingBloomFilter the array length equals the number of bit positions", floor=1)
    rep.rule("C08.cbf-symmetry", "add and remove walk the same index list once per occurrence; amounts num_els vs min(num_els, minimum)", floor=2)
    rep.rule("C08.cbf-noop-exits", "remove returns without a store exactly when the minimum is 0 or at the limit", floor=1)
    rep.rule("C08.cc-weights", "a bin inserted for a key carries the caller's count; a kicked bin keeps its own fingerprint and count", floor=1)
    rep.rule("C08.cc-add-present", "add on a present key increments that key's bin (and nothing else)", floor=1)
    rep.rule("C08.cc-bin-identity", "a counting bin matches a value exactly when the value is its fingerprint (the count cell takes no part)", floor=1)
    rep.rule("C08.cc-check", "check reports the count of the one bin holding the key's fingerprint (each candidate bucket visited once), 0 when absent", floor=1)
    rep.rule("C08.cc-remove", "remove decrements, drops the bin exactly at zero, and says False without mutation when absent", floor=1)
    rep.assume("hash-strategy contract: len(hashes(key)) == number_hashes")
    # ---------------------------------------------------------------- counting Bloom addressing
    forms = {}
    for fn in ("add_alt", "remove_alt", "check_alt"):
        f, fs, evs = index_forms(prog, fn)
        rep.analysed(f, CB, 1)
        forms[fn] = fs
        bad = [x for x in fs if x[0] == "?"]
        norm_fs = {("positions" if m in ("_bloom_length", "_num_bits") else m, s, "key-hashes" if d in ("first-k", "all") else d) for (m, s, d) in fs}
        if bad or norm_fs != {("positions", "hashes", "key-hashes")}:
            rep.bad("C08.cbf-address", f"{CB}.{fn}", f"cells {sorted(fs)}",
                    f"{fn} addresses counters as {sorted(fs)}; expected hash mod number-of-positions over the key's hash list, as add_alt/remove_alt/check_alt must agree", f.where())
        else:
            rep.ok("C08.cbf-address", f"{CB}.{fn}: {sorted(fs)}")
    # lemma: _bloom_length == _num_bits in this context
    init = prog.cls(CB).find_method("__init__")
    okl, seen = True, False
    for p in paths(prog, CB, init, inline="deep"):
        if p.exit[0] != "return":
            continue
        bl, nb = p.fields.get((SELF, "_bloom_length")), p.fields.get((SELF, "_num_bits"))
        if bl is None or nb is None:
            continue
        seen = True
        a, b = canon(bl), canon(nb)
        one = canon(("call", ("ext", "math", "ceil"), (("bin", "/", nb, C(1.0)),), ()))
        if a != b and a != one:
            rep.bad("C08.cbf-length-lemma", f"{CB}.__init__", f"length {nshow(bl)} vs bits {nshow(nb)}",
                    f"a construction path leaves bloom_length = {nshow(bl)} but number_bits = {nshow(nb)}: add/remove (mod bloom_length) and check (mod number_bits) address different cells", init.where())
            okl = False
            break
    if okl and seen:
        rep.ok("C08.cbf-length-lemma", "bloom_length == number_bits (or ceil(bits / 1.0)) on every construction path")
    # ---------------------------------------------------------------- symmetry of amounts and index lists
    fa, fr = prog.method(CB, "add_alt"), prog.method(CB, "remove_alt")
    num = ("p", "num_els")

    def index_list(ps):
        out = set()
        for p in ps:
            for e in p.events:
                if e.kind == "setelem" and outer_field(e.cont) == "_bloom" and e.loops:
                    idx = strip_epochs(e.index)
                    d = idx[2] if idx[0] == "it" else (idx[1] if idx[0] == "sub" else None)
                    while d is not None and d[0] == "call" and d[1] == ("g", "enumerate"):
                        d = d[2][0]
                    out.add(canon(d) if d is not None else None)
        return out
    pa, pr = paths(prog, CB, fa), paths(prog, CB, fr)
    la, lr = index_list(pa), index_list(pr)
    oks = True
    if la != lr or len(la) != 1 or None in la:
        rep.bad("C08.cbf-symmetry", f"{CB}.remove_alt", "index lists differ",
                f"add walks {sorted(nshow(x) for x in la if x)} but remove walks {sorted(nshow(x) for x in lr if x)}: removal does not undo addition", fr.where())
        oks = False
    # amounts
    for p in pa:
        for e in p.events:
            if e.kind == "setelem" and outer_field(e.cont) == "_bloom" and e.loops:
                rd = ("sub", ("f", SELF, "_bloom", 0), strip_epochs(e.index), 0)
                v = canon(e.value)
                s = canon(("bin", "+", rd, num))
                if v != s and v != C(UMAX) and v != canon(("call", ("g", "min"), (s, C(UMAX)), ())):
                    rep.bad("C08.cbf-symmetry", f"{CB}.add_alt", f"store {nshow(e.value)}", f"add stores {nshow(e.value)}; expected the cell plus num_els (or the limit)", e.where())
                    oks = False
    mins = None
    for p in pr:
        for e in p.events:
            if e.kind == "setelem" and outer_field(e.cont) == "_bloom" and e.loops:
                rd = ("sub", ("f", SELF, "_bloom", 0), strip_epochs(e.index), 0)
                v = strip_epochs(e.value)
                if not (v[0] == "bin" and v[1] == "-" and canon(v[2]) == canon(rd)):
                    rep.bad("C08.cbf-symmetry", f"{CB}.remove_alt", f"store {nshow(e.value)}", "remove does not store the cell minus an amount", e.where())
                    oks = False
                    continue
                amt = v[3]
                # a store clamped against the cell as it is now - cell - min(amount, cell) - subtracts the amount wherever the cell can
                # afford it (always, while no more is removed than was added) and pins a cell that two hashes select at 0 otherwise
                if amt[0] == "call" and amt[1] == ("g", "min") and len(amt[2]) == 2 and any(strip_epochs(x) == strip_epochs(v[2]) for x in amt[2]):
                    amt = [x for x in amt[2] if strip_epochs(x) != strip_epochs(v[2])][0]
                # amount = num_els if min_val > num_els else min_val, min_val = min over the key's cells
                mv = [n for n in walk(amt) if n[0] == "call" and n[1] == ("g", "min") and len(n[2]) == 1]
                want = None
                if mv:
                    want = [canon(("phi", ("cmp", ">", mv[0], num), num, mv[0])), canon(("phi", ("cmp", ">=", mv[0], num), num, mv[0])),
                            canon(("call", ("g", "min"), (mv[0], num), ()))]
                stmt_ok = False
                if True:
                    # statement form: the amount is num_els or the minimum, chosen by a comparison of the two on this path
                    cmpc = [c for c in p.conds if strip_epochs(c.atom)[0] == "cmp" and strip_epochs(c.atom)[1] in (">", ">=", "<", "<=")
                            and num in (strip_epochs(c.atom)[2], strip_epochs(c.atom)[3])
                            and any(n[0] == "call" and n[1] == ("g", "min") for n in walk(c.atom))]
                    if cmpc:
                        a_ = strip_epochs(cmpc[0].atom)
                        mexp = a_[2] if a_[3] == num else a_[3]
                        min_gt = (a_[1] in (">", ">=")) == (a_[2] == mexp)  # atom says  minimum > num_els  (or >=)
                        holds = min_gt == cmpc[0].truth
                        stmt_ok = (holds and canon(amt) == canon(num)) or (not holds and canon(amt) == canon(mexp))
                if stmt_ok:
                    continue
                if not mv or canon(amt) not in want:
                    rep.bad("C08.cbf-symmetry", f"{CB}.remove_alt", f"amount {nshow(amt)}",
                            f"remove subtracts {nshow(amt)}; expected min(num_els, current minimum of the key's cells): removing what was added must restore the cells", e.where())
                    oks = False
    for p in pr:
        for c in p.conds:
            for n in walk(c.atom):
                if n[0] == "call" and n[1] in (("g", "min"), ("g", "max")) and len(n[2]) == 1 and n[2][0][0] == "star":
                    rep.bad("C08.cbf-symmetry", f"{CB}.remove_alt", f"{n[1][1]}(*cells)",
                            f"the key's minimum is computed as {n[1][1]}(*cells): with a single hash position that call receives one int and raises TypeError, so such a key can never be removed", fr.where(c.node))
                    oks = False
                    break
            if not oks:
                break
        if not oks:
            break
    if oks:
        rep.ok("C08.cbf-symmetry", f"{CB}: same index list; +num_els / -min(num_els, minimum) per occurrence")
        rep.ok("C08.cbf-symmetry", f"{CB}: remove amount is min(num_els, minimum)")
    # no-op exits
    okn = True
    exits = 0
    by_amount = False
    for p in pr:
        if p.exit[0] != "return":
            continue
        stores = [e for e in p.events if e.kind == "setelem" and outer_field(e.cont) == "_bloom"]
        rv = strip_epochs(p.exit[1])
        mv = [n for c in p.conds for n in walk(strip_epochs(c.atom)) if n[0] == "call" and n[1] == ("g", "min")]
        if not mv:
            # the pinned exit taken before the minimum is computed: all(cell == LIMIT ...) holds, nothing stored, the limit reported
            pinned_all = any(c.truth and strip_epochs(c.atom)[0] == "call" and strip_epochs(c.atom)[1] == ("g", "all") and
                             any(n == C(UMAX) for n in walk(strip_epochs(c.atom))) for c in p.conds)
            if pinned_all and not stores and rv == C(UMAX):
                exits += 1
            continue
        m = mv[0]
        conds = [strip_epochs(c) for c in all_conds(p)]
        # all(cell == LIMIT for the key's cells) is  minimum == LIMIT  (no cell exceeds the limit); its negation  minimum < LIMIT
        extra_ = []
        for c_ in conds:
            neg_ = c_[0] == "un" and c_[1] == "not"
            x_ = c_[2] if neg_ else c_
            if x_[0] == "call" and x_[1] == ("g", "all") and len(x_[2]) == 1 and x_[2][0][0] == "comp" and len(x_[2][0][3]) == 1 and not x_[2][0][3][0][3]:
                el_ = x_[2][0][2]
                same_cells = m[0] == "call" and len(m[2]) == 1 and m[2][0][0] == "comp" and strip_epochs(m[2][0][3][0][2]) == strip_epochs(x_[2][0][3][0][2])
                if el_[0] == "cmp" and el_[1] == "==" and C(UMAX) in (el_[2], el_[3]) and same_cells:
                    extra_.append(("cmp", "<" if neg_ else "==", m, C(UMAX)))
        conds = conds + extra_
        o0 = path_orderings(conds, m, C(0))
        om = path_orderings(conds, m, C(UMAX))
        inloop = any(c.loops for c in p.conds) or any(c.atom[0] == "loop0" for c in p.conds)
        if not inloop and not stores:
            exits += 1
            if not (o0 <= {EQ} or om <= {EQ}):
                rep.bad("C08.cbf-noop-exits", f"{CB}.remove_alt", f"early return with minimum vs 0 in {sorted(o0)}, vs limit in {sorted(om)}",
                        f"remove returns {nshow(rv)} without touching the cells on a path where the minimum may be something other than 0 or the limit: a present key is not removed", fr.where(p.exit[2]))
                okn = False
            if o0 <= {EQ} and rv not in (C(0), m) or (om <= {EQ} and not o0 <= {EQ} and rv not in (C(UMAX), m)):
                rep.bad("C08.cbf-noop-exits", f"{CB}.remove_alt", f"no-op returns {nshow(rv)}", "the no-op exit does not report the unchanged count", fr.where(p.exit[2]))
                okn = False
        elif stores:
            # a store on a path that may have minimum 0 is still a no-op when the amount is min(num_els, minimum), which is 0 there
            def zero_at_zero(e):
                v = strip_epochs(e.value)
                if not (v[0] == "bin" and v[1] == "-"):
                    return False
                return canon(v[3]) in (canon(("call", ("g", "min"), (m, num), ())), canon(("phi", ("cmp", ">", m, num), num, m)),
                                       canon(("phi", ("cmp", ">=", m, num), num, m)))
            if EQ in o0 and all(zero_at_zero(e) for e in stores):
                by_amount = True
            if (EQ in o0 and not all(zero_at_zero(e) for e in stores)) or EQ in om:
                rep.bad("C08.cbf-noop-exits", f"{CB}.remove_alt", "stores with minimum at 0 or at the limit",
                        "cells are decremented on a path where the key's minimum may be 0 (absent) or at the limit (pinned)", stores[0].where())
                okn = False
    if okn and by_amount:
        exits += 1  # the absent case is a no-op through its amount
    if okn and exits >= 2:
        rep.ok("C08.cbf-noop-exits", f"{CB}.remove_alt: {exits} no-op exits guarded by minimum == 0 / == limit")
    elif okn:
        rep.bad("C08.cbf-noop-exits", f"{CB}.remove_alt", f"{exits} no-op exits", "remove lacks the absent / pinned no-op exits", fr.where())
    # ---------------------------------------------------------------- counting cuckoo weights
    f, flows = insert_flows(prog, CC)
    okw = True
    for p, fl in flows:
        for (rule, msg, e) in fl.problems:
            if rule == "own.weight":
                rep.bad("C08.cc-weights", f"{CC}.{f.src_name}", "bin weight", msg + ": after an eviction the key reports a count other than its outstanding additions", e.where())
                okw = False
    # direct appends in __insert_element carry the caller's count
    if okw:
        rep.ok("C08.cc-weights", f"{CC}.{f.src_name}: every bin built for a held entry carries that entry's count")
    ex = prog.method(CC, "_expand_logic")
    oke = True
    for p in cpaths(prog, CC, ex):
        for e in p.events:
            if e.kind == "call" and e.name == "_insert_fingerprint_alt" and e.loops:
                a = [strip_epochs(x) for x in e.args] + [strip_epochs(v) for v in e.kwargs.values()]
                elem = [n for n in walk(a[0]) if n[0] == "it"]
                if not elem or len(a) < 4:
                    oke = False
                    continue
                fg = ("sub", ("f", elem[0], BINF, 0), C(0), 0)
                ct = ("sub", ("f", elem[0], BINF, 0), C(1), 0)
                alt = (("f", elem[0], "finger", 0), ("f", elem[0], "count", 0))
                if (a[0], a[3]) != (fg, ct) and (a[0], a[3]) != alt:
                    rep.bad("C08.cc-weights", f"{CC}._expand_logic", f"re-insert({nshow(a[0])}, count={nshow(a[3]) if len(a) > 3 else 'default'})",
                            "an entry is re-inserted on expansion without its own count: counts are reset by expansion", e.where())
                    oke = False
    if not oke and okw:
        rep.bad("C08.cc-weights", f"{CC}._expand_logic", "re-insert count", "expansion does not re-insert each bin with its own count", ex.where())
    def first_holder(recv, p):
        """recv is next(<bins of the bucket the look-up named> that hold the key's fingerprint): the found bin, written as a search"""
        r = strip_epochs(recv)
        if not (r[0] == "call" and r[1] == ("g", "next") and len(r[2]) == 1 and r[2][0][0] == "comp" and r[2][0][1] == "gen"):
            return False
        g = r[2][0]
        if len(g[3]) != 1 or len(g[3][0][3]) != 1:
            return False
        elem, dom, flt = g[2], g[3][0][2], g[3][0][3][0]
        if elem != ("it", g[3][0][1], dom) or not (dom[0] == "sub" and dom[1] == ("f", SELF, "_buckets", 0)):
            return False
        b = dom[2]
        if not (b[0] == "ret" and b[1].endswith("._check_if_present") and len(b[3]) == 4):
            return False
        fp = b[3][3]
        named = any((c.truth and strip_epochs(c.atom) == ("cmp", "isnot", b, C(None))) or (not c.truth and strip_epochs(c.atom) == ("cmp", "is", b, C(None))) for c in p.conds)
        return named and flt in (("cmp", "in", fp, elem), ("cmp", "==", ("f", elem, "finger", 0), fp), ("cmp", "==", fp, ("f", elem, "finger", 0)))

    # add on a present key
    add = prog.method(CC, "add")
    oka, seen = True, False
    for p in cpaths(prog, CC, add):
        inc = [e for e in p.events if e.kind == "call" and e.name == "increment"]
        ins = [e for e in p.events if e.kind == "call" and e.name == "_insert_fingerprint_alt"]
        pr = presence(p)
        if pr is not None and pr[0] == "infeasible":
            continue
        present = pr is not None and pr[0] == "present"
        if inc:
            seen = True
            # the bin that is incremented is the one found to hold the key's fingerprint
            if not present or len(inc) != 1 or ins or not ((pr[1] is not None and strip_epochs(inc[0].recv) == pr[1]) or first_holder(inc[0].recv, p)):
                rep.bad("C08.cc-add-present", f"{CC}.add", "increment", "a present key's add does not increment exactly the bin holding its fingerprint", inc[0].where())
                oka = False
        if ins and not inc and pr is None:
            rep.bad("C08.cc-add-present", f"{CC}.add", "insert without a complete look-up", "a new bin is inserted on a path that has not searched both candidate buckets for the key's "
                    "fingerprint: a key that is already stored gets a second bin, and its additions are split over two counts", ins[0].where())
            oka = False
        if present and not inc and ins and not any(c.atom[0] == "loop0" for c in p.conds) and not any(c.loops for c in p.conds):
            rep.bad("C08.cc-add-present", f"{CC}.add", "present key inserted again", "a present key is inserted as a new bin instead of being counted", ins[0].where())
            oka = False
    if oka and seen:
        rep.ok("C08.cc-add-present", f"{CC}.add: present -> bin.increment()")
    elif oka:
        rep.bad("C08.cc-add-present", f"{CC}.add", "no increment", "add never increments an existing bin", add.where())
    # what "the bin holding the fingerprint" means: a bin matches a value exactly when the value is its fingerprint
    binf = ("f", SELF, BINF, 0)
    fing = ("sub", binf, C(0), 0)
    cb = prog.method("CountingCuckooBin", "__contains__")
    okbin, nb = True, 0
    for p in paths(prog, "CountingCuckooBin", cb, inline="deep"):
        if p.exit[0] != "return":
            continue
        nb += 1
        rv = strip_epochs(p.exit[1])
        val = ("p", cb.params[-1])
        if rv not in (("cmp", "==", fing, val), ("cmp", "==", val, fing)):
            rep.bad("C08.cc-bin-identity", "CountingCuckooBin.__contains__", f"returns {nshow(rv)}",
                    f"a bin answers `value in bin` with {nshow(rv)}, not with fingerprint == value: a value that equals the bin's COUNT matches too, so add / check / remove "
                    "of a key act on another key's bin", cb.where())
            okbin = False
    if okbin and nb:
        rep.ok("C08.cc-bin-identity", "CountingCuckooBin.__contains__: fingerprint == value")
    # ... and its count moves by exactly one per increment / decrement (no wrap-around: the array('I') cell refuses what does not fit)
    cnt = ("sub", binf, C(1), 0)
    for mname, sign in (("increment", "+"), ("decrement", "-")):
        mf = prog.method("CountingCuckooBin", mname)
        okm, nm = True, 0
        for p in paths(prog, "CountingCuckooBin", mf, inline="deep"):
            if p.exit[0] != "return":
                continue
            nm += 1
            st_ = [e for e in p.events if e.kind == "setelem" and strip_epochs(e.cont) == binf]
            want_ = canon(("bin", sign, cnt, C(1)))
            if len(st_) != 1 or strip_epochs(st_[0].index) != C(1) or canon(strip_epochs(st_[0].value)) != want_:
                got_ = nshow(st_[0].value) if st_ else "nothing"
                rep.bad("C08.cc-bin-identity", f"CountingCuckooBin.{mname}", f"stores {got_}",
                        f"{mname} stores {got_} as the new count, expected count {sign} 1: a masked or clamped count wraps to 0 (a bin with count zero) or stops counting", mf.where())
                okm = False
                break
            if canon(strip_epochs(p.exit[1])) not in (want_, canon(cnt)):
                rep.bad("C08.cc-bin-identity", f"CountingCuckooBin.{mname}", f"returns {nshow(p.exit[1])}", f"{mname} does not return the new count", mf.where())
                okm = False
                break
        if okm and nm:
            rep.ok("C08.cc-bin-identity", f"CountingCuckooBin.{mname}: count {sign} 1, returned")
    # check: the count of the bin that holds the key's fingerprint, 0 when absent
    ck = prog.method(CC, "check")
    okc, nck = True, 0
    for p in cpaths(prog, CC, ck):
        if p.exit[0] != "return":
            continue
        rv = strip_epochs(p.exit[1])
        if rv[0] == "call" and rv[1] == ("g", "sum") and len(rv[2]) == 1 and rv[2][0][0] == "comp":
            g = rv[2][0]
            gens = g[3]
            doms = [strip_epochs(x[2]) for x in gens]
            # sum(x.count for idx in <candidates> for x in buckets[idx] if fp in x): each bucket must be visited once, also when
            # the two candidates are the same bucket
            if len(gens) == 2 and doms[1][0] == "sub" and doms[1][1] == ("f", SELF, "_buckets", 0) and doms[1][2] == ("it", gens[0][1], doms[0]):
                if doms[0][0] in ("tup", "lst") and len(doms[0][1]) == 2:
                    rep.bad("C08.cc-check", f"{CC}.check", f"sum over {nshow(doms[0])}",
                            "check adds up the counts over both candidate indices as a sequence: when the two candidates are the same bucket it is scanned twice "
                            "and the key's count is reported doubled", ck.where(p.exit[2]))
                    okc = False
                elif doms[0][0] == "set" and len(doms[0][1]) == 2 and gens[1][3]:
                    nck += 1
            continue
        pr = presence(p)
        if pr is None or pr[0] == "infeasible":
            continue
        if pr[0] == "present":
            # the holding bin written as a search: next(<bins of the named bucket holding the fingerprint>[, None])
            def holder(x):
                if pr[1] is not None and x == pr[1]:
                    return True
                if x[0] == "call" and x[1] == ("g", "next") and len(x[2]) in (1, 2) and (len(x[2]) == 1 or x[2][1] == C(None)):
                    return first_holder(("call", ("g", "next"), (x[2][0],), ()), p)
                return False

            def count_of(x):
                return (x[0] == "f" and x[2] == "count" and holder(x[1])) or (x[0] == "sub" and x[2] == C(1) and x[1][0] == "f" and x[1][2] == BINF and holder(x[1][1]))
            v_ = rv
            if v_[0] == "phi" and v_[1][0] == "cmp" and v_[1][1] in ("is", "isnot") and v_[1][3] == C(None) and holder(v_[1][2]):
                v_ = v_[3] if v_[1][1] == "is" else v_[2]  # (on this path the search finds the bin: it is not None)
            if count_of(v_):
                nck += 1
                continue
        if pr[0] == "present" and rv[0] == "call" and rv[1] == ("g", "next") and len(rv[2]) == 1 and rv[2][0][0] == "comp":
            rv = ("call", ("g", "next"), (rv[2][0], C(0)), ())  # no default: the named bucket holds the fingerprint, the search cannot run dry
        if pr[0] == "present" and rv[0] == "call" and rv[1] == ("g", "next") and len(rv[2]) == 2 and rv[2][1] == C(0) and rv[2][0][0] == "comp":
            # next((b.count for b in <named bucket> if fingerprint in b), 0): the count of the first (the only) holding bin
            g_ = rv[2][0]
            if len(g_[3]) == 1 and len(g_[3][0][3]) == 1:
                it_ = ("it", g_[3][0][1], g_[3][0][2])
                holder = ("call", ("g", "next"), (("comp", "gen", it_, (("gen", g_[3][0][1], g_[3][0][2], g_[3][0][3]),)),), ())
                if first_holder(holder, p) and g_[2] in (("f", it_, "count", 0), ("sub", ("f", it_, BINF, 0), C(1), 0)):
                    nck += 1
                    continue
        if pr[0] == "absent":
            nck += 1
            if rv != C(0):
                rep.bad("C08.cc-check", f"{CC}.check", f"absent -> {nshow(rv)}", "check does not report 0 for a key whose fingerprint is in neither candidate bucket", ck.where(p.exit[2]))
                okc = False
        elif pr[0] == "present" and pr[1] is not None:
            nck += 1
            if rv not in (("f", pr[1], "count", 0), ("sub", ("f", pr[1], BINF, 0), C(1), 0)):
                rep.bad("C08.cc-check", f"{CC}.check", f"present -> {nshow(rv)}", "check does not report the count of the bin that holds the key's fingerprint", ck.where(p.exit[2]))
                okc = False
    if okc and nck:
        rep.ok("C08.cc-check", f"{CC}.check: the holding bin's count, 0 when absent ({nck} case(s))")
    # remove
    rm = prog.method(CC, "remove")
    okr, seen = True, False
    for p in cpaths(prog, CC, rm):
        pr = presence(p)
        if pr is not None and pr[0] == "infeasible":
            continue
        absent = pr is not None and pr[0] == "absent"
        muts = [e for e in p.events if (e.kind == "call" and e.name in ("decrement", "increment", "remove", "pop", "append", "__delitem__")) or e.kind in ("setfield", "setelem")]
        if absent:
            if muts or strip_epochs(p.exit[1]) != C(False):
                rep.bad("C08.cc-remove", f"{CC}.remove", "absent path", "removing an absent key mutates the filter or does not return False", rm.where())
                okr = False
            continue
        dec = [e for e in p.events if e.kind == "call" and e.name == "decrement"]
        if dec:
            seen = True
            found = pr[1] if pr is not None and pr[0] == "present" else None
            okbin = (found is not None and found == strip_epochs(dec[0].recv)) or (pr is not None and pr[0] == "present" and first_holder(dec[0].recv, p))
            if len(dec) != 1 or not okbin or strip_epochs(p.exit[1]) != C(True):
                rep.bad("C08.cc-remove", f"{CC}.remove", "decrement", "remove does not decrement exactly the bin holding the key's fingerprint and report True", dec[0].where())
                okr = False
    if okr and seen:
        rep.ok("C08.cc-remove", f"{CC}.remove")
    elif okr:
        rep.bad("C08.cc-remove", f"{CC}.remove", "no decrement", "remove never decrements", rm.where())


from ..selftest import Mutant, del_stmt, insert_stmt, replace_expr, replace_stmt

_CB, _CC = "blooms/countingbloom.py", "cuckoo/countingcuckoo.py"
MUTANTS = [
    Mutant("D7 re-introduced: eviction path builds the bin with count 1", _CC, replace_expr("CountingCuckooFilter", "_insert_fingerprint_alt", "CountingCuckooBin(fingerprint, count)", "CountingCuckooBin(fingerprint, 1)"), rule="C08.cc-weights"),
    Mutant("kicked bin re-inserted with count 1", _CC, replace_expr("CountingCuckooFilter", "_insert_fingerprint_alt", "self.__insert_element(prv_bin.finger, idx, prv_bin.count)", "self.__insert_element(prv_bin.finger, idx)"), rule="C08.cc-weights"),
    Mutant("expansion re-inserts without counts", _CC, replace_expr("CountingCuckooFilter", "_expand_logic", "self._insert_fingerprint_alt(elm.finger, idx_1, idx_2, elm.count)", "self._insert_fingerprint_alt(elm.finger, idx_1, idx_2)"), rule="C08.cc-weights"),
    Mutant("remove_alt range(number_hashes - 1)", _CB, replace_expr("CountingBloomFilter", "remove_alt", "range(self._number_hashes)", "range(self._number_hashes - 1)"), rule="C08.cbf"),
    Mutant("remove_alt: if min_val == 1: return 0", _CB, replace_expr("CountingBloomFilter", "remove_alt", "min_val == 0", "min_val <= 1"), rule="C08.cbf-noop"),
    Mutant("remove_alt subtracts num_els regardless of the minimum", _CB, replace_stmt("CountingBloomFilter", "remove_alt", "to_remove = ", "to_remove = num_els"), rule="C08.cbf-symmetry"),
    Mutant("check_alt mod bloom_length - 1", _CB, replace_expr("CountingBloomFilter", "check_alt", "x % self.number_bits", "x % (self.number_bits - 1)"), rule="C08.cbf-address"),
    Mutant("_load_init: bloom_length = n_bits + 1", _CB, replace_stmt("CountingBloomFilter", "_load_init", "self._bloom_length = n_bits", "self._bloom_length = n_bits + 1"), rule="C08.cbf-length"),
    Mutant("bin increment wraps at 2**32", _CC, replace_stmt("CountingCuckooBin", "increment", "self.__bin[1] += 1", "self.__bin[1] = (self.__bin[1] + 1) & 0xFFFFFFFF"), rule="C08.cc-bin-identity"),
    Mutant("bin membership looks at both cells", _CC, replace_expr("CountingCuckooBin", "__contains__", "self.__bin[0] == val", "val in self.__bin"), rule="C08.cc-bin-identity"),
    Mutant("bin membership through the finger property (same meaning)", _CC, replace_expr("CountingCuckooBin", "__contains__", "self.__bin[0] == val", "self.finger == val"), expect="silent"),
    Mutant("check reports count + 1", _CC, replace_stmt("CountingCuckooFilter", "check", "val = bucket.count", "val = bucket.count + 1"), rule="C08.cc-check"),
    Mutant("check sums over the candidate tuple", _CC, replace_stmt("CountingCuckooFilter", "check", "is_present = ", "return sum(x.count for idx in (idx_1, idx_2) for x in self.buckets[idx] if fingerprint in x)"), rule="C08.cc-check"),
    Mutant("check sums over the candidate set (same meaning)", _CC, replace_stmt("CountingCuckooFilter", "check", "is_present = ", "return sum(x.count for idx in {idx_1, idx_2} for x in self.buckets[idx] if fingerprint in x)"), expect="silent"),
    Mutant("add on a present key inserts a second bin", _CC, replace_stmt("CountingCuckooFilter", "add", "if is_present is not None", "pass"), rule="C08.cc-add"),
    Mutant("remove of an absent key decrements the counter", _CC, replace_stmt("CountingCuckooFilter", "remove", "if idx is None", "if idx is None:\n    self._inserted_elements -= 1\n    return False"), rule="C08.cc-remove"),
    Mutant("minimum taken with min(*generator)", _CB, replace_stmt("CountingBloomFilter", "remove_alt", "min_val = min(vals)", "min_val = min(*(self._bloom[k] for k in indices))"), rule="C08.cbf-symmetry"),
    Mutant("remove amount spelled min(num_els, min_val) (same meaning)", _CB, replace_stmt("CountingBloomFilter", "remove_alt", "to_remove = ", "to_remove = min(num_els, min_val)"), expect="silent"),
]
