"""C07 - derived sizes honour the requested accuracy and are stable across reloads (formula conformance, E4/E3/E6)."""
from __future__ import annotations

import ast as _ast
import math

from ..common import all_conds, mro_methods, nshow, paths
from ..effects import Effects
from ..expr import C, SELF, canon, first_diff, norm, show, strip_epochs, walk
from ..model import AnalysisError

EXPL = ("Formula conformance by tolerant normal-form comparison (floats to 1e-9 relative) of the three sizing computations with "
        "the formulas in the property: Bloom bits = ceil(-n ln p32 / ln^2 2), hashes = int(round(ln2 bits / n)) with hashes == 0 "
        "rejected and p32 the pack/unpack-'f' image of the request; count-min width = ceil(2/eps), depth = ceil(-ln(1-c)/ln 2); "
        "cuckoo fingerprint bits = ceil(log2(1/eps) + log2(b) + 1).  A violation is reported only for a positively identified "
        "deviation (different rounding function, operator, constant or operand); an expression that cannot be aligned is "
        "undecided.  Determinism: empty write effect, only pure calls.  Single source of geometry: every write of the Bloom "
        "geometry goes through _set_values with arguments that originate from _get_optimized_params applied to the stored "
        "(est_elements, fpr) - in constructors and all loaders alike.  The numeric inequalities (7% allowance, 2/width <= eps) "
        "under floating point are not decided.")
FILES = ["blooms/bloom.py", "blooms/countingbloom.py", "countminsketch/countminsketch.py", "cuckoo/cuckoo.py"]
LN2 = math.log(2.0)
LN2_SQUARED_DOC = 0.4804530139182  # the divisor of the reference implementation (a truncation of ln(2)**2, not ln(2)**2 itself)


def fl(x):
    return ("call", ("g", "float"), (x,), ())


def mcall(name, *a):
    return ("call", ("ext", "math", name), tuple(a), ())


def conform(rep, rid, where, what, want, got, loc):
    d = first_diff(canon(want), canon(got))
    if d is None:
        rep.ok(rid, f"{where}: {what} = {nshow(want)}")
        return True
    path, kind, w, g = d
    if kind == "shape":
        # a rearrangement keeps the functions, inputs and constants of the formula; a different computation does not
        def sig(e):
            fns = {n[1][-1] for n in walk(e) if n[0] == "call" and n[1][0] in ("g", "ext")} | \
                {"." + n[1][2] for n in walk(e) if n[0] == "call" and n[1][0] == "m"}
            leaves = {n for n in walk(e) if n[0] in ("p", "f")}
            return fns, leaves

        def opsig(e):
            from collections import Counter
            ops = Counter()
            for n in walk(e):
                if n[0] == "nary":
                    ops[n[1]] += len(n[2]) - 1
                elif n[0] in ("bin", "un"):
                    ops[n[1]] += 1
            consts = sorted(round(float(n[1]), 9) for n in walk(e) if n[0] == "c" and isinstance(n[1], (int, float)) and not isinstance(n[1], bool))
            return ops, consts
        sw, sg = sig(canon(want)), sig(canon(got))
        if sw == sg and opsig(canon(want)) != opsig(canon(got)) and opsig(canon(want))[1] == opsig(canon(got))[1]:
            rep.bad(rid, where, f"{what}: different operators",
                    f"{what} is computed as {nshow(got)}: same inputs and constants as the documented formula {nshow(want)} but different arithmetic operators", loc)
            return False
        if sw == sg:
            raise AnalysisError(f"{where}: cannot align {what} = {nshow(got)} with the documented formula {nshow(want)}")
        rep.bad(rid, where, f"{what}: different computation",
                f"{what} is computed as {nshow(got)}, which uses functions/inputs {sorted(sg[0])} / {sorted(nshow(x) for x in sg[1])} while the documented "
                f"formula {nshow(want)} uses {sorted(sw[0])} / {sorted(nshow(x) for x in sw[1])}: not a rearrangement of it", loc)
        return False
    rep.bad(rid, where, f"{what}: {kind} {nshow(g) if isinstance(g, tuple) else g} instead of {nshow(w) if isinstance(w, tuple) else w}",
            f"{what} is computed as {nshow(got)}; the documented formula is {nshow(want)} ({kind} differs: "
            f"{nshow(g) if isinstance(g, tuple) else g} vs {nshow(w) if isinstance(w, tuple) else w})", loc)
    return False


PURE_CALLS = {"float", "int", "round", "isinstance", "ceil", "floor", "log", "log2", "log10", "sqrt", "pow", "exp", "len", "min", "max", "abs", "bool",
              "bit_length", "divmod", "sum", "is_integer", "range", "trunc", "frexp", "ldexp", "fsum"}


def origin(prog, ctx, e, depth=0):
    """provenance of a geometry argument: ('gop', i, args) | ('other', expr)"""
    e = strip_epochs(e)
    while e[0] == "call" and e[1] in (("g", "int"), ("g", "float")) and len(e[2]) == 1:
        e = e[2][0]
    if e[0] == "sub" and e[1][0] == "ret" and e[2][0] == "c" and depth < 4:
        r, i = e[1], e[2][1]
        if r[1].endswith("._get_optimized_params"):
            return ("gop", i, tuple(origin_arg(prog, ctx, a, depth) for a in r[3]))
        if r[1].endswith("._parse_footer"):
            f = prog.method(ctx, "_parse_footer")
            outs = set()
            for p in paths(prog, ctx, f):
                if p.exit[0] == "return" and p.exit[1][0] == "tup" and i < len(p.exit[1][1]):
                    outs.add(origin(prog, ctx, p.exit[1][1][i], depth + 1))
            if len(outs) == 1:
                return next(iter(outs))
    return ("other", e)


def origin_arg(prog, ctx, a, depth):
    a = strip_epochs(a)
    while a[0] == "call" and a[1] in (("g", "int"), ("g", "float")) and len(a[2]) == 1:
        a = a[2][0]
    if a[0] == "unp":
        return ("slot", a[2])
    if a[0] == "sub" and a[1][0] == "ret" and a[1][1].endswith("._parse_footer") and a[2][0] == "c" and depth < 4:
        f = prog.method(ctx, "_parse_footer")
        for p in paths(prog, ctx, f):
            if p.exit[0] == "return" and p.exit[1][0] == "tup":
                return origin_arg(prog, ctx, p.exit[1][1][a[2][1]], depth + 1)
    if a[0] == "p":
        return ("param", a[1])
    return ("expr", nshow(a))


def fingerprint_final_geometry(prog, rep, rid):
    """alternate constructors derive the fingerprint size from the FINAL bucket size and error rate (shared with C05)"""
    er, bs = ("f", SELF, "_error_rate", 0), ("f", SELF, "_bucket_size", 0)
    wantf = ("call", ("g", "int"), (mcall("ceil", ("bin", "+", ("bin", "+", mcall("log2", ("bin", "/", C(1.0), er)), mcall("log2", bs)), C(1))),), ())
    # the fingerprint size of a loaded / constructed filter is derived from its FINAL bucket size and error rate
    rep.rule(rid, "alternate constructors derive the fingerprint size from the final bucket size and error rate", floor=4)
    for c in ("CuckooFilter", "CountingCuckooFilter"):
        for mn in ("frombytes", "init_error_rate", "load_error_rate"):
            f = prog.method(c, mn)
            okm, seenm = True, False
            for p in paths(prog, c, f, inline="deep"):
                if p.exit[0] != "return" or p.exit[1][0] != "new":
                    continue
                obj = p.exit[1]
                given = [cd for cd in p.conds if strip_epochs(cd.atom) in (("cmp", "isnot", ("p", "error_rate"), C(None)), ("cmp", "is", ("p", "error_rate"), C(None)))]
                if given and ((given[0].atom[1] == "isnot") != given[0].truth):
                    continue  # error rate not supplied
                fin = p.fields.get((obj, "_fingerprint_size"))
                erv = p.fields.get((obj, "_error_rate"))
                bsv = p.fields.get((obj, "_bucket_size"))
                if fin is None or erv is None or bsv is None:
                    continue
                seenm = True
                from ..expr import mapx
                w_here = mapx(wantf, lambda n_: strip_epochs(erv) if n_ == er else (strip_epochs(bsv) if n_ == bs else None))
                if first_diff(canon(w_here), canon(fin)) is not None:
                    rep.bad(rid, f"{c}.{mn}", f"fingerprint bits = {nshow(fin)}",
                            f"{c}.{mn} leaves fingerprint bits = {nshow(fin)} but the structure's final bucket size is {nshow(bsv)} and error rate {nshow(erv)}: "
                            "the width was derived before the real geometry was known", f.where())
                    okm = False
                    break
            if okm and seenm:
                rep.ok(rid, f"{c}.{mn}")


def check(prog, rep, tier):
    rep.extra["explanation"] = EXPL
    rep.rule("C07.bloom-formula", "Bloom bits / hashes / narrowed rate follow the documented formulas; zero hashes rejected", floor=4)
    rep.rule("C07.countmin-formula", "count-min width = ceil(2/eps), depth = ceil(-ln(1-c)/ln 2), for every flavour of the sketch (subclass constructors looked through)", floor=10)
    rep.rule("C07.cuckoo-formula", "cuckoo fingerprint bits = ceil(log2(1/eps) + log2(bucket) + 1) and its inverse", floor=2)
    rep.rule("C07.deterministic", "the sizing functions have no write effect and call only pure functions", floor=3)
    rep.rule("C07.single-source", "every write of the Bloom geometry comes from _get_optimized_params(stored est, stored fpr) through _set_values", floor=8)
    rep.rule("C07.error-rate-order", "_set_error_rate stores the rate before deriving the fingerprint size from it", floor=1)
    E = Effects(prog)
    # ------------------------------------------------------------------ Bloom
    ctx = "BloomFilter"
    g = prog.method(ctx, "_get_optimized_params")
    ps = paths(prog, ctx, g)
    rep.analysed(g, ctx, len(ps))
    n, p_ = ("p", "estimated_elements"), ("p", "false_positive_rate")
    t = fl(("unp", "f", 0, ("pack", "f", (fl(p_),))))
    bits = mcall("ceil", ("bin", "/", ("bin", "*", ("un", "-", n), mcall("log", t)), C(0.4804530139182)))
    hashes = ("call", ("g", "int"), (("call", ("g", "round"), (("bin", "/", ("bin", "*", C(LN2), bits), n),), ()),), ())
    normal = [p for p in ps if p.exit[0] == "return"]
    if not normal or any(q.exit[1][0] != "tup" or len(q.exit[1][1]) != 3 for q in normal):
        raise AnalysisError("BloomFilter._get_optimized_params: expected normal paths returning (rate, hashes, bits)")
    seen_rv = set()
    for q in normal:
        rv = q.exit[1][1]
        if canon(q.exit[1]) in seen_rv:
            continue
        seen_rv.add(canon(q.exit[1]))
        loc = g.where(q.exit[2])
        conform(rep, "C07.bloom-formula", f"{ctx}._get_optimized_params", "narrowed rate", t, rv[0], loc)
        conform(rep, "C07.bloom-formula", f"{ctx}._get_optimized_params", "number of bits", bits, rv[2], loc)
        conform(rep, "C07.bloom-formula", f"{ctx}._get_optimized_params", "number of hashes", hashes, rv[1], loc)
    zero = [p for p in ps if p.exit[0] == "raise" and any(strip_epochs(c.atom)[:2] == ("cmp", "==") and strip_epochs(c.atom)[3] == C(0) and c.truth
                                                            and first_diff(canon(hashes), canon(c.atom[2])) is None for c in p.conds)]
    nz = all(any(strip_epochs(c.atom)[:2] == ("cmp", "==") and strip_epochs(c.atom)[3] == C(0) and not c.truth for c in q.conds) for q in normal)
    if zero and nz:
        rep.ok("C07.bloom-formula", "hashes == 0 raises InitializationError")
    else:
        rep.bad("C07.bloom-formula", f"{ctx}._get_optimized_params", "zero-hash guard", "a parameter pair that yields 0 hashes is not rejected", g.where())
    # ------------------------------------------------------------------ count-min
    conf, err = ("p", "confidence"), ("p", "error_rate")
    wantw = mcall("ceil", ("bin", "/", C(2), err))
    wantd = mcall("ceil", ("bin", "/", ("un", "-", mcall("log", ("bin", "-", C(1), conf))), C(LN2)))
    # every flavour of the sketch (the base class and each subclass, whose constructor forwards to the base one) is decided on its own
    # constructor with the base constructor looked through: the accuracy pair a caller hands to ANY flavour sizes it by the same formulas
    family = [c for c in sorted(prog.classes) if any(k.name == "CountMinSketch" for k in prog.classes[c].mro())]
    if "CountMinSketch" not in family:
        raise AnalysisError("class CountMinSketch not found")
    for cls_ in family:
        init = prog.classes[cls_].find_method("__init__")
        if init is None:
            raise AnalysisError(f"{cls_} has no constructor")
        ips = [p for p in paths(prog, cls_, init, force_inline=("__init__",)) if p.exit[0] == "return"]
        rep.analysed(init, cls_, len(ips))
        seen = False
        done = set()
        for p in ips:
            w = p.fields.get((SELF, "_CountMinSketch__width"))
            d = p.fields.get((SELF, "_CountMinSketch__depth"))
            if w is None or d is None:
                continue
            # a path that keeps the caller's accuracy pair (either of them ends up in the error-rate / confidence fields, or feeds a
            # dimension) promises that accuracy: BOTH dimensions must then come from the pair by the documented formulas
            e_ = p.fields.get((SELF, "_CountMinSketch__error_rate"), C(None))
            c_ = p.fields.get((SELF, "_CountMinSketch__confidence"), C(None))
            uses = {n_[1] for v_ in (w, d, e_, c_) for n_ in walk(v_) if n_[0] == "p"}
            if "error_rate" in uses or "confidence" in uses:
                k_ = (canon(strip_epochs(w)), canon(strip_epochs(d)))
                if k_ in done:
                    continue
                done.add(k_)
                seen = True
                conform(rep, "C07.countmin-formula", f"{cls_}.__init__", "width", wantw, w, init.where())
                conform(rep, "C07.countmin-formula", f"{cls_}.__init__", "depth", wantd, d, init.where())
        if not seen:
            rep.bad("C07.countmin-formula", f"{cls_}.__init__", "no sizing from confidence / error_rate",
                    f"no construction path of {cls_} derives width and depth from (confidence, error_rate) any more", init.where())
    # ------------------------------------------------------------------ cuckoo
    # a remembered sub-term (log2 of the bucket size, say) stands for its formula when every writer of its inputs refreshes it
    from ..common import expand_derived, maintained_derived
    derived_, stale_ = maintained_derived(prog, "CuckooFilter")

    def xd(v):
        used = [d for d in stale_ if any(n[0] == "f" and n[1] == SELF and n[2] == d for n in walk(strip_epochs(v)))]
        if used:
            sf, sev, _ = stale_[used[0]]
            rep.bad("C07.cuckoo-formula", f"CuckooFilter.{sf.src_name}", f"{used[0]} not refreshed",
                    f"the sizing formulas read {used[0]}, which remembers {nshow(derived_[used[0]])}; {sf.src_name} assigns {sev.name} and does not refresh it afterwards: "
                    "a reloaded filter derives its fingerprint size for a bucket size it does not have", sev.where())
        return expand_derived(prog, "CuckooFilter", v)
    cf = prog.method("CuckooFilter", "_calc_fingerprint_size")
    er, bs, fsz = ("f", SELF, "_error_rate", 0), ("f", SELF, "_bucket_size", 0), ("f", SELF, "_fingerprint_size", 0)
    wantf = ("call", ("g", "int"), (mcall("ceil", ("bin", "+", ("bin", "+", mcall("log2", ("bin", "/", C(1.0), er)), mcall("log2", bs)), C(1))),), ())
    for p in paths(prog, "CuckooFilter", cf):
        if p.exit[0] == "return":
            conform(rep, "C07.cuckoo-formula", "CuckooFilter._calc_fingerprint_size", "fingerprint bits", wantf, xd(p.exit[1]), cf.where())
    ce = prog.method("CuckooFilter", "_calc_error_rate")
    wante = fl(("bin", "/", C(1), ("bin", "**", C(2), ("bin", "-", fsz, ("bin", "+", mcall("log2", bs), C(1))))))
    for p in paths(prog, "CuckooFilter", ce):
        if p.exit[0] == "return":
            conform(rep, "C07.cuckoo-formula", "CuckooFilter._calc_error_rate", "error rate of a fingerprint size", wante, xd(p.exit[1]), ce.where())
    se = prog.method("CuckooFilter", "_set_error_rate")
    oko = False
    for p in paths(prog, "CuckooFilter", se):
        evs = [e for e in p.events if (e.kind == "setfield" and e.name in ("_error_rate", "_fingerprint_size"))]
        if len(evs) >= 2:
            oko = evs[0].name == "_error_rate" and evs[0].value == ("p", "error_rate")
            fin = p.fields.get((SELF, "_fingerprint_size"))
            from ..expr import mapx
            want_here = mapx(wantf, lambda n_: ("p", "error_rate") if n_ == er else None)
            oko = oko and fin is not None and first_diff(canon(want_here), canon(expand_derived(prog, "CuckooFilter", fin))) is None
    if oko:
        rep.ok("C07.error-rate-order", "CuckooFilter._set_error_rate: rate stored, then fingerprint size derived and stored")
    else:
        rep.bad("C07.error-rate-order", "CuckooFilter._set_error_rate", "order", "the fingerprint size is not derived from the freshly stored error rate", se.where())
    fingerprint_final_geometry(prog, rep, "C07.fingerprint-final-geometry")
    # ------------------------------------------------------------------ determinism
    for (c, f) in (("BloomFilter", g), ("CuckooFilter", cf), ("CuckooFilter", ce)):
        eff = [e for e in E.of(c, f) if e[0] != "fresh"]
        calls = set()
        for p in paths(prog, c, f):
            for e in p.events:
                if e.kind == "call" and e.name not in ("<slot>",):
                    calls.add(e.name)
        impure = {x for x in calls if x not in PURE_CALLS and not x[:1].isupper() and x not in ("pack", "unpack")}
        if eff or impure:
            rep.bad("C07.deterministic", f"{c}.{f.src_name}", f"effects {sorted(e[:3] for e in eff)} calls {sorted(impure)}",
                    f"the sizing function is not a pure function of its inputs (effects {sorted(e[:3] for e in eff)}, calls {sorted(impure)})", f.where())
        else:
            rep.ok("C07.deterministic", f"{c}.{f.src_name}: no write effect, pure calls only")
    # ------------------------------------------------------------------ single source of geometry
    for ctx in ("BloomFilter", "BloomFilterOnDisk", "CountingBloomFilter"):
        sv = prog.method(ctx, "_set_values")
        # what is remembered as est_elements is the very value the geometry was derived from (a reload / union re-derives from it)
        for p in paths(prog, ctx, sv):
            if p.exit[0] != "return":
                continue
            v = p.fields.get((SELF, "_est_elements"))
            if v is None or canon(strip_epochs(v)) != ("p", "est_els"):
                rep.bad("C07.single-source", f"{ctx}._set_values", f"est_elements = {nshow(v) if v else '?'}",
                        f"_set_values remembers {nshow(v) if v else 'nothing'} as est_elements while the geometry it is handed was derived from est_els itself: "
                        "wherever the two differ, a reload or a set operation re-derives a different number of bits", sv.where())
                break
        for f in mro_methods(prog, ctx):
            if f.prop:
                continue
            for p in paths(prog, ctx, f):
                for e in p.events:
                    if e.kind == "setfield" and e.name in ("_number_hashes", "_num_bits") and e.base[0] in ("self", "new"):
                        if e.func is not sv and f.src_name != "__init__":
                            rep.bad("C07.single-source", f"{ctx}.{f.src_name}", f"writes {e.name}",
                                    f"{f.src_name} writes {e.name} directly; geometry must be set through _set_values", e.where())
                    if e.kind == "call" and e.target is sv:
                        b = e.bound
                        o_h, o_b, o_f = (origin(prog, ctx, b.get(k, C(None))) for k in ("n_hashes", "n_bits", "fpr"))
                        o_e = origin_arg(prog, ctx, b.get("est_els", C(None)), 0)
                        ok = o_h[0] == "gop" and o_h[1] == 1 and o_b[0] == "gop" and o_b[1] == 2 and o_f[0] == "gop" and o_f[1] == 0 \
                            and o_h[2] == o_b[2] == o_f[2] and len(o_h[2]) >= 1 and o_h[2][0] == o_e
                        if ok:
                            rep.ok("C07.single-source", f"{ctx}.{f.src_name}: _set_values(est, *_get_optimized_params(est, rate))")
                        else:
                            rep.bad("C07.single-source", f"{ctx}.{f.src_name}", "geometry not from _get_optimized_params",
                                    f"_set_values receives hashes from {o_h[:2]}, bits from {o_b[:2]}, rate from {o_f[:2]} for est {o_e}: "
                                    "the geometry is not the one _get_optimized_params derives from the stored (est_elements, rate), so a reload can differ",
                                    e.where())


from ..selftest import Mutant, del_stmt, insert_stmt, replace_expr, replace_stmt

_B, _CB, _CM, _CK = "blooms/bloom.py", "blooms/countingbloom.py", "countminsketch/countminsketch.py", "cuckoo/cuckoo.py"
MUTANTS = [
    Mutant("width = floor(2/eps)", _CM, replace_expr("CountMinSketch", "__init__", "math.ceil(2 / error_rate)", "math.floor(2 / error_rate)"), rule="C07.countmin"),
    Mutant("width = ceil(1/eps)", _CM, replace_expr("CountMinSketch", "__init__", "math.ceil(2 / error_rate)", "math.ceil(1 / error_rate)"), rule="C07.countmin"),
    Mutant("depth uses log(confidence)", _CM, replace_expr("CountMinSketch", "__init__", "math.log(1 - confidence)", "math.log(confidence)"), rule="C07.countmin"),
    Mutant("StreamThreshold forwards (error_rate, confidence) crossed", _CM, replace_stmt("StreamThreshold", "__init__", "super().__init__(width, depth, confidence, error_rate, filepath, hash_function)", "super().__init__(width, depth, error_rate, confidence, filepath, hash_function)"), rule="C07.countmin"),
    Mutant("CountMeanSketch forwards by keyword (same value)", _CM, replace_stmt("CountMeanSketch", "__init__", "super().__init__(width, depth, confidence, error_rate, filepath, hash_function)", "super().__init__(width=width, depth=depth, error_rate=error_rate, confidence=confidence, filepath=filepath, hash_function=hash_function)"), expect="silent"),
    Mutant("_calc_fingerprint_size with round", _CK, replace_expr("CuckooFilter", "_calc_fingerprint_size", "math.ceil(math.log2(1.0 / self.error_rate) + math.log2(self.bucket_size) + 1)", "round(math.log2(1.0 / self.error_rate) + math.log2(self.bucket_size) + 1)"), rule="C07.cuckoo"),
    Mutant("_calc_fingerprint_size drops the + 1", _CK, replace_expr("CuckooFilter", "_calc_fingerprint_size", "math.log2(1.0 / self.error_rate) + math.log2(self.bucket_size) + 1", "math.log2(1.0 / self.error_rate) + math.log2(self.bucket_size) + 0"), rule="C07.cuckoo"),
    Mutant("bits formula uses the un-narrowed rate", _B, replace_expr("BloomFilter", "_get_optimized_params", "math.log(t_fpr)", "math.log(false_positive_rate)"), rule="C07.bloom"),
    Mutant("bits rounded with int()", _B, replace_expr("BloomFilter", "_get_optimized_params", "math.ceil(-estimated_elements * math.log(t_fpr) / 0.4804530139182)", "int(-estimated_elements * math.log(t_fpr) / 0.4804530139182)"), rule="C07.bloom"),
    Mutant("ln2^2 constant mistyped", _B, replace_expr("BloomFilter", "_get_optimized_params", "0.4804530139182", "0.4804530139812"), rule="C07.bloom"),
    Mutant("hashes truncated instead of rounded", _B, replace_expr("BloomFilter", "_get_optimized_params", "int(round(0.6931471805599453 * m_bt / estimated_elements))", "int(0.6931471805599453 * m_bt / estimated_elements)"), rule="C07.bloom"),
    Mutant("zero-hash guard removed", _B, del_stmt("BloomFilter", "_get_optimized_params", "if number_hashes == 0"), rule="C07.bloom"),
    Mutant("_set_values remembers the truncated est_elements", _B, replace_stmt("BloomFilter", "_set_values", "self._est_elements = est_els", "self._est_elements = int(est_els)"), rule="C07.single"),
    Mutant("on-disk _load computes n_bits locally", _B, replace_stmt("BloomFilterOnDisk", "_load", "self._set_values(est_els, fpr, n_hashes, n_bits, hash_function)", "self._set_values(est_els, fpr, n_hashes, n_bits + 1, hash_function)"), rule="C07.single"),
    Mutant("_parse_footer returns bits derived elsewhere", _B, replace_stmt("BloomFilter", "_parse_footer", "return (int(est_elements)", "return (int(est_elements), int(els_added), float(fpr), int(n_hashes), int(e_elms) * 8)"), rule="C07.single"),
    Mutant("_set_error_rate derives the size before storing the rate", _CK,
           replace_stmt("CuckooFilter", "_set_error_rate", "if error_rate is not None", "if error_rate is not None:\n    self._fingerprint_size = self._calc_fingerprint_size()\n    self._error_rate = error_rate"), rule="C07.error-rate"),
    Mutant("sizing consults a module-level cache", _B, insert_stmt("BloomFilter", "_get_optimized_params", "cls._last = estimated_elements"), rule="C07.determ"),
    Mutant("ln(2) written as math.log(2) (same value)", _B, replace_expr("BloomFilter", "_get_optimized_params", "0.6931471805599453", "math.log(2.0)"), expect="silent"),
    Mutant("bits formula with the sign moved (same value)", _B, replace_expr("BloomFilter", "_get_optimized_params", "-estimated_elements * math.log(t_fpr)", "-(estimated_elements * math.log(t_fpr))"), expect="silent"),
]
