"""C13 - intersection, Jaccard index and operand compatibility rules."""
from __future__ import annotations

import ast as _ast

from ..common import all_conds, conds_at, nshow, outer_field, paths
from ..effects import Effects, fmt_eff
from ..expr import C, SELF, canon, mapx, norm, rowform, show, strip_epochs, walk
from ..intervals import EQ, GT, path_orderings
from ..model import AnalysisError
from ._setops import (BLOOM_CTX, CMS_JOIN_CTX, SECOND, bloom_guard_prefix, cell, combine_rule, is_full_range,
                      nonzero_rows, operand_indices, cellform, similarity_components, _isinstance_atom, mirror_component)

EXPL = ("Guard-first (the type test is the first decision and raises TypeError, the similarity test is the second and returns "
        "None before any allocation; join raises CountMinSketchError before any store) on every path of the 7 set operations "
        "in every context; the similarity test compares hash count, bit count and probe hash; intersection stores a&b (counting: "
        "exactly when both cells are non-zero, judged by ordering sets) over the full range; the Jaccard index accumulates "
        "popcount(a&b) / popcount(a|b) (counting: non-zero tables) over the full range, is symmetric by construction, returns "
        "1.0 for an empty union; no write effect on the operand.")
FILES = ["blooms/bloom.py", "blooms/countingbloom.py", "countminsketch/countminsketch.py"]


def jaccard_rule(prog, rep, ctx):
    f = prog.method(ctx, "jaccard_index")
    ps = paths(prog, ctx, f)
    rep.analysed(f, ctx, len(ps))
    where = f"{ctx}.jaccard_index"
    counting = ctx == "CountingBloomFilter"
    rets = [p for p in ps if p.exit[0] == "return" and p.exit[1] not in (C(None),)]
    if counting and _jaccard_by_counting_comprehensions(prog, rep, ctx, f, rets, where):
        return
    ratio = None
    for p in rets:
        v = p.exit[1]
        if v[0] == "bin" and v[1] == "/" and v[2][0] == "hv" and v[3][0] == "hv":
            ratio = (v[2][1], v[3][1])
        elif v == C(1.0):
            pass
        elif p.conds and any(c.atom[0] == "loop0" for c in p.conds):
            pass
        else:
            rep.bad("C13.jaccard", where, f"return {nshow(v)}", f"Jaccard returns {nshow(v)}, not intersection-count / union-count", f.where(p.exit[2]))
            return
    if ratio is None:
        rep.bad("C13.jaccard", where, "no ratio", "no path returns a ratio of two accumulated counts", f.where())
        return
    N, D = ratio
    # empty union -> 1.0 ; non-empty -> ratio
    for p in rets:
        for c in p.conds:
            a = c.atom
            if a[0] == "cmp" and a[1] in ("==", "!=") and a[2][0] == "hv" and a[3] == C(0):
                zero = (a[1] == "==") == c.truth
                if a[2][1] != D:
                    rep.bad("C13.jaccard", where, f"zero test on {a[2][1]}", "the empty case tests the wrong counter", f.where(c.node))
                    return
                if zero and p.exit[1] != C(1.0):
                    rep.bad("C13.jaccard", where, "empty union", f"empty union returns {nshow(p.exit[1])}, not 1.0", f.where(p.exit[2]))
                    return
    if not any(p.exit[1] == C(1.0) for p in rets):
        rep.bad("C13.jaccard", where, "empty union", "no path returns 1.0 for an empty union", f.where())
        return
    # accumulators in the generic iteration
    loop_paths = [p for p in rets if any(e.kind == "accum" for e in p.events) or any(c.loops for c in p.conds)]
    if not loop_paths:
        rep.bad("C13.jaccard", where, "no accumulation", "counts are never accumulated", f.where())
        return
    okall = True
    for p in loop_paths:
        acc = {}
        for e in p.events:
            if e.kind == "accum" and e.op == "+":
                acc.setdefault(e.name, []).append(e)
        # index domain (cells named by position: bins[i], zip / enumerate elements, prefix slices)
        pair = operand_indices(prog, ctx, "_bloom", [e.addend for e in p.events if e.kind == "accum"] + [c.atom for c in p.conds])
        if pair is None:
            rep.bad("C13.jaccard", where, "range", "the Jaccard loop does not cover exactly range(bloom_length) with one index", f.where())
            return
        a, b = cell(SELF, "_bloom", pair[0]), cell(SECOND, "_bloom", pair[1])
        rf = cellform
        if not counting:
            def unbyte(n):
                # (bottom-up) unpack('B', bytes([x]))[0] is x for a byte x, and int(x) is x for an element of the bit array
                if n[0] == "unp" and n[1].lstrip("<>=@!") == "B" and n[2] == 0 and n[3][0] == "call" and n[3][1] == ("g", "bytes") and len(n[3][2]) == 1 \
                        and n[3][2][0][0] == "lst" and len(n[3][2][0][1]) == 1:
                    return n[3][2][0][1][0]
                if n[0] == "call" and n[1] == ("g", "int") and len(n[2]) == 1 and not n[3] and n[2][0][0] == "sub" and outer_field(n[2][0][1]) == "_bloom":
                    return n[2][0]
                return None

            def pop(x):
                return canon(("call", ("m", ("call", ("g", "bin"), (x,), ()), "count"), (C("1"),), ()))
            wantN, wantD = pop(norm(("bin", "&", a, b))), pop(norm(("bin", "|", a, b)))
            gotN = [canon(mapx(rf(e.addend), unbyte)) for e in acc.get(N, [])]
            gotD = [canon(mapx(rf(e.addend), unbyte)) for e in acc.get(D, [])]
            if gotN != [wantN] or gotD != [wantD]:
                rep.bad("C13.jaccard", where, f"numerator += {[nshow(x) for x in gotN]}, denominator += {[nshow(x) for x in gotD]}",
                        "the ratio is not popcount(a & b) / popcount(a | b) per byte", f.where())
                okall = False
        else:
            rows = nonzero_rows([rf(c) for c in all_conds(p)], a, b)
            nN = sum(1 for e in acc.get(N, []) if e.addend == C(1))
            nD = sum(1 for e in acc.get(D, []) if e.addend == C(1))
            if len(acc.get(N, [])) != nN or len(acc.get(D, [])) != nD or nN > 1 or nD > 1:
                rep.bad("C13.jaccard", where, "increment other than 1", "a counter moves by something other than one per position", f.where())
                okall = False
                continue
            wantN = {r == (True, True) for r in rows}
            wantD = {r != (False, False) for r in rows}
            if wantN != {bool(nN)} or wantD != {bool(nD)}:
                rep.bad("C13.jaccard", where, f"rows {sorted(rows)}: inter+={nN} union+={nD}",
                        f"for cells (self non-zero, second non-zero) in {sorted(rows)} the counters move by inter+={nN}, union+={nD}; "
                        "expected inter iff both non-zero, union iff either non-zero", f.where())
                okall = False
    if okall:
        rep.ok("C13.jaccard", f"{where}: {'non-zero tables' if counting else 'popcount(a&b)/popcount(a|b)'} over the full range, empty union -> 1.0")


def _jaccard_by_counting_comprehensions(prog, rep, ctx, f, rets, where) -> bool:
    """the other design: both counts are sum(1 for a, b in zip(<all cells of self>, <all cells of second>) if <test>) and the result is
    their ratio, 1.0 for an empty union.  True when that design was recognised (and judged)"""
    from ..expr import posform, renorm
    from ._setops import both_nonzero, either_nonzero, zipped_cells

    def count_of(v):
        """(test in position form, a, b) of sum(1 for ... in zip(...) if test)"""
        v = strip_epochs(v)
        if not (v[0] == "call" and v[1] == ("g", "sum") and len(v[2]) == 1 and v[2][0][0] == "comp"):
            return None
        comp = v[2][0]
        if len(comp[3]) != 1 or strip_epochs(comp[2]) != C(1) or len(comp[3][0][3]) != 1:
            return None
        zc = zipped_cells(prog, ctx, comp[3][0])
        if zc is None:
            return None
        return renorm(posform(strip_epochs(comp[3][0][3][0]))), zc[1], zc[2]
    ratios = []
    for p in rets:
        v = strip_epochs(p.exit[1])
        if v[0] == "bin" and v[1] == "/":
            n_, d_ = count_of(v[2]), count_of(v[3])
            if n_ is None or d_ is None:
                return False
            ratios.append((p, v, n_, d_))
        elif v[0] == "phi" and v[2][0] == "bin" and v[2][1] == "/":
            return False  # conditional-expression spellings are left to the general rule
    if not ratios:
        return False
    for (p, v, (tn, a, b), (td, a2, b2)) in ratios:
        if not both_nonzero(tn, a, b) or not either_nonzero(td, a2, b2):
            rep.bad("C13.jaccard", where, f"counts {nshow(tn)} / {nshow(td)}",
                    f"the numerator counts positions where {nshow(tn)} and the denominator positions where {nshow(td)}; expected both cells non-zero over either cell non-zero",
                    f.where(p.exit[2]))
            return True
    # empty union -> 1.0, decided on the denominator
    den = strip_epochs(ratios[0][1][3])
    one = [p for p in rets if strip_epochs(p.exit[1]) == C(1.0)]
    okz = bool(one) and all(any((strip_epochs(c.atom) == ("cmp", "==", den, C(0)) and c.truth) or (strip_epochs(c.atom) == den and not c.truth) or
                                (strip_epochs(c.atom) == ("cmp", "!=", den, C(0)) and not c.truth) or (strip_epochs(c.atom) == ("cmp", ">", den, C(0)) and not c.truth)
                                for c in p.conds) for p in one)
    others = [p for p in rets if strip_epochs(p.exit[1]) != C(1.0) and p not in [r[0] for r in ratios]]
    if not okz or others:
        rep.bad("C13.jaccard", where, "empty union", "the result is not 1.0 exactly when the union count is 0 (and the ratio otherwise)", f.where())
        return True
    rep.ok("C13.jaccard", f"{where}: counts by comprehension over zip of all cells (both non-zero / either non-zero), empty union -> 1.0")
    return True


def counting_intersection(prog, rep):
    ctx = "CountingBloomFilter"
    f = prog.method(ctx, "intersection")
    ps = paths(prog, ctx, f)
    where = f"{ctx}.intersection"
    any_store = False
    for p in ps:
        if p.exit[0] != "return" or p.exit[1] == C(None):
            continue
        st = [e for e in p.events if e.kind == "setelem" and outer_field(e.cont) == "_bloom"]
        inloop = [c for c in p.conds if c.loops]
        if not inloop and not st:
            continue
        rf = cellform
        pair = operand_indices(prog, ctx, "_bloom", [c.atom for c in p.conds])
        sidx = {rf(e.index) for e in st}
        if pair is None or (sidx and sidx != {pair[0]}):
            rep.bad("C13.intersection", where, "range", "the loop does not cover exactly range(bloom_length) with one index", f.where())
            return
        a, b = cell(SELF, "_bloom", pair[0]), cell(SECOND, "_bloom", pair[1])
        rows = nonzero_rows([rf(c) for c in all_conds(p)], a, b)
        want = {r == (True, True) for r in rows}
        if want != {bool(st)}:
            rep.bad("C13.intersection", where, f"rows {sorted(rows)} store={bool(st)}",
                    f"for cells (self non-zero, second non-zero) in {sorted(rows)} a store {'happens' if st else 'does not happen'}; "
                    "the intersection must be set exactly where both are non-zero", f.where())
            return
        for e in st:
            any_store = True
            r = e.cont[1] if e.cont[0] == "f" else None
            if r is None or r[0] != "new":
                rep.bad("C13.intersection", where, f"store into {nshow(e.cont)}", "intersection writes into an operand", e.where())
                return
            s = norm(("bin", "+", a, b))
            v = canon(rf(e.value))
            if v not in (canon(s), canon(("call", ("g", "min"), (s, C(2**32 - 1)), ())), canon(("call", ("g", "min"), (a, b), ()))):
                rep.bad("C13.intersection", where, f"store {nshow(e.value)}", "stored count is not derived from both cells at the same index", e.where())
                return
    if any_store:
        from ._setops import result_from_receiver
        if not result_from_receiver(rep, "C13.intersection", where, ps, "CountingBloomFilter"):
            return
        rep.ok("C13.intersection", f"{where}: stored exactly where both cells are non-zero, full range")
    elif _intersection_in_one_expression(prog, rep, ctx, f, ps, where):
        pass
    else:
        rep.bad("C13.intersection", where, "no store", "intersection never stores", f.where())


def _intersection_in_one_expression(prog, rep, ctx, f, ps, where) -> bool:
    """the other design: the result's cells are built in one expression, array(tc, (V if <both cells in use> else 0 for a, b in
    zip(<all cells of self>, <all cells of second>))), with V the (clamped) sum or the smaller count.  True when that design was
    recognised (and judged)"""
    from ..expr import posform, renorm
    from ._setops import both_nonzero, result_from_receiver, zipped_cells
    judged = False
    for p in ps:
        if p.exit[0] != "return" or strip_epochs(p.exit[1])[0] != "new":
            continue
        res = strip_epochs(p.exit[1])
        sets = [e for e in p.events if e.kind == "setfield" and e.name == "_bloom" and strip_epochs(e.base) == res]
        if not sets:
            continue
        v = strip_epochs(sets[-1].value)
        if not (v[0] == "newb" and v[1] == "array" and len(v[3]) == 2 and v[3][1][0] == "comp" and len(v[3][1][3]) == 1 and not v[3][1][3][0][3]):
            continue
        comp = v[3][1]
        zc = zipped_cells(prog, ctx, comp[3][0])
        if zc is None:
            rep.bad("C13.intersection", where, "result built over something else", f"the result array is built over {nshow(comp[3][0][2])}, not over exactly the allocated cells of both operands", sets[-1].where())
            return True
        judged = True
        lid, a, b = zc
        elt = renorm(posform(strip_epochs(comp[2])))
        s_ = norm(("bin", "+", a, b))
        values = [canon(s_), canon(("call", ("g", "min"), (s_, C(2**32 - 1)), ())), canon(("call", ("g", "min"), (a, b), ()))]
        ok = False
        if elt[0] == "phi":
            cnd, tv, fv = elt[1], elt[2], elt[3]
            if canon(fv) == canon(C(0)) and canon(tv) in values and both_nonzero(cnd, a, b):
                ok = True
            neg = cnd[2] if (cnd[0] == "un" and cnd[1] == "not") else None
            if not ok and neg is not None and canon(tv) == canon(C(0)) and canon(fv) in values and both_nonzero(neg, a, b):
                ok = True
        if not ok:
            rep.bad("C13.intersection", where, f"element {nshow(comp[2])}",
                    f"result cell is {nshow(comp[2])}; expected the (clamped) sum or the smaller count exactly where both cells are non-zero, else 0", sets[-1].where())
            return True
    if judged:
        if result_from_receiver(rep, "C13.intersection", where, ps, "CountingBloomFilter"):
            rep.ok("C13.intersection", f"{where}: result array built in one expression, set exactly where both cells are non-zero, over all cells")
    return judged


def join_guard(prog, rep, ctx):
    f = prog.method(ctx, "join")
    ps = paths(prog, ctx, f)
    where = f"{ctx}.join"
    te = [p for p in ps if p.exit[0] == "raise" and "TypeError" in show(p.exit[1])]
    ce = [p for p in ps if p.exit[0] == "raise" and "CountMinSketchError" in show(p.exit[1])]
    if not te or not ce:
        rep.bad("C13.join-guard", where, "missing error exit", "join lacks the TypeError or the CountMinSketchError exit", f.where())
        return

    comp_of = mirror_component
    need = {"_CountMinSketch__width", "_CountMinSketch__depth", "probe-hash"}
    for p in ps:
        first = p.conds[0] if p.conds else None
        ia = _isinstance_atom(first.atom) if first is not None else None
        if ia is None or ia[0] != SECOND or ia[2] or any(not prog.cls(n).is_subclass_of("CountMinSketch") for n in ia[1] if n in prog.classes) \
                or "CountMinSketch" not in ia[1]:
            rep.bad("C13.join-guard", where, "type test", "the first decision of join is not isinstance(second, CountMinSketch)", f.where())
            return
        if (p in te) != (not first.truth):
            rep.bad("C13.join-guard", where, "TypeError branch", "TypeError is not raised exactly when the type test fails", f.where())
            return
        from .C19 import memo_sound
        wrote = any(e.kind in ("setelem", "setfield") and not (e.kind == "setfield" and e.func.cls is not None and memo_sound(prog, ctx, e.func)[0]) for e in p.events)
        if p in te or p in ce:
            if wrote:
                rep.bad("C13.join-guard", where, "store before the error", "join modifies the receiver before refusing the operand", f.where())
                return
            if p in ce:
                mism = {comp_of(c.atom) for c in p.conds if comp_of(c.atom) and ((c.atom[1] == "!=") == c.truth)}
                if not mism:
                    rep.bad("C13.join-guard", where, "error without mismatch", "CountMinSketchError raised although nothing differs", f.where())
                    return
            continue
        eqs = {comp_of(c.atom) for c in p.conds if comp_of(c.atom) and ((c.atom[1] == "==") == c.truth)}
        if not need <= eqs:
            rep.bad("C13.join-guard", where, f"joined without comparing {sorted(need - eqs)}",
                    f"join proceeds without equal {sorted(need - eqs)}", f.where())
            return
    rep.ok("C13.join-guard", f"{where}: TypeError, then width/depth/probe-hash mismatch -> CountMinSketchError, before any store")


def check(prog, rep, tier):
    rep.extra["explanation"] = EXPL
    rep.rule("C13.guard-first", "type test first (TypeError), similarity test second (None), before any allocation", floor=9)
    rep.rule("C13.similarity", "the similarity test compares hash count, bit count and probe hash", floor=3)
    rep.rule("C13.intersection", "intersection keeps exactly the positions set in both operands, over the full range", floor=3)
    rep.rule("C13.jaccard", "Jaccard = |positions in both| / |positions in either| over the full range; 1.0 for an empty union", floor=3)
    rep.rule("C13.join-guard", "join: TypeError for foreign types, CountMinSketchError on geometry/hash mismatch, before any store", floor=1)
    rep.rule("C13.operand-untouched", "no set operation writes the non-receiver operand; the Bloom operations do not write the receiver either", floor=10)
    E = Effects(prog)
    for ctx in BLOOM_CTX:
        for fn in ("union", "intersection", "jaccard_index"):
            bloom_guard_prefix(prog, rep, "C13.guard-first", ctx, fn)
            eff = E.of(ctx, prog.method(ctx, fn))
            from .C19 import memo_effect
            w = [e for e in eff if (e[0] == "self" or e[0].startswith("param:")) and not memo_effect(prog, ctx, e)]
            if w:
                rep.bad("C13.operand-untouched", f"{ctx}.{fn}", f"write {w[0][0]}.{w[0][1]}", f"an operand is modified: {fmt_eff(w[0])}", w[0][3].split("@")[-1])
            else:
                rep.ok("C13.operand-untouched", f"{ctx}.{fn}")
        similarity_components(prog, rep, "C13.similarity", ctx)
        jaccard_rule(prog, rep, ctx)
    for ctx in ("BloomFilter", "BloomFilterOnDisk"):
        combine_rule(prog, rep, "C13.intersection", ctx, "intersection", "&")
    counting_intersection(prog, rep)
    for ctx in (CMS_JOIN_CTX if tier == "thorough" else CMS_JOIN_CTX[:1]):
        join_guard(prog, rep, ctx)
        eff = E.of(ctx, prog.method(ctx, "join"))
        from .C19 import memo_effect
        w = [e for e in eff if e[0] == "param:second" and not memo_effect(prog, ctx, e)]
        if w:
            rep.bad("C13.operand-untouched", f"{ctx}.join", f"write second.{w[0][1]}", f"join modifies its operand: {fmt_eff(w[0])}", w[0][3].split("@")[-1])
        else:
            rep.ok("C13.operand-untouched", f"{ctx}.join")
    q = prog.method("QuotientFilter", "merge")
    w = [e for e in E.of("QuotientFilter", q) if e[0] == "param:second"]
    if w:
        rep.bad("C13.operand-untouched", "QuotientFilter.merge", f"write second.{w[0][1]}", f"merge modifies its operand: {fmt_eff(w[0])}", w[0][3].split("@")[-1])
    else:
        rep.ok("C13.operand-untouched", "QuotientFilter.merge")


from ..selftest import Mutant, del_stmt, insert_stmt, replace_expr, replace_stmt, swap_binop, swap_cmp

_B, _CB, _CM = "blooms/bloom.py", "blooms/countingbloom.py", "countminsketch/countminsketch.py"
MUTANTS = [
    Mutant("counting intersection built in one expression over zip (same cells)", _CB,
           replace_stmt("CountingBloomFilter", "intersection", "for i in range(self.bloom_length)",
                        "res._bloom = array(self._typecode, (min(a + b, UINT32_T_MAX) if a and b else 0 for a, b in zip(self._bloom, second._bloom)))"), expect="silent"),
    Mutant("counting intersection built in one expression, cells kept where a & b is non-zero", _CB,
           replace_stmt("CountingBloomFilter", "intersection", "for i in range(self.bloom_length)",
                        "res._bloom = array(self._typecode, (min(a + b, UINT32_T_MAX) if a & b else 0 for a, b in zip(self._bloom, second._bloom)))"), rule="C13.intersection"),
    Mutant("counting intersection built in one expression, clamped at the 64-bit limit", _CB,
           replace_stmt("CountingBloomFilter", "intersection", "for i in range(self.bloom_length)",
                        "res._bloom = array(self._typecode, (min(a + b, UINT64_T_MAX) if a and b else 0 for a, b in zip(self._bloom, second._bloom)))"), rule="C13.intersection"),
    Mutant("counting intersection: > 0 -> >= 0", _CB, swap_cmp("CountingBloomFilter", "intersection", _ast.Gt, _ast.GtE), rule="C13.intersection"),
    Mutant("counting intersection: and -> or", _CB, replace_expr("CountingBloomFilter", "intersection", "self._bloom[i] > 0 and second._bloom[i] > 0", "self._bloom[i] > 0 or second._bloom[i] > 0"), rule="C13.intersection"),
    Mutant("counting jaccard: > 0 -> > 1", _CB, replace_expr("CountingBloomFilter", "jaccard_index", "self._bloom[i] > 0 and second._bloom[i] > 0", "self._bloom[i] > 1 and second._bloom[i] > 0"), rule="C13.jaccard"),
    Mutant("counting jaccard: union counts only self", _CB, replace_expr("CountingBloomFilter", "jaccard_index", "self._bloom[i] > 0 or second._bloom[i] > 0", "self._bloom[i] > 0"), rule="C13.jaccard"),
    Mutant("similarity without the probe-hash term", _B, replace_expr("BloomFilter", "_verify_bloom_similarity", "hash_match or same_bits or next_hash", "hash_match or same_bits"), rule="C13.similarity"),
    Mutant("similarity compares where the probe key lands (hash % bits), not the hash values", _B,
           replace_expr("BloomFilter", "_verify_bloom_similarity", "self.hashes('test') != second.hashes('test')",
                        '[h % self.number_bits for h in self.hashes("test")] != [h % second.number_bits for h in second.hashes("test")]'), rule="C13.similarity"),
    Mutant("similarity compares list() copies of the probe hashes (the same values)", _B,
           replace_expr("BloomFilter", "_verify_bloom_similarity", "self.hashes('test') != second.hashes('test')",
                        'list(self.hashes("test")) != list(second.hashes("test"))'), expect="silent"),
    Mutant("similarity without the bit count", _B, replace_expr("BloomFilter", "_verify_bloom_similarity", "hash_match or same_bits or next_hash", "hash_match or next_hash"), rule="C13.similarity"),
    Mutant("jaccard denominator is self's popcount", _B, replace_expr("BloomFilter", "jaccard_index", "bin(t_union)", "bin(el1)"), rule="C13.jaccard"),
    Mutant("jaccard range(1, bloom_length)", _B, replace_expr("BloomFilter", "jaccard_index", "range(0, self.bloom_length)", "range(1, self.bloom_length)"), rule="C13.jaccard"),
    Mutant("jaccard empty union returns 0.0", _B, replace_stmt("BloomFilter", "jaccard_index", "return 1.0", "return 0.0"), rule="C13.jaccard"),
    Mutant("intersection & -> |", _B, swap_binop("BloomFilter", "intersection", _ast.BitAnd, _ast.BitOr), rule="C13.intersection"),
    Mutant("intersection range(bloom_length - 1)", _B, replace_expr("BloomFilter", "intersection", "range(0, res.bloom_length)", "range(0, res.bloom_length - 1)"), rule="C13.intersection"),
    Mutant("union: similarity failure returns the receiver copy instead of None", _B, replace_stmt("BloomFilter", "union", "return None", "return self"), rule="C13.guard-first"),
    Mutant("intersection: type test dropped", _B, del_stmt("BloomFilter", "intersection", "if not _verify_not_type_mismatch"), rule="C13.guard-first"),
    Mutant("type helper accepts any object with a bloom", _B, replace_expr(None, "_verify_not_type_mismatch", "isinstance(second, (BloomFilter, BloomFilterOnDisk))", "isinstance(second, (BloomFilter, BloomFilterOnDisk, object))"), rule="C13.guard-first"),
    Mutant("join: depth not compared", _CM, replace_expr("CountMinSketch", "join", "self.depth != second.depth", "self.depth != self.depth"), rule="C13.join-guard"),
    Mutant("join: mismatch check after the merge loop", _CM, replace_stmt("CountMinSketch", "join", "if self.width != second.width", "pass"), rule="C13.join-guard"),
    Mutant("intersection clears the operand's counter", _B, insert_stmt("BloomFilter", "intersection", "second.elements_added = 0", before="return res"), rule="C13.operand"),
    Mutant("counting intersection > 0 spelled != 0 (same meaning for unsigned cells)", _CB,
           replace_expr("CountingBloomFilter", "intersection", "self._bloom[i] > 0 and second._bloom[i] > 0", "self._bloom[i] != 0 and second._bloom[i] != 0"), expect="silent"),
    Mutant("similarity written as a single expression (same meaning)", _B,
           replace_stmt("BloomFilter", "_verify_bloom_similarity", "if hash_match or same_bits or next_hash", "return not (hash_match or same_bits or next_hash)"), expect="silent"),
]
