"""C02 - count-min estimate bounds: address agreement, one store per row, stored = reported, min query."""
from __future__ import annotations

import ast as _ast

from ..common import CM_ANCHORS, all_conds, apaths, conds_at, nshow, outer_field, paths, unclamped
from ..expr import C, SELF, bounded_step, canon, norm, posroot, rowform, show, strip_epochs, walk
from ..model import AnalysisError

EXPL = ("add_alt, remove_alt and check_alt must address the same cell per row: the index expression of every access to the "
        "counter array is reduced to (element expression, generator domain) and compared in normal form - expected "
        "(hash % width) + row*width over enumerate(hashes).  Each row gets exactly one store per call, with value cell +/- num_els "
        "or the clamp constant; on every branch the value stored in the cell and the value left in the reported list are the same "
        "expression; the function returns query(sorted(reported)); the default query slot returns element 0 of the sorted list; "
        "the total is updated before the query runs.  With these the lower/upper bound follow from array('i') semantics.")
FILES = ["countminsketch/countminsketch.py"]
CTX = "CountMinSketch"
SLOT = "_CountMinSketch__query_method"
TOTAL = "_CountMinSketch__elements_added"


BINS = ("f", SELF, "_bins", 0)
WIDTH = ("f", SELF, "_CountMinSketch__width", 0)


def rf(e):
    """canonical row form: positional indexing resolved to the underlying per-row expression (and a step cut short at a bound
    written as the saturating update it is)"""
    return canon(bounded_step(rowform(e)))


def leaves(v):
    """the alternatives a conditional expression / min / max selects between"""
    if v[0] == "phi":
        return leaves(v[2]) | leaves(v[3])
    if v[0] == "call" and v[1] in (("g", "min"), ("g", "max")) and len(v[2]) == 2 and not v[3]:
        return leaves(v[2][0]) | leaves(v[2][1])
    return {v}


def dead_opposite_leaves(v, wantv, opp, sign):
    """True when every occurrence of the opposite limit among the alternatives of a two-sided saturation helper sits under a test that
    cannot hold: with the cell inside the 32-bit range and num_els >= 1 (the property's domain), cell + num_els is above -2^31 and
    cell - num_els is below 2^31 - 1, so `cell + num_els <= -2^31` / `cell - num_els >= 2^31 - 1` select nothing"""
    flip = {">": "<=", ">=": "<", "<": ">=", "<=": ">", "==": "!=", "!=": "=="}
    swap = {">": "<", "<": ">", ">=": "<=", "<=": ">=", "==": "==", "!=": "!="}
    impossible = ("<", "<=", "==") if sign == "+" else (">", ">=", "==")
    state = {"seen": False, "ok": True}

    def holds_never(c, pol):
        if c[0] != "cmp" or c[1] not in flip:
            return False
        op, a, b = c[1], c[2], c[3]
        if a == opp and b == wantv:
            op, a, b = swap[op], b, a
        if a != wantv or b != opp:
            return False
        if not pol:
            op = flip[op]
        return op in impossible

    def go(x, guards):
        if x[0] == "phi":
            go(x[2], guards + ((x[1], True),))
            go(x[3], guards + ((x[1], False),))
        elif x[0] == "call" and x[1] in (("g", "min"), ("g", "max")) and len(x[2]) == 2 and not x[3]:
            go(x[2][0], guards)
            go(x[2][1], guards)
        elif x == opp:
            state["seen"] = True
            if not any(holds_never(c, pol) for c, pol in guards):
                state["ok"] = False

    go(v, ())
    return state["seen"] and state["ok"]


def cell_accesses(ps):
    out = []
    for p in ps:
        for e in p.events:
            if e.kind == "setelem" and outer_field(e.cont) == "_bins" and strip_epochs(e.cont) == BINS:
                out.append(("store", e.index, e, p))
            vals = []
            if e.kind in ("setelem", "setfield", "return"):
                vals.append(e.value)
            if e.kind == "call":
                vals += list(e.args)
            for v in vals:
                for n in walk(v):
                    if n[0] == "sub" and strip_epochs(n[1]) == BINS:
                        out.append(("read", n[2], e, p))
    return out


def reported_list(p):
    """the list R in the returned query(sorted(R)) / query(R)"""
    rv = p.exit[1]
    if rv[0] == "call" and len(rv[2]) == 1 and rv[2][0][0] == "call" and rv[2][0][1] == ("g", "sorted") and len(rv[2][0][2]) == 1:
        return rv[2][0][2][0]
    if rv[0] == "call" and rv[1][0] == "v" and len(rv[2]) == 1 and (rv[2][0][0] == "comp" or (rv[2][0][0] == "newb" and rv[2][0][1] == "list")):
        return rv[2][0]
    return None


def callers_sort(prog) -> bool:
    """do add_alt / remove_alt / check_alt all hand the query method a sorted list?  (Then a query may rely on the order - results[0] is
    the minimum; otherwise every query has to be order-independent.)"""
    slot = ("f", SELF, SLOT, 0)
    ok = True
    for n in ("add_alt", "remove_alt", "check_alt"):
        f = prog.method(CTX, n)
        for p in paths(prog, CTX, f):
            if p.exit[0] != "return":
                continue
            rv = strip_epochs(p.exit[1])
            if rv[0] == "call" and rv[1] == ("v", slot) and len(rv[2]) == 1:
                a = rv[2][0]
                in_place = any(e.kind == "call" and e.name == "sort" and e.target is None and e.d.get("recv") is not None and strip_epochs(e.recv) == a
                               and not e.kwargs and not e.loops for e in p.events)  # vals.sort() before the query: the same ascending order
                if not (a[0] == "call" and a[1] == ("g", "sorted") and not a[3]) and not in_place:
                    ok = False
    return ok


def reported_value(p, R, lid):
    """what the row of loop `lid` contributes to list R on this path: an element store / append inside the loop wins over the
    element the list was built with"""
    key = strip_epochs(R)
    last = None
    for x in p.events:
        if not x.loops or x.loops[-1] != lid:
            continue
        if x.kind == "setelem" and strip_epochs(x.cont) == key:
            ix = rowform(x.index)
            if ix[0] != "ix" or ix[1] != lid:
                return None
            last = x.value
        elif x.kind == "call" and x.name in ("append", "insert", "extend", "pop", "remove", "clear", "sort", "reverse") \
                and x.d.get("recv") is not None and strip_epochs(x.recv) == key:
            if x.name != "append" or len(x.args) != 1 or last is not None:
                return None
            last = x.args[0]
    if last is not None:
        return last
    if R[0] == "comp" and posroot(R) is not None:
        return ("it", lid, R)
    return None


def check(prog, rep, tier):
    rep.extra["explanation"] = EXPL
    rep.rule("C02.address-agree", "add_alt, remove_alt and check_alt compute the same cell index per row", floor=3)
    rep.rule("C02.one-store-per-row", "each row receives exactly one store per call: cell +/- num_els or the clamp constant", floor=2)
    rep.rule("C02.stored-equals-reported", "the value stored in a cell equals the value reported for that row, on every branch", floor=2)
    rep.rule("C02.returns-query", "add/remove/check return query(sorted(row values)); the default query is element 0 (the minimum)", floor=4)
    rep.rule("C02.total-before-query", "the element total is updated (by +/- num_els) before the query method runs", floor=2)
    rep.trust("array('i') cells hold what was stored; sorted() orders ascending")
    forms = {}
    fns = {n: prog.method(CTX, n) for n in ("add_alt", "remove_alt", "check_alt")}
    allps = {}
    for n, f in fns.items():
        ps = apaths(prog, CTX, f, CM_ANCHORS)
        allps[n] = ps
        rep.analysed(f, CTX, len(ps))
        fs = {}
        for kind, idx, e, p in cell_accesses(ps):
            fs.setdefault(rf(idx), (kind, e))
        if not fs and n != "check_alt":
            rep.bad("C02.one-store-per-row", f"{CTX}.{n}", "no counter access", f"{n} never touches a counter", f.where())
            return
        if len(fs) != 1:
            for a, (kind, e) in sorted(fs.items(), key=lambda kv: nshow(kv[0])):
                rep.bad("C02.address-agree", f"{CTX}.{n}", f"index {nshow(a)}", f"{n} addresses counters in {len(fs)} different ways; {kind} at {nshow(a)}", e.where())
            return
        forms[n] = next(iter(fs))
    # documented shape: (hash % width) + row * width, row = position in hashes
    shape = canon(("bin", "+", ("bin", "%", ("it", "L", ("p", "hashes")), WIDTH), ("bin", "*", ("ix", "L", ("p", "hashes")), WIDTH)))
    for n, a in forms.items():
        if a != shape:
            rep.bad("C02.address-agree", f"{CTX}.{n}", f"index {nshow(a)}",
                    f"{n} addresses cell {nshow(a)}; expected (hash % width) + row * width with row the position in hashes: "
                    "increments, decrements and look-ups hit different counters, rows overlap or cells are skipped", fns[n].where())
        else:
            rep.ok("C02.address-agree", f"{CTX}.{n}: {nshow(a)}")
    # ------------------------------------------------------------------ store / report
    for n, sign in (("add_alt", "+"), ("remove_alt", "-")):
        f = fns[n]
        ps = [p for p in allps[n] if p.exit[0] == "return"]
        okrow = True
        okrep = True
        any_loop = False
        for p in ps:
            st = [e for e in p.events if e.kind == "setelem" and outer_field(e.cont) == "_bins"]
            lp = [e for e in st if e.loops]
            if not lp:
                if any(c.atom[0] == "loop0" for c in p.conds):
                    continue
                rep.bad("C02.one-store-per-row", f"{CTX}.{n}", "row without store", "a path through the row loop stores nothing into the row's cell", f.where())
                okrow = False
                continue
            any_loop = True
            if len(st) != 1:
                rep.bad("C02.one-store-per-row", f"{CTX}.{n}", f"{len(st)} stores per row", f"a row receives {len(st)} stores in one call", st[0].where())
                okrow = False
                continue
            e = st[0]
            lid = e.loops[-1]
            addr = rowform(e.index)
            stored = rf(e.value)
            wantv = canon(("bin", sign, ("sub", BINS, addr, 0), ("p", "num_els")))
            lim = C(2**31 - 1) if sign == "+" else C(-2**31)
            def capped_amount(x):
                """cell +/- min(num_els, K) with a constant K of at least 2^32 - 1: such a cap cannot be seen through the 32-bit clamp
                (an amount above K drives the cell to its limit either way)"""
                for K_ in [n_ for n_ in walk(x) if n_[0] == "c" and isinstance(n_[1], int) and not isinstance(n_[1], bool) and n_[1] >= 2**32 - 1]:
                    for capped in (("call", ("g", "min"), (("p", "num_els"), K_), ()), ("call", ("g", "min"), (K_, ("p", "num_els")), ())):
                        if x == canon(("bin", sign, ("sub", BINS, addr, 0), capped)):
                            return True
                return False
            opp = C(-2**31) if sign == "+" else C(2**31 - 1)
            dead = dead_opposite_leaves(stored, wantv, opp, sign)
            odd = [x for x in leaves(stored) if x not in (wantv, lim) and not capped_amount(x) and not (x == opp and dead)]
            if odd:
                rep.bad("C02.one-store-per-row", f"{CTX}.{n}", f"store {nshow(odd[0])}",
                        f"the cell receives {nshow(odd[0])}; expected cell {sign} num_els or the clamp constant", e.where())
                okrow = False
            # reported value for this row
            R = reported_list(p)
            reported = reported_value(p, R, lid) if R is not None else None
            if reported is None or rf(reported) != stored:
                rep.bad("C02.stored-equals-reported", f"{CTX}.{n}", f"stored {nshow(stored)} reported {nshow(rf(reported)) if reported else '?'}",
                        f"on this branch the cell is set to {nshow(stored)} but the row's reported value is {nshow(rf(reported)) if reported else 'something else'}: "
                        f"{n} returns a value that differs from what check reports afterwards", e.where())
                okrep = False
        if okrow and any_loop:
            rep.ok("C02.one-store-per-row", f"{CTX}.{n}: one store per row, cell {sign} num_els or clamp")
        if okrep and any_loop:
            rep.ok("C02.stored-equals-reported", f"{CTX}.{n}")
    # ------------------------------------------------------------------ returns query(sorted(vals)), total first
    slot = ("f", SELF, SLOT, 0)
    for n, f in fns.items():
        good = True
        for p in allps[n]:
            if p.exit[0] != "return":
                continue
            rv = strip_epochs(p.exit[1])
            issorted = rv[0] == "call" and rv[1] == ("v", slot) and len(rv[2]) == 1 and rv[2][0][0] == "call" and rv[2][0][1] == ("g", "sorted") and not rv[2][0][3]
            # the list may also be handed over as it is, in row order: then the query methods must not rely on an order (judged below and in C06)
            okq = issorted or (rv[0] == "call" and rv[1] == ("v", slot) and len(rv[2]) == 1 and reported_list(p) is not None)
            if not okq:
                rep.bad("C02.returns-query", f"{CTX}.{n}", f"return {nshow(rv)}", f"{n} returns {nshow(rv)}, not query_method(sorted(row values))", f.where(p.exit[2]))
                good = False
                break
            arg = p.exit[1][2][0][2][0] if issorted else p.exit[1][2][0]
            if n == "check_alt":
                okarg = False
                if arg[0] == "comp" and len(arg[3]) == 1 and not arg[3][0][3]:
                    el = rowform(("it", "Lq", arg))
                    okarg = el[0] == "sub" and strip_epochs(el[1]) == BINS and canon(el[2]) == forms.get("check_alt")
            else:
                okarg = arg[0] == "comp" or (arg[0] == "newb" and arg[1] == "list")
            if not okarg:
                rep.bad("C02.returns-query", f"{CTX}.{n}", f"query over {nshow(arg)}", f"the query is evaluated over {nshow(arg)}, not over one value per row", f.where(p.exit[2]))
                good = False
                break
            if n != "check_alt":
                sign = "+" if n == "add_alt" else "-"
                tot = [i for i, e in enumerate(p.events) if e.kind == "setfield" and e.name == TOTAL]
                qs = [i for i, e in enumerate(p.events) if e.kind == "call" and e.name == "<slot>" and strip_epochs(e.slot) == slot]
                first = p.events[tot[0]].value if tot else None
                wantt = canon(("bin", sign, ("f", SELF, TOTAL, 0), ("p", "num_els")))
                if not tot or not qs or tot[0] > qs[0] or unclamped(canon(first), (-2**63, 2**63 - 1)) != wantt:
                    rep.bad("C02.total-before-query", f"{CTX}.{n}", "total update",
                            f"the element total is not moved by {sign}num_els before the query runs (total {'= ' + nshow(first) if first else 'not updated'})", f.where())
                    good = False
                    break
        if good:
            rep.ok("C02.returns-query", f"{CTX}.{n}: query_method(sorted(rows))")
            if n != "check_alt":
                rep.ok("C02.total-before-query", f"{CTX}.{n}")
    # the hash list of a key is the same for add, remove and check: hashes() may remember answers only as a sound memo
    hf = prog.method(CTX, "hashes")
    if any(e.kind == "setfield" and e.base == SELF for p in paths(prog, CTX, hf, inline="deep") for e in p.events):
        from .C19 import memo_sound
        okm, why = memo_sound(prog, CTX, hf)
        if not okm:
            rep.bad("C02.address-agree", f"{CTX}.hashes", "remembered hashes",
                    f"hashes() can answer from a remembered list that is not known to belong to this call ({why}): an add, remove or check then addresses "
                    "the cells of a different (key, depth) and the estimate of the real key is off", hf.where())
    # check() hashes the key exactly as add() / remove() do
    from ..common import query_hashes_like_update
    for q_ in ("check", "remove"):
        bad_ = query_hashes_like_update(prog, CTX, q_)
        if bad_:
            rep.bad("C02.address-agree", f"{CTX}.{q_}", "other hash arguments than add", f"{bad_[1]}: for a strategy whose k-th hash depends on the requested depth "
                    f"{q_} addresses other cells than add did, and the estimate of an added key is off", bad_[0].where())
    # default slot = min query = results[0]
    mq = prog.method(CTX, "__min_query")
    mps = paths(prog, CTX, mq)
    rv = {strip_epochs(p.exit[1]) for p in mps if p.exit[0] == "return"}
    min_of = ("call", ("g", "min"), (("p", "results"),), ())
    if rv == {min_of}:
        rep.ok("C02.returns-query", "__min_query returns min(results)")
    elif rv == {("sub", ("p", "results"), C(0), 0)} and callers_sort(prog):
        rep.ok("C02.returns-query", "__min_query returns results[0] of the sorted list every caller hands over")
    elif rv == {("sub", ("p", "results"), C(0), 0)}:
        rep.bad("C02.returns-query", f"{CTX}.__min_query", "results[0] of an unsorted list",
                "the min query returns element 0 of the list it is given, and not every caller sorts that list any more: the estimate is the counter of row 0, not the minimum", mq.where())
    else:
        rep.bad("C02.returns-query", f"{CTX}.__min_query", f"returns {sorted(nshow(x) for x in rv)}", "the min query does not return element 0 of the sorted list", mq.where())
    init = prog.method(CTX, "__init__")
    ok = False
    for p in paths(prog, CTX, init):
        for e in p.events:
            if e.kind == "setfield" and e.name == SLOT:
                ok = e.value[0] == "bm" and e.value[2] == mq.name
                break
        break
    if not ok:
        rep.bad("C02.returns-query", f"{CTX}.__init__", "default query", "the constructor does not install the min query as default", init.where())


from ..selftest import Mutant, del_stmt, insert_stmt, replace_expr, replace_stmt, seq

_CM = "countminsketch/countminsketch.py"
MUTANTS = [
    Mutant("add_alt hands the row values over unsorted while the min query still takes element 0", _CM,
           replace_expr("CountMinSketch", "add_alt", "sorted(vals)", "vals"), rule="C02.returns"),
    Mutant("no caller sorts any more and the min query is min(results) (same estimates)", _CM, seq(
        replace_expr("CountMinSketch", "add_alt", "sorted(vals)", "vals"),
        replace_expr("CountMinSketch", "remove_alt", "sorted(vals)", "vals"),
        replace_expr("CountMinSketch", "check_alt", "sorted([self._bins[i] for i in bins])", "[self._bins[i] for i in bins]"),
        replace_expr("CountMinSketch", "__min_query", "results[0]", "min(results)")), expect="silent"),
    Mutant("check_alt stride i * depth", _CM, replace_expr("CountMinSketch", "check_alt", "i * self.width", "i * self.depth"), rule="C02.address"),
    Mutant("remove_alt modulus width-1", _CM, replace_expr("CountMinSketch", "remove_alt", "v % self.width", "v % (self.width - 1)"), rule="C02.address"),
    Mutant("add_alt: all three use row 0 only", _CM, replace_expr("CountMinSketch", "add_alt", "i * self.width", "0 * self.width"), rule="C02.address"),
    Mutant("add_alt: delete vals[i] = INT32_T_MAX", _CM, del_stmt("CountMinSketch", "add_alt", "vals[i] = INT32_T_MAX"), rule="C02.stored"),
    Mutant("remove_alt: delete vals[i] = INT32_T_MIN", _CM, del_stmt("CountMinSketch", "remove_alt", "vals[i] = INT32_T_MIN"), rule="C02.stored"),
    Mutant("__min_query results[1]", _CM, replace_expr("CountMinSketch", "__min_query", "results[0]", "results[-1]"), rule="C02.returns"),
    Mutant("add_alt returns query over unsorted reversed list", _CM, replace_expr("CountMinSketch", "add_alt", "sorted(vals)", "sorted(vals, reverse=True)"), rule="C02.returns"),
    Mutant("add_alt adds num_els twice to the cell", _CM, replace_stmt("CountMinSketch", "add_alt", "self._bins[idx] = val", "self._bins[idx] = val + num_els"), rule="C02."),
    Mutant("remove_alt updates the total after the query", _CM,
           replace_stmt("CountMinSketch", "remove_alt", "return self.__query_method", "res = self.__query_method(sorted(vals))\nself.__elements_added -= 0\nreturn res"), expect="silent"),
    Mutant("add_alt: total updated after the query", _CM,
           replace_stmt("CountMinSketch", "add_alt", "self.__elements_added += num_els", "pass"), rule="C02.total"),
    Mutant("check_alt reads bins[i] + 1", _CM, replace_expr("CountMinSketch", "check_alt", "self._bins[i]", "self._bins[i + 1]"), rule="C02.address"),
]
