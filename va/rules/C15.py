"""C15 - cuckoo table invariants hold after every operation."""
from __future__ import annotations

import ast as _ast

from ..common import all_conds, conds_at, mro_methods, nshow, outer_field, paths
from ..expr import C, SELF, canon, show, strip_epochs, walk
from ..intervals import EQ, GT, LT, path_orderings
from ..model import AnalysisError
from ..own import BINF, TABLE, cand_of, is_bucket
from .C03 import ANCHORS as ANCHORS3
from .C03 import CTXS, bin_drops, candidates_stable, cpaths, insert_flows, presence

EXPL = ("Bounded buckets: every append of an entry to a bucket is dominated by len(bucket) < bucket_size for that bucket "
        "(ordering-set semantics) or sits in a loader loop over range(bucket_size).  Candidate placement: from the ownership "
        "analysis, every sink goes to a candidate bucket of the entry sunk, and the eviction loop re-establishes 'current index "
        "is a candidate of the entry in hand' from indices recomputed for the NEW entry in hand; callers pass an entry together "
        "with its own candidate indices.  No duplicates: insertion is reached only on the not-present branch.  No zero bins: "
        "bins are built with 1, the caller's count, a loaded count or the count of a held bin, and a decrement is followed by the "
        "==0 -> remove test.  Capacity is written only by the constructor, the loaders and as capacity * expansion_rate.")
FILES = ["cuckoo/cuckoo.py", "cuckoo/countingcuckoo.py"]


def buckets_distinct_rule(prog, rep):
    """every bucket is an object of its own: what is appended to the bucket table inside a loop is built inside that loop (or is a copy
    made there) - never one list / array created before the loop, which every round would share, so that a later insertion into one
    bucket shows up in all of them.  Likewise the table is not `[bucket] * n`."""
    rep.rule("C15.buckets-distinct", "a bucket appended in a loop is created (or copied) in that round, never one object built before the loop; the table is not [bucket] * n", floor=1)
    from ..own import TABLE
    for ctx in CTXS:
        K = prog.cls(ctx)
        src_cache = {}
        bad, seen = None, 0
        for f in mro_methods(prog, ctx):
            mod = f.module
            if mod.relpath not in src_cache:
                loops = {}
                for n in _ast.walk(_ast.parse(prog.sources[mod.relpath])):
                    if isinstance(n, (_ast.For, _ast.While, _ast.ListComp, _ast.GeneratorExp)):
                        loops[(n.lineno, n.col_offset)] = (n.lineno, getattr(n, "end_lineno", n.lineno))
                src_cache[mod.relpath] = loops
            loops = src_cache[mod.relpath]
            for p in paths(prog, ctx, f):
                tables = {strip_epochs(e.value) for e in p.events if e.kind == "setfield" and e.name == TABLE} | {("f", SELF, TABLE, 0)}
                for e in p.events:
                    if e.kind == "setfield" and e.name == TABLE:
                        v = strip_epochs(e.value)
                        if v[0] == "nary" and v[1] == "*" and any(x[0] == "lst" and any(y[0] in ("newb", "lst") for y in x[1]) for x in v[2]):
                            bad = bad or (f, e, "the table is one bucket object repeated (`[bucket] * n`)")
                        if v[0] == "comp" and v[1] == "list" and v[2][0] in ("newb", "lst", "comp"):
                            seen += 1  # [[] for _ in range(n)]: the element expression is evaluated per element, each bucket is its own object
                    if not (e.kind == "call" and e.name == "append" and e.target is None and e.d.get("recv") is not None and e.args and e.loops):
                        continue
                    if strip_epochs(e.recv) not in tables:
                        continue
                    seen += 1
                    lid = e.loops[-1]
                    try:
                        span = loops.get(tuple(int(x) for x in lid.rsplit("@", 1)[1].split(":")))
                    except Exception:
                        span = None
                    if span is None:
                        continue
                    alts = [strip_epochs(e.args[0])]
                    while alts:
                        v = alts.pop()
                        if v[0] == "phi":
                            alts += [v[2], v[3]]
                            continue
                        if v[0] == "newb" and v[1] in ("array", "list", "dict", "set", "bytearray") and isinstance(v[2], str) and "@" in v[2]:
                            try:
                                ln = int(v[2].rsplit("@", 1)[1].split(":")[0])
                            except Exception:
                                continue
                            same_fn = v[2].rsplit("@", 1)[0] == lid.rsplit("@", 1)[0]
                            if same_fn and not (span[0] <= ln <= span[1]):
                                bad = bad or (f, e, f"the {v[1]} built at line {ln}, before the loop, is appended in every round")
        if bad:
            f, e, why = bad
            rep.bad("C15.buckets-distinct", f"{ctx}.{f.src_name}", "shared bucket object",
                    f"{why}: all those buckets are one object, so a fingerprint inserted into one of them appears in every one (misplaced and stored many times over)", e.where())
        elif seen:
            rep.ok("C15.buckets-distinct", f"{ctx}: {seen} bucket append(s) in loops, each of an object built or copied in that round")


def check(prog, rep, tier):
    rep.extra["explanation"] = EXPL
    rep.rule("C15.bounded-append", "an entry is appended to a bucket only under len(bucket) < bucket_size, or in a loader loop over range(bucket_size)", floor=2)
    rep.rule("C15.candidate", "every entry is placed in one of the two buckets its fingerprint maps to", floor=4)
    rep.rule("C15.no-duplicate", "insertion happens only on the not-present branch", floor=2)
    rep.rule("C15.no-zero-bin", "counting bins never carry count zero", floor=3)
    rep.rule("C15.capacity-writers", "capacity changes only by multiplication with the expansion rate (or on construction / load)", floor=2)
    buckets_distinct_rule(prog, rep)
    rep.assume("tables loaded from files that the library did not write are outside the claim")
    bsz = ("f", SELF, "_bucket_size", 0)
    for ctx in CTXS:
        # the two buckets of a fingerprint are recomputed from the current capacity whenever they are needed
        candidates_stable(prog, rep, ctx, "C15.candidate")
        # ------------------------------------------------------------ the bound itself is a whole number
        # "no bucket holds more than bucket_size entries" is decided through len(bucket) < bucket_size: that bounds the length by
        # bucket_size only if bucket_size is an integer (len < 2.5 admits a third entry; the padding arithmetic of export then fails too)
        init = prog.method(ctx, "__init__")
        okint, nint = True, 0
        for p in paths(prog, ctx, init, inline="deep"):
            if p.exit[0] != "return":
                continue
            for e in p.events:
                if e.kind == "setfield" and e.base == SELF and e.name in ("_bucket_size", "_cuckoo_capacity"):
                    v = strip_epochs(e.value)
                    nint += 1
                    integral = (v[0] == "c" and isinstance(v[1], int)) or (v[0] == "call" and v[1] in (("g", "int"), ("g", "len"), ("ext", "math", "ceil"), ("ext", "math", "floor"))) or \
                        (v[0] == "unp" and [c_ for c_ in v[1] if c_.isalpha()][v[2]] in "bBhHiIlLqQnN") or \
                        (v[0] in ("bin", "nary") and v[1] in ("//", "*", "+", "-") and all(
                            (x[0] == "c" and isinstance(x[1], int)) or x[0] == "unp" or (x[0] == "call" and x[1] in (("g", "int"), ("g", "len"))) or x[0] in ("bin", "nary", "f")
                            for x in (v[2] if v[0] == "nary" else v[2:])))
                    if not integral and okint:
                        rep.bad("C15.bounded-append", f"{ctx}.__init__", f"{e.name} = {nshow(v)}",
                                f"the constructor stores {nshow(v)} as {e.name.lstrip('_')} without making it a whole number: a fractional value passes the Number check, and "
                                "len(bucket) < bucket_size then admits one entry too many", e.where())
                        okint = False
        if okint and nint:
            rep.ok("C15.bounded-append", f"{ctx}.__init__: bucket_size and capacity are stored as integers ({nint} assignments)")
        # ------------------------------------------------------------ bounded appends
        okb = True
        nsites = 0
        for f in mro_methods(prog, ctx):
            if f.prop:
                continue
            rep.analysed(f, ctx, len(cpaths(prog, ctx, f)))
            for p in cpaths(prog, ctx, f):
                for e in p.events:
                    if not (e.kind == "call" and e.target is None and e.name in ("append", "insert", "extend", "__iadd__") and e.recv is not None):
                        continue
                    alts, b = [e.recv], None
                    while alts and b is None:
                        r = alts.pop()
                        if r[0] == "phi":
                            alts += [r[2], r[3]]  # either object may be the one that grows
                        else:
                            b = is_bucket(r)
                            r_ = strip_epochs(r)
                            if b is None and r_[0] == "it" and r_[2] == ("f", SELF, TABLE, 0):
                                b = r_  # a bucket reached by iterating over the table
                    if b is None:
                        continue
                    nsites += 1
                    ln = ("call", ("g", "len"), (("sub", ("f", SELF, TABLE, 0), b, 0),), ())
                    o = path_orderings([strip_epochs(c) for c in conds_at(p, e)], ln, bsz)
                    in_loader = any(strip_epochs(c.atom) == C(None) for c in []) or _in_range_loop(p, e, bsz)
                    if e.name == "append" and (o <= {LT} or in_loader):
                        continue
                    rep.bad("C15.bounded-append", f"{ctx}.{f.src_name}", f"{e.name} with len vs bucket_size in {sorted(o)}",
                            f"an entry is added to bucket {nshow(b)} on a path where len(bucket) vs bucket_size may be {sorted(o)}: a bucket can exceed bucket_size", e.where())
                    okb = False
        if okb and nsites:
            rep.ok("C15.bounded-append", f"{ctx}: bucket-level appends guarded")
        elif okb:
            rep.bad("C15.bounded-append", ctx, "no bucket-level append", f"no method of {ctx} appends an entry to a bucket under the capacity guard any more", prog.cls(ctx).module.relpath + ":1")
        # ------------------------------------------------------------ candidates
        f, flows = insert_flows(prog, ctx)
        okc = True
        from ..effects import Effects
        E = Effects(prog)
        for p, fl in flows:
            for (rule, msg, e) in fl.problems:
                if rule == "own.candidate":
                    rep.bad("C15.candidate", f"{ctx}.{f.src_name}", "sink outside the candidate buckets", msg, e.where())
                    okc = False
            if fl.inhand_var is not None:
                names = getattr(fl, "end_names", {})
                # entry: idx chosen among the parameter's candidates
                pre = [e for e in p.events if e.kind == "bind" and not e.loops]
                idxvars = [e.name for e in pre if strip_epochs(e.value)[0] == "call" and strip_epochs(e.value)[1] == ("ext", "random", "choice")]
                for iv in idxvars:
                    v = strip_epochs([e.value for e in pre if e.name == iv][-1])
                    want = ("call", ("ext", "random", "choice"), (("lst", (("p", "idx_1"), ("p", "idx_2"))),), ())
                    # ... or the candidates computed afresh for the entry in hand (after the table was re-sized, the only valid ones)
                    fresh = None
                    if v[0] == "call" and v[1] == ("ext", "random", "choice") and len(v[2]) == 1 and v[2][0][0] in ("lst", "tup") and len(v[2][0][1]) == 2:
                        a_, b_ = v[2][0][1]
                        if a_[0] == "sub" and b_[0] == "sub" and a_[1] == b_[1] and {a_[2], b_[2]} == {C(0), C(1)} and a_[1][0] == "ret" \
                                and a_[1][1].endswith("._indicies_from_fingerprint") and a_[1][3][-1:] == (("p", "fingerprint"),):
                            fresh = a_[1]
                    choice_ev = [e for e in pre if e.name == iv][-1]
                    resized = [e for e in p.events[:p.events.index(choice_ev)] if e.kind == "call" and e.target is not None and not e.d.get("inlined")
                               and any(x[0] == "self" and x[1] == "_cuckoo_capacity" for x in E.of(ctx, e.target))]
                    if fresh is not None and not [e for e in resized if p.events.index(e) > max([i for i, x in enumerate(p.events) if x.kind == "call" and strip_epochs(x.d.get("result") or ()) == fresh] or [-1])]:
                        continue
                    if resized and fresh is None:
                        rep.bad("C15.candidate", f"{ctx}.{f.src_name}", "stale candidates after a re-size",
                                f"the eviction starts from {nshow(v)}, candidates computed before {resized[0].name}() changed the capacity: they are not the entry's candidates in the new table", resized[0].where())
                        okc = False
                        continue
                    if v[0] == "call" and len(v[2]) == 1 and v[2][0][0] == "tup":
                        v = (v[0], v[1], (("lst", v[2][0][1]),), v[3])  # choosing from a tuple is choosing from the list of the same two
                    if v != want and v != ("call", ("ext", "random", "choice"), (("lst", (("p", "idx_2"), ("p", "idx_1"))),), ()):
                        rep.bad("C15.candidate", f"{ctx}.{f.src_name}", f"start index {nshow(v)}", "the eviction starts from an index that is not one of the new entry's two candidates", f.where())
                        okc = False
                    # end of iteration: the index variable must be a candidate of the entry now in hand
                    if len(fl.held) == 1 and p.exit[0] == "return" and strip_epochs(p.exit[1])[0] == "hv":
                        endv = names.get(iv)
                        if endv is None or not cand_of(endv, fl.held[0]):
                            rep.bad("C15.candidate", f"{ctx}.{f.src_name}", f"next index {nshow(endv) if endv else '?'}",
                                    f"after an eviction the next bucket index is {nshow(endv) if endv else 'not recomputed'}, which is not derived from the candidates of the entry "
                                    f"now in hand ({nshow(fl.held[0].finger)}): the victim can be stored in a bucket where look-ups will not find it", f.where())
                            okc = False
        # callers pass an entry with its own candidates
        gen = prog.method(ctx, "_generate_fingerprint_info")
        for p in cpaths(prog, ctx, gen):
            if p.exit[0] == "return" and p.exit[1][0] == "tup" and len(p.exit[1][1]) == 3:
                i1, i2, fp = (strip_epochs(x) for x in p.exit[1][1])
                okg = all(x[0] == "sub" and x[1][0] == "ret" and x[1][1].endswith("._indicies_from_fingerprint") and strip_epochs(x[1][3][-1]) == fp for x in (i1, i2)) \
                    and {i1[2], i2[2]} == {C(0), C(1)}
                if not okg:
                    rep.bad("C15.candidate", f"{ctx}._generate_fingerprint_info", "indices not from the fingerprint", "the indices returned with a fingerprint are not its two candidate indices", gen.where())
                    okc = False
        for caller in ("add", "_expand_logic"):
            cf = prog.method(ctx, caller)
            for p in cpaths(prog, ctx, cf):
                for e in p.events:
                    if e.kind == "call" and e.name == CTXS[ctx] and len(e.args) >= 3:
                        fp, a1, a2 = (strip_epochs(x) for x in e.args[:3])
                        good = False
                        if caller == "add":
                            good = all(x[0] == "sub" and x[1][0] == "ret" and x[1][1].endswith("._generate_fingerprint_info") for x in (fp, a1, a2)) and \
                                (fp[2], a1[2], a2[2]) == (C(2), C(0), C(1)) and fp[1] == a1[1] == a2[1]
                        else:
                            good = all(x[0] == "sub" and x[1][0] == "ret" and x[1][1].endswith("._indicies_from_fingerprint") and strip_epochs(x[1][3][-1]) == fp for x in (a1, a2)) \
                                and {a1[2], a2[2]} == {C(0), C(1)}
                        if not good:
                            rep.bad("C15.candidate", f"{ctx}.{caller}", f"insert({nshow(fp)}, {nshow(a1)}, {nshow(a2)})",
                                    "an entry is inserted with indices that are not its own two candidate indices", e.where())
                            okc = False
        if okc:
            rep.ok("C15.candidate", f"{ctx}: sinks, loop invariant and call sites use the entry's own candidates")
            rep.ok("C15.candidate", f"{ctx}: callers pass (entry, its candidates)")
        # ------------------------------------------------------------ no duplicates
        add = prog.method(ctx, "add")
        okd = True
        for p in cpaths(prog, ctx, add):
            # an entry also enters the table when it is handed to the expansion step directly (a full-table shortcut): with
            # auto_expand on, _deal_with_insertion re-inserts what it is given
            ins = [e for e in p.events if e.kind == "call" and e.name in (CTXS[ctx], "_deal_with_insertion")]
            pr = presence(p)
            pres = pr is not None
            if ins:
                absent = pres and pr[0] == "absent"
                if ctx == "CuckooFilter" and not absent:
                    rep.bad("C15.no-duplicate", f"{ctx}.add", "insert without the presence test", "a fingerprint is inserted on a path where it may already be stored", ins[0].where())
                    okd = False
                if ctx == "CountingCuckooFilter" and not pres:
                    rep.bad("C15.no-duplicate", f"{ctx}.add", "insert without the presence test", "a bin is inserted without looking for an existing bin of that fingerprint", ins[0].where())
                    okd = False
        if okd:
            rep.ok("C15.no-duplicate", f"{ctx}.add")
        # ------------------------------------------------------------ the presence test looks at both candidate buckets, completely
        cp = prog.method(ctx, "_check_if_present")
        okp = True
        fpp = ("p", "fingerprint")
        from .C03 import _same_bucket, _search_facts
        tabf = ("f", SELF, TABLE, 0)
        B = {"idx_1": ("sub", tabf, ("p", "idx_1"), 0), "idx_2": ("sub", tabf, ("p", "idx_2"), 0)}
        for p in cpaths(prog, ctx, cp):
            if p.exit[0] != "return":
                continue
            seen_b = {}
            searched_form = False
            for c in p.conds:
                a = strip_epochs(c.atom)
                which = None
                if a[0] == "cmp" and a[1] in ("in", "notin") and a[2] == fpp:
                    rhs = a[3]
                    for k in ("idx_1", "idx_2"):
                        bk = B[k]
                        full = rhs == bk or (rhs[0] == "comp" and len(rhs[3]) == 1 and not rhs[3][0][3] and strip_epochs(rhs[3][0][2]) == bk
                                             and strip_epochs(rhs[2])[0] in ("sub", "f", "it"))
                        if full:
                            which = k
                if which is None and a[0] == "call" and a[1] == ("g", "any") and len(a[2]) == 1 and a[2][0][0] == "comp" and len(a[2][0][3]) == 1 and not a[2][0][3][0][3]:
                    comp = a[2][0]
                    elt = comp[2]
                    dom = strip_epochs(comp[3][0][2])
                    for k in ("idx_1", "idx_2"):
                        member = elt[0] == "cmp" and ((elt[1] == "in" and elt[2] == fpp and elt[3][0] == "it") or (elt[1] == "==" and fpp in (elt[2], elt[3])))
                        if dom == B[k] and member:
                            which = k
                    if which is not None:
                        seen_b[which] = c.truth
                        continue
                if which is None:
                    searched_form = True  # a written-out walk (loops, early returns): judged through the search facts below
                    continue
                seen_b[which] = ((a[1] == "in") == c.truth)
            rv = strip_epochs(p.exit[1])
            if searched_form:
                hit, walked = _search_facts(p, fpp, set(B.values()))
                extra = [c for c in p.conds if strip_epochs(c.atom)[0] not in ("loop0",) and not (strip_epochs(c.atom)[0] == "cmp" and strip_epochs(c.atom)[1] in ("in", "notin"))
                         and not (strip_epochs(c.atom)[0] == "cmp" and strip_epochs(c.atom)[1] in ("==", "!=") and {strip_epochs(c.atom)[2], strip_epochs(c.atom)[3]} == {("p", "idx_1"), ("p", "idx_2")})
                         and not (strip_epochs(c.atom)[0] == "call" and strip_epochs(c.atom)[1] == ("g", "any"))]
                if extra:
                    rep.bad("C15.no-duplicate", f"{ctx}._check_if_present", f"decision {nshow(extra[0].atom)}",
                            f"the presence test also branches on {nshow(extra[0].atom)}: it may skip a candidate bucket and report a stored fingerprint as absent, so add stores it twice", cp.where(extra[0].node))
                    okp = False
                    break
                if hit is not None:
                    seen_b[[k for k, v in B.items() if v == hit[2]][0]] = True
                for k, v in B.items():
                    if v in walked and seen_b.get(k) is not True:
                        seen_b[k] = False
                if walked and _same_bucket(p, ("p", "idx_1"), ("p", "idx_2")):
                    seen_b.setdefault("idx_1", False)
                    seen_b.setdefault("idx_2", False)
            if _same_bucket(p, ("p", "idx_1"), ("p", "idx_2")) and False in seen_b.values() and True not in seen_b.values():
                # the two candidates are one and the same bucket here: examining it once is examining both
                seen_b.setdefault("idx_1", False)
                seen_b.setdefault("idx_2", False)
            if rv == C(None) and not (seen_b.get("idx_1") is False and seen_b.get("idx_2") is False):
                rep.bad("C15.no-duplicate", f"{ctx}._check_if_present", f"absent after looking at {sorted(seen_b)}",
                        f"'not present' is concluded after examining only {sorted(k for k in seen_b)}: a fingerprint stored in the other candidate bucket is inserted again", cp.where())
                okp = False
                break
            if rv[0] == "phi" and rv[1][0] == "cmp" and rv[1][1] in ("in", "notin") and rv[1][2] == fpp and rv[1][3] in B.values():
                # return k if fingerprint in buckets[k] else None: the last bucket examined inside the return expression
                k_ = [k for k, v in B.items() if v == rv[1][3]][0]
                yes, no = (rv[2], rv[3]) if rv[1][1] == "in" else (rv[3], rv[2])
                others_absent = all(seen_b.get(k) is False or _same_bucket(p, ("p", "idx_1"), ("p", "idx_2")) for k in B if k != k_)
                if yes == ("p", k_) and no == C(None) and others_absent:
                    continue
            if rv != C(None) and not (rv[0] == "p" and seen_b.get(rv[1]) is True):
                rep.bad("C15.no-duplicate", f"{ctx}._check_if_present", f"returns {nshow(rv)}", "the reported bucket is not one in which the fingerprint was found", cp.where())
                okp = False
                break
        if okp:
            rep.ok("C15.no-duplicate", f"{ctx}._check_if_present: both candidate buckets examined completely")
        # ------------------------------------------------------------ capacity writers
        okw = True
        grown = canon(("bin", "*", ("f", SELF, "_cuckoo_capacity", 0), ("f", SELF, "_CuckooFilter__expansion_rate", 0)))

        def cap_ok(v):
            v = strip_epochs(v)
            if v[0] == "phi":
                return cap_ok(v[2]) and cap_ok(v[3])
            return canon(v) == grown

        def from_callers(helper):
            """a private helper stores a value handed in by its callers: decided at every call site in the class, helper looked through"""
            n = 0
            for g in mro_methods(prog, ctx):
                if g is helper:
                    continue
                plain = cpaths(prog, ctx, g)
                if not any(e.kind == "call" and e.target is helper for p in plain for e in p.events):
                    continue
                for p in paths(prog, ctx, g, inline="deep", force_inline=(helper.qualname,),
                               no_inline=tuple(a for a in ANCHORS3 if a not in (g.src_name, helper.src_name))):
                    for e in p.events:
                        if e.kind == "setfield" and e.name == "_cuckoo_capacity" and e.base == SELF and e.func is helper:
                            n += 1
                            if not cap_ok(e.value):
                                return False
            return n > 0

        for f in mro_methods(prog, ctx):
            for p in cpaths(prog, ctx, f):
                for e in p.events:
                    if e.kind == "setfield" and e.name == "_cuckoo_capacity" and e.base == SELF:
                        allowed = f.src_name in ("__init__", "_parse_footer", "_parse_buckets") or cap_ok(e.value)
                        if not allowed and e.func is f and f.src_name.startswith("_") and not f.src_name.startswith("__") and \
                                any(n[0] == "p" and n[1] in f.params for n in walk(strip_epochs(e.value))):
                            allowed = from_callers(f)
                        if not allowed:
                            rep.bad("C15.capacity-writers", f"{ctx}.{f.src_name}", f"capacity = {nshow(e.value)}",
                                    f"capacity is set to {nshow(e.value)}; outside construction/loading it may only be multiplied by the expansion rate", e.where())
                            okw = False
        # ... and a loader sets it to the number of buckets the input really holds (else every entry sits in a bucket it does not map to)
        from .C05 import emissions, footer_of, loaded_capacity_problem, loaded_obj, reader_paths
        _, em_ = emissions(prog, ctx)
        ft_ = footer_of(em_)
        for rn in ("_load", "frombytes"):
            rf_, rps = reader_paths(prog, ctx, rn)
            for p in rps:
                pb = loaded_capacity_problem(p, loaded_obj(rf_, p), ctx, ft_[1]) if ft_ is not None else None
                if pb:
                    rep.bad("C15.capacity-writers", f"{ctx}.{rn}", pb[0], pb[1] + ": after loading, stored fingerprints do not sit in the buckets they map to for that capacity", rf_.where())
                    okw = False
                    break
        if okw:
            rep.ok("C15.capacity-writers", ctx)
    # ---------------------------------------------------------------- no zero bins (counting)
    ctx = "CountingCuckooFilter"
    okz = True
    for f in mro_methods(prog, ctx):
        if f.prop:
            continue
        for p in cpaths(prog, ctx, f):
            for e in p.events:
                if e.kind == "new" and e.cls == "CountingCuckooBin" and len(e.args) == 2:
                    c = strip_epochs(e.args[1])
                    ok = c == C(1) or c == ("p", "count") or (c[0] == "unp") or (c[0] == "sub" and c[1][0] == "f" and c[1][2] == BINF and c[2] == C(1)) \
                        or (c[0] == "f" and c[2] == "count") or (c[0] == "sub" and c[1][0] == "f" and c[2] == C(1))
                    if c[0] == "unp":
                        # loaded count: kept only for non-empty slots
                        fg = strip_epochs(e.args[0])
                        o_ = path_orderings([strip_epochs(cd) for cd in conds_at(p, e)], fg, C(0)) & {EQ, GT}  # unsigned slot value
                        ok = o_ <= {GT}
                    if not ok:
                        rep.bad("C15.no-zero-bin", f"{ctx}.{f.src_name}", f"bin count {nshow(c)}", f"a bin is built with count {nshow(c)}, which may be zero", e.where())
                        okz = False
    if okz:
        rep.ok("C15.no-zero-bin", "bins are built with 1, the caller's count, a held bin's count or a loaded count of a non-empty slot")
    rm = prog.method(ctx, "remove")
    okr, seen = True, False
    for p in cpaths(prog, ctx, rm):
        dec = [i for i, e in enumerate(p.events) if e.kind == "call" and e.name == "decrement"]
        if not dec:
            continue
        seen = True
        z = [c for c in p.conds if c.atom[0] == "cmp" and c.atom[1] in ("==", "!=", ">", "<=") and c.atom[3] == C(0) and
             (any(n[0] == "f" and n[2] == BINF for n in walk(c.atom[2]))
              or (strip_epochs(c.atom[2])[0] == "ret" and strip_epochs(c.atom[2])[1].endswith("CountingCuckooBin.decrement"))
              or (strip_epochs(c.atom[2])[0] == "call" and strip_epochs(c.atom[2])[1][0] == "m" and strip_epochs(c.atom[2])[1][2] == "decrement"))]  # decrement() returns the new count
        rem = bin_drops(p, dec[0])
        if not z:
            rep.bad("C15.no-zero-bin", f"{ctx}.remove", "no zero test after decrement", "after decrementing a bin its count is not tested against zero", rm.where())
            okr = False
            break
        zero = (z[0].atom[1] in ("==", "<=")) == z[0].truth  # counts are never negative: > 0 is != 0
        if zero != bool(rem):
            rep.bad("C15.no-zero-bin", f"{ctx}.remove", f"count==0 is {zero}, bin removed is {bool(rem)}",
                    "a bin whose count reached zero stays in its bucket (or a non-empty bin is dropped)", rm.where())
            okr = False
            break
    if okr and seen:
        rep.ok("C15.no-zero-bin", f"{ctx}.remove: decrement, then ==0 -> bin removed")
        rep.ok("C15.no-zero-bin", f"{ctx}.remove: non-zero bins stay")
    elif okr:
        rep.bad("C15.no-zero-bin", f"{ctx}.remove", "no decrement", "remove never decrements a bin", rm.where())


def _in_range_loop(p, e, bsz) -> bool:
    """event e sits directly in a loop over range(bucket_size) (loader: at most bucket_size appends per bucket)"""
    if not e.loops:
        return False
    lid = e.loops[-1]
    for ev in p.events:
        if ev.kind == "bind" and ev.loops and ev.loops[-1] == lid and ev.value[0] == "it" and ev.value[1] == lid:
            return strip_epochs(ev.value[2]) == ("call", ("g", "range"), (bsz,), ())
    return False


from ..selftest import Mutant, del_stmt, insert_stmt, replace_expr, replace_stmt, seq, swap_cmp

_CK, _CC = "cuckoo/cuckoo.py", "cuckoo/countingcuckoo.py"
MUTANTS = [
    Mutant("_setup_expand fills the new table with one list object built before the loop", "cuckoo/cuckoo.py", seq(
        insert_stmt("CuckooFilter", "_setup_expand", "fresh = []", before="for _ in range(self.capacity)"),
        replace_stmt("CuckooFilter", "_setup_expand", "self.buckets.append([])", "self.buckets.append(fresh)")), rule="C15.buckets-distinct"),
    Mutant("_setup_expand appends a copy of a template list built before the loop (each bucket its own object)", "cuckoo/cuckoo.py", seq(
        insert_stmt("CuckooFilter", "_setup_expand", "fresh = []", before="for _ in range(self.capacity)"),
        replace_stmt("CuckooFilter", "_setup_expand", "self.buckets.append([])", "self.buckets.append(fresh[:])")), expect="silent"),
    Mutant("counting add: a full table hands a new bin to the expansion step before looking for the fingerprint's bin", _CC,
           insert_stmt("CountingCuckooFilter", "add", "if self.load_factor() >= 1.0: return self._deal_with_insertion(CountingCuckooBin(fingerprint, 1))",
                       before="is_present = self._check_if_present"), rule="C15.no-duplicate"),
    Mutant("__insert_element < -> <=", _CK, swap_cmp("CuckooFilter", "__insert_element", _ast.Lt, _ast.LtE), rule="C15.bounded"),
    Mutant("counting __insert_element < -> <=", _CC, swap_cmp("CountingCuckooFilter", "__insert_element", _ast.Lt, _ast.LtE), rule="C15.bounded"),
    Mutant("eviction: idx = index_1 always", _CK, replace_stmt("CuckooFilter", "_insert_fingerprint", "idx = index_2 if idx == index_1 else index_1", "idx = index_1"), expect="silent"),
    Mutant("eviction: next index from the OLD in-hand entry", _CK, replace_stmt("CuckooFilter", "_insert_fingerprint", "index_1, index_2 = self._indicies_from_fingerprint(fingerprint)", "index_1, index_2 = self._indicies_from_fingerprint(swb + 1)"), rule="C15.candidate"),
    Mutant("eviction: next index random", _CK, replace_stmt("CuckooFilter", "_insert_fingerprint", "idx = index_2 if idx == index_1 else index_1", "idx = random.randint(0, self.capacity - 1)"), rule="C15.candidate"),
    Mutant("add: insert without the presence test", _CK, replace_stmt("CuckooFilter", "add", "if is_present is not None", "pass"), rule="C15.no-dup"),
    Mutant("counting presence test skips the alternate bucket when the primary has room", _CC,
           replace_stmt("CountingCuckooFilter", "_check_if_present", "if fingerprint in [x.finger for x in self.buckets[idx_2]]", "if len(self.buckets[idx_1]) >= self.bucket_size and fingerprint in [x.finger for x in self.buckets[idx_2]]:\n    return idx_2"), rule="C15.no-dup"),
    Mutant("presence test looks at the first slot only", _CK, replace_expr("CuckooFilter", "_check_if_present", "self.buckets[idx_2]", "self.buckets[idx_2][:1]"), rule="C15.no-dup"),
    Mutant("_setup_expand: capacity + expansion_rate", _CK, replace_expr("CuckooFilter", "_setup_expand", "self.capacity * self.expansion_rate", "self.capacity + self.expansion_rate"), rule="C15.capacity"),
    Mutant("add passes swapped candidate of another fingerprint", _CK, replace_expr("CuckooFilter", "add", "self._insert_fingerprint(fingerprint, idx_1, idx_2)", "self._insert_fingerprint(fingerprint, idx_1, idx_1 + 1)"), rule="C15.candidate"),
    Mutant("counting remove: zero bin kept", _CC, del_stmt("CountingCuckooFilter", "remove", "self.buckets[idx].remove(bucket)"), rule="C15.no-zero"),
    Mutant("counting remove: bin dropped at count 1", _CC, replace_expr("CountingCuckooFilter", "remove", "bucket.count == 0", "bucket.count == 1"), rule="C15.no-zero"),
    Mutant("counting loader keeps empty slots", _CC, replace_expr("CountingCuckooFilter", "_parse_buckets", "finger > 0", "finger >= 0"), rule="C15.no-zero"),
    Mutant("expand re-inserts with a bucket chosen by count", _CC, replace_expr("CountingCuckooFilter", "_expand_logic", "self._insert_fingerprint_alt(elm.finger, idx_1, idx_2, elm.count)", "self._insert_fingerprint_alt(elm.finger, idx_1, elm.count, elm.count)"), rule="C15.candidate"),
]
