"""C10 - rotating Bloom filter stays bounded and keeps the most recent insertions (decision table of the rotation)."""
from __future__ import annotations

import ast as _ast

from ..common import all_conds, conds_at, nshow, paths
from ..expr import C, SELF, canon, strip_epochs
from ..intervals import EQ, GT, LT, path_orderings
from ..model import AnalysisError
from .C09 import BLOOMS, NEWEST, add_alt_shape, appended_ok, entry_paths, list_ops, sub_counter_once

EXPL = ("Decision table of the rotation, judged through its callers add_alt and push with the private helpers looked through, over the predicates forced (push), ready (newest.count vs "
        "est_elements, by admitted orderings under count <= est) and room (queue length vs max_queue_size): a sub-filter is "
        "appended exactly when force or ready; an append without room is preceded by exactly one pop(0), an append with room "
        "by none; a pop is always followed by an append; eviction is at index 0, insertion at [-1], growth by append (FIFO "
        "orientation).  pop() refuses a single-element queue before mutating.  add_alt counts every call, inserts exactly when "
        "force or not present, rotates before inserting.  The bounded-queue, never-empty and sliding-window clauses follow "
        "from FIFO plus these bounds.")
FILES = ["blooms/expandingbloom.py", "blooms/bloom.py"]
CTX = "RotatingBloomFilter"


def check(prog, rep, tier):
    rep.extra["explanation"] = EXPL
    rep.rule("C10.counter-dominates", "elements_added += 1 exactly once on every path of add_alt", floor=1)
    rep.rule("C10.insert-condition", "insertion into the newest sub-filter exactly when force or not present", floor=1)
    rep.rule("C10.growth-precedes-insert", "the rotation runs once, before the insertion", floor=1)
    rep.rule("C10.rotation-table", "append <=> force or ready; pop(0) exactly when appending without room; FIFO orientation", floor=1)
    rep.rule("C10.append", "rotation appends one sub-filter sized with the filter's own est_elements", floor=1)
    rep.rule("C10.pop-guard", "pop() raises before mutating when one sub-filter is left, else removes the oldest", floor=1)
    rep.rule("C10.push", "push() forces a rotation", floor=1)
    rep.rule("C10.limit-fixed", "max_queue_size is written only by the constructor", floor=1)
    rep.rule("C10.sub-counter", "a sub-filter counts one per add_alt", floor=1)
    rep.assume("inductive hypotheses: newest.count <= est_elements; 1 <= queue length <= max_queue_size (established by these rules; "
               "loading with a smaller max_queue_size than was saved is outside the claim)")
    f_add, add_rows, shape_ok = add_alt_shape(prog, rep, "C10", CTX, "_added_elements")
    count = ("f", NEWEST, "_els_added", 0)
    est = ("f", NEWEST, "_est_elements", 0)
    own_est = ("f", SELF, "_ExpandingBloomFilter__est_elements", 0)
    est_aliases = planned_size_aliases(prog, rep)
    qlen = ("call", ("g", "len"), (BLOOMS,), ())
    qmax = ("f", SELF, "_queue_size", 0)
    good = shape_ok
    rows = set()
    okapp = None
    # the rotation is judged through its two callers: add_alt (rotate when the newest sub-filter is full) and push (always rotate)
    f_push, push_ps = entry_paths(prog, CTX, "push")
    rep.analysed(f_push, CTX, len(push_ps))
    cases = [("add_alt", f_add, p, ins, ops, False) for (p, ins, ops) in add_rows if ins is not None]
    cases += [("push", f_push, p, None, list_ops(prog, CTX, p, set()), True) for p in push_ps if p.exit[0] == "return"]
    for entry, fn, p, ins, evs, forced in cases:
        where = f"{CTX}.{entry}"
        conds = [strip_epochs(c) for c in (conds_at(p, ins) if ins is not None else all_conds(p))]
        ready = (path_orderings(conds, count, est) & path_orderings(conds, count, own_est)) & {LT, EQ}
        for alias in est_aliases:
            ready &= path_orderings(conds, count, alias)  # a comparison with a proved copy of the planned size
        room = path_orderings(conds, qlen, qmax) & {LT, EQ}
        ops = [o[0] for o in evs]
        loc = evs[0][1].where() if evs else fn.where()
        bad_ops = [o for o in ops if o not in ("append", "pop0")]
        if bad_ops:
            rep.bad("C10.rotation-table", where, f"operation {bad_ops[0]}", f"the rotation performs {bad_ops[0]} on the queue; only pop(0) (evict oldest) and append (grow at the back) keep it FIFO", loc)
            good = False
            continue
        appended = ops.count("append")
        popped = ops.count("pop0")
        rows.add((entry, tuple(sorted(ready)), tuple(sorted(room)), tuple(ops)))
        must = forced or ready <= {EQ}
        mustnot = (not forced) and ready <= {LT}
        if not (must or mustnot):
            rep.bad("C10.rotation-table", where, f"count-vs-est {sorted(ready)}",
                    f"a path of {entry} does not decide whether the newest sub-filter is full (newest.count vs est in {sorted(ready)}) before inserting", fn.where())
            good = False
            continue
        if must and appended != 1:
            rep.bad("C10.rotation-table", where, f"forced={forced} ready={sorted(ready)} appends={appended}",
                    f"with {'a forced rotation' if forced else 'the newest sub-filter full'} (newest.count vs est in {sorted(ready)}) the queue gets {appended} new sub-filter(s); exactly one is required", loc)
            good = False
            continue
        if mustnot and (appended or popped):
            rep.bad("C10.rotation-table", where, f"not forced, not full: ops {ops}",
                    f"the queue rotates ({ops}) although the newest sub-filter is not full and nothing is forced", loc)
            good = False
            continue
        if appended:
            ok1 = appended_ok(rep, "C10.append", where, p, fn, "_ExpandingBloomFilter__est_elements")
            okapp = ok1 if okapp is None else (okapp and ok1)
            if room <= {LT}:
                if popped:
                    rep.bad("C10.rotation-table", where, "pop with room", "the oldest sub-filter is dropped although the queue has room", loc)
                    good = False
            elif room <= {EQ}:
                if popped != 1 or ops.index("pop0") > ops.index("append"):
                    rep.bad("C10.rotation-table", where, f"full queue: ops {ops}",
                            f"the queue is at its limit and the rotation performs {ops}; exactly one pop(0) before the append is required, else the queue exceeds max_queue_size", loc)
                    good = False
            else:
                rep.bad("C10.rotation-table", where, f"room undecided {sorted(room)}", f"an appending path does not decide length vs max_queue_size ({sorted(room)})", loc)
                good = False
        elif popped:
            rep.bad("C10.rotation-table", where, "pop without append", "a sub-filter is evicted without a new one being appended: the queue can run empty", loc)
            good = False
    if good and rows:
        rep.ok("C10.rotation-table", f"{CTX}.add_alt / push: {len(rows)} rows as prescribed")
    if okapp:
        rep.ok("C10.append", f"{CTX}: rotation appends one BloomFilter(est_elements=self est)")
    elif okapp is None and shape_ok:
        rep.bad("C10.append", CTX, "never rotates", "no path of add_alt / push appends a new sub-filter", f_add.where())
    if any(c[0] == "push" for c in cases):
        rep.ok("C10.push", f"{CTX}.push: every path rotates (judged in the rotation table)")
    else:
        rep.bad("C10.push", f"{CTX}.push", "push does not return", "push() has no normally returning path", f_push.where())
    sub_counter_once(prog, rep, "C10.sub-counter")
    # pop guard
    popf = prog.method(CTX, "pop")
    pps = paths(prog, CTX, popf)
    rep.analysed(popf, CTX, len(pps))
    okp = True
    H = {EQ, GT}
    for p in pps:
        conds = [strip_epochs(c) for c in all_conds(p)]
        o = path_orderings(conds, qlen, C(1)) & H
        ops = [x[0] for x in list_ops(prog, CTX, p, set())]
        if p.exit[0] == "raise":
            if ops:
                rep.bad("C10.pop-guard", f"{CTX}.pop", "mutation before refusal", "pop() modifies the queue before raising", popf.where())
                okp = False
            if "RotatingBloomFilterError" not in str(p.exit[1]):
                rep.bad("C10.pop-guard", f"{CTX}.pop", "wrong error", "pop() refuses with something other than RotatingBloomFilterError", popf.where())
                okp = False
            if not o <= {EQ}:
                rep.bad("C10.pop-guard", f"{CTX}.pop", f"refuses with length vs 1 in {sorted(o)}", "pop() refuses although more than one sub-filter is queued", popf.where())
                okp = False
        else:
            if ops != ["pop0"] or not o <= {GT}:
                rep.bad("C10.pop-guard", f"{CTX}.pop", f"ops {ops} with length vs 1 in {sorted(o)}",
                        f"pop() performs {ops} on a path where queue length vs 1 may be {sorted(o)}: it must remove exactly the oldest sub-filter and only when more than one is queued", popf.where())
                okp = False
    if okp and any(p.exit[0] == "raise" for p in pps):
        rep.ok("C10.pop-guard", f"{CTX}.pop")
    elif okp:
        rep.bad("C10.pop-guard", f"{CTX}.pop", "no refusal", "pop() never refuses", popf.where())
    # limit writers
    from ..common import mro_methods
    writers = set()
    for f in mro_methods(prog, CTX):
        for p in paths(prog, CTX, f):
            for e in p.events:
                if e.kind == "setfield" and e.name == "_queue_size" and e.base == SELF:
                    writers.add(f.src_name)
    if writers == {"__init__"}:
        rep.ok("C10.limit-fixed", "only __init__ writes _queue_size")
    else:
        rep.bad("C10.limit-fixed", CTX, f"writers {sorted(writers)}", f"max_queue_size is written by {sorted(writers)}", prog.cls(CTX).module.relpath + ":1")
    restore_keeps_queue(prog, rep)


def planned_size_aliases(prog, rep):
    """fields of the rotating filter that hold the planned size (est_elements) for the whole life of the object - a comparison with one of
    them is a comparison with est_elements.  A field D qualifies when
      (1) the planned-size field itself is written only during construction: by `__init__`, or by a name-mangled private method whose
          every call site in its class is in `__init__` or in itself (the loader) - and the mangled spelling occurs nowhere else;
      (2) D is written only by `__init__` (any class of the hierarchy);
      (3) on every returning path of the constructor (base constructors and loaders inlined) D ends up with exactly the value the
          planned-size field ends up with (arguments, the default, or the value unpacked from the file alike)."""
    import ast as _ast
    from ..common import mro_methods
    EST = "_ExpandingBloomFilter__est_elements"
    writers = {}
    for f in mro_methods(prog, CTX):
        for p in paths(prog, CTX, f):
            for e in p.events:
                if e.kind == "setfield" and e.base == SELF:
                    writers.setdefault(e.name, {})[f.qualname] = f

    def construction_only(f):
        if f.src_name == "__init__":
            return True
        if not (f.src_name.startswith("__") and not f.src_name.endswith("__")) or f.cls is None:
            return False
        callers = set()
        for g in f.cls.methods.values():
            for n in _ast.walk(g.node):
                if isinstance(n, _ast.Attribute) and n.attr == f.src_name:
                    callers.add(g.src_name)
        mangled = f"_{f.cls.name.lstrip('_')}{f.src_name}"
        spelled = any(isinstance(n, _ast.Attribute) and n.attr == mangled or isinstance(n, _ast.Constant) and n.value == mangled
                      for k_ in prog.classes.values() for g in k_.methods.values() for n in _ast.walk(g.node))
        return bool(callers) and callers <= {"__init__", f.src_name} and not spelled

    if EST not in writers or not all(construction_only(f) for f in writers[EST].values()):
        return []
    init = prog.cls(CTX).find_method("__init__")
    ps = [p for p in paths(prog, CTX, init, inline="deep") if p.exit[0] == "return"]
    out = []
    for d, ws in sorted(writers.items()):
        if d == EST or {f.src_name for f in ws.values()} != {"__init__"} or not ps:
            continue
        vals = [(p.fields.get((SELF, d)), p.fields.get((SELF, EST))) for p in ps]
        if all(a is not None and b is not None and strip_epochs(a) == strip_epochs(b) for a, b in vals):
            out.append(("f", SELF, d, 0))
            rep.ok("C10.rotation-table", f"{CTX}: field {d} holds the planned size on all {len(ps)} constructor paths and neither is written afterwards")
    return out


def restore_keeps_queue(prog, rep):
    """building or restoring a rotating filter never drops sub-filters that fit: a removal from the sub-filter list inside the constructor
    or an alternate constructor is accepted only as the trimming of an over-long saved queue - `del xs[:max(len(xs) - limit, 0)]`, or a
    removal made where the path has established len(xs) > limit.  (A bare `len(xs) - limit` as a slice stop is negative for a queue
    shorter than the limit, and a negative stop counts from the END: the oldest filters of a legitimate queue are deleted.)"""
    rep.rule("C10.restore-keeps-queue", "constructors remove sub-filters only as the trimming of an over-long saved queue", floor=2)
    K = prog.cls(CTX)
    names = ["__init__"] + sorted({m.src_name for k_ in K.mro() for m in k_.methods.values() if m.kind == "classmethod"})
    for mn in names:
        f = K.find_method(mn)
        if f is None:
            continue
        bad = None
        n = 0
        for p in paths(prog, CTX, f, inline="deep"):
            if p.exit[0] != "return":
                continue
            n += 1
            lists = {strip_epochs(e.value) for e in p.events if e.kind == "setfield" and e.name == "_blooms"} | {BLOOMS}
            for e in p.events:
                if e.kind != "call" or e.d.get("recv") is None or e.target is not None:
                    continue
                r = strip_epochs(e.recv)
                if not (r in lists or (r[0] == "f" and r[2] == "_blooms")) or e.name not in ("pop", "__delitem__", "remove", "clear"):
                    continue
                ln = ("call", ("g", "len"), (r,), ())
                limits = [("f", SELF, "_queue_size", 0), ("p", "max_queue_size")]
                over = any(path_orderings([strip_epochs(c) for c in conds_at(p, e)], ln, q) <= {GT} for q in limits)
                a = strip_epochs(e.args[0]) if e.args else None
                clamp = a is not None and a[0] == "slc" and a[1] in (C(None), C(0)) and a[3] in (C(None), C(1)) and any(
                    canon(a[2]) == canon(("call", ("g", "max"), (("bin", "-", ln, q), C(0)), ())) for q in limits)
                if not (over or clamp):
                    bad = bad or e
        if bad is not None:
            rep.bad("C10.restore-keeps-queue", f"{CTX}.{mn}", f"{bad.name} on the sub-filter list",
                    f"{mn} removes sub-filters from the list it has just built or restored ({bad.brief()[:90]}) on a path that has not established that the list is longer "
                    "than max_queue_size, and not through a stop clamped at 0: a restored queue that fits loses filters (a slice stop of len - limit is negative for a short "
                    "queue and then counts from the end)", bad.where())
        elif n:
            rep.ok("C10.restore-keeps-queue", f"{CTX}.{mn}: no sub-filter is dropped while building / restoring")


from ..selftest import Mutant, del_stmt, insert_stmt, replace_expr, replace_stmt, swap_cmp

_E = "blooms/expandingbloom.py"
MUTANTS = [
    Mutant("restored queue trimmed with a stop that is negative for a short queue", _E,
           insert_stmt("RotatingBloomFilter", "frombytes", "del blm._blooms[: len(blm._blooms) - blm._queue_size]", before="return blm"), rule="C10.restore-keeps-queue"),
    Mutant("restored queue trimmed with the stop clamped at 0 (a queue that fits is kept)", _E,
           insert_stmt("RotatingBloomFilter", "frombytes", "del blm._blooms[: max(len(blm._blooms) - blm._queue_size, 0)]", before="return blm"), expect="silent"),
    Mutant("drop the pop(0) of the ready-and-full row", _E, del_stmt("RotatingBloomFilter", "__rotate_bloom_filter", "blm = self._blooms.pop(0)", nth=1), rule="C10.rotation"),
    Mutant("pop(0) -> pop()", _E, replace_expr("RotatingBloomFilter", "__rotate_bloom_filter", "self._blooms.pop(0)", "self._blooms.pop()"), rule="C10.rotation"),
    Mutant("forced push without room forgets to append", _E, del_stmt("RotatingBloomFilter", "__rotate_bloom_filter", "self.__add_bloom_filter()", nth=1), rule="C10.rotation"),
    Mutant("room test < -> <=", _E, replace_expr("RotatingBloomFilter", "__rotate_bloom_filter", "self.current_queue_size < self._queue_size", "self.current_queue_size <= self._queue_size"), rule="C10.rotation"),
    Mutant("ready == -> > ", _E, replace_expr("RotatingBloomFilter", "__rotate_bloom_filter", "blm.elements_added == blm.estimated_elements", "blm.elements_added > blm.estimated_elements"), rule="C10.rotation"),
    Mutant("ready compares the total counter", _E, replace_expr("RotatingBloomFilter", "__rotate_bloom_filter", "blm.elements_added == blm.estimated_elements", "self.elements_added == blm.estimated_elements"), rule="C10.rotation"),
    Mutant("pop guard == 1 -> == 0", _E, replace_expr("RotatingBloomFilter", "pop", "self.current_queue_size == 1", "self.current_queue_size == 0"), rule="C10.pop-guard"),
    Mutant("pop removes the newest", _E, replace_expr("RotatingBloomFilter", "pop", "self._blooms.pop(0)", "self._blooms.pop()"), rule="C10.pop-guard"),
    Mutant("push without force", _E, replace_expr("RotatingBloomFilter", "push", "self.__rotate_bloom_filter(force=True)", "self.__rotate_bloom_filter()"), rule="C10.rotation"),
    Mutant("add_alt rotates after inserting", _E,
           replace_stmt("RotatingBloomFilter", "add_alt", "if force or not self.check_alt(hashes)", "if force or not self.check_alt(hashes):\n    self._blooms[-1].add_alt(hashes)\n    self.__rotate_bloom_filter()"), rule="C10.growth-precedes"),
    Mutant("rotating add_alt does not count duplicates", _E,
           replace_stmt("RotatingBloomFilter", "add_alt", "self._added_elements += 1", "pass"), rule="C10.counter"),
    Mutant("ready spelled >= (same under the hypothesis)", _E, replace_expr("RotatingBloomFilter", "__rotate_bloom_filter", "blm.elements_added == blm.estimated_elements", "blm.elements_added >= blm.estimated_elements"), expect="silent"),
    Mutant("pop guard spelled <= 1 (same meaning)", _E, replace_expr("RotatingBloomFilter", "pop", "self.current_queue_size == 1", "self.current_queue_size <= 1"), expect="silent"),
]
