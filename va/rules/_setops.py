"""Shared rules for the set operations (union / intersection / jaccard_index / join): used by C01, C12, C13."""
from __future__ import annotations

from ..common import all_conds, conds_at, nshow, outer_field, paths
from ..expr import C, SELF, canon, norm, posform, show, strip_epochs, walk
from ..intervals import EQ, GT, LT, path_orderings
from ..model import AnalysisError

SECOND = ("p", "second")
BLOOM_CTX = ["BloomFilter", "BloomFilterOnDisk", "CountingBloomFilter"]
CMS_JOIN_CTX = ["CountMinSketch", "CountMeanSketch", "CountMeanMinSketch"]


def family_root(prog, ctx):
    return "CountingBloomFilter" if prog.cls(ctx).is_subclass_of("CountingBloomFilter") else "BloomFilter"


ITEMSIZE = {"B": 1, "b": 1, "H": 2, "h": 2, "I": 4, "i": 4, "L": 8, "l": 8, "Q": 8, "q": 8}


def alloc_lengths(prog, cn, fld):
    """canonical length expressions (over field reads) that size self.<fld> in context cn"""
    out = set()
    K = prog.cls(cn)
    init = K.find_method("__init__")
    if init is None:
        return out
    per_path = []
    for p in paths(prog, cn, init, inline="deep"):
        if p.exit[0] != "return":
            continue
        here = set()
        assigned = False
        for e in p.events:
            if e.kind == "setfield" and e.base == SELF and e.name == fld:
                assigned = True
                v = e.value
                if not (v[0] == "nary" and v[1] == "*"):
                    # filled from somewhere else (e.g. from a file): a field can be the array's length on this path only if the path
                    # gave it a value at all - a length cache that is still at its constant default here is not the length
                    here = {("f", SELF, n, 0) for (b, n), fv in p.fields.items() if b == SELF and fv[0] != "c"}
                if v[0] == "nary" and v[1] == "*":
                    arr = [x for x in v[2] if x[0] == "newb"]
                    rest = [x for x in v[2] if x[0] != "newb"]
                    if arr and rest:
                        here = set()  # the last allocation on the path counts
                        byval = {}
                        for (b, n), fv in p.fields.items():
                            if b == SELF:
                                byval.setdefault(fv, n)
                        whole = rest[0] if len(rest) == 1 else ("nary", "*", tuple(rest))
                        for (b, n), fv in p.fields.items():
                            if b == SELF and fv == whole:
                                here.add(("f", SELF, n, 0))
                        fac = [("f", SELF, byval[x], 0) if x in byval else strip_epochs(x) for x in rest]
                        here.add(canon(fac[0] if len(fac) == 1 else ("nary", "*", tuple(fac))))
        if here or assigned:
            per_path.append(here)
    # a field names the allocation length only if it does so on EVERY constructor path that allocates the array
    # (a cache filled on the parameter path but not on the file path is not the length of a loaded structure)
    if per_path:
        out = {x for x in set.intersection(*per_path) if x[0] == "f"} | {x for s_ in per_path for x in s_ if x[0] != "f"}
    if not out:
        for base in K.mro()[1:]:
            out |= alloc_lengths(prog, base.name, fld)
            if out:
                break
    return out


def is_full_range(prog, ctx, fld, idx):
    """idx = element of range(L) with L an allocation length of self.<fld>, or enumerate index over the field"""
    from ..expr import rowform
    idx = strip_epochs(rowform(idx))
    if idx[0] == "ix" and outer_field(idx[2]) == fld and idx[2][0] == "f":
        # enumerate(self.F) / zip(self.F, ...) / range(len(self.F)) - unless F is a file mapping here (cells + footer)
        from ..common import typed_fields
        return "mmap" not in typed_fields(prog, ctx).get(fld, set())
    if idx[0] not in ("it", "ix"):
        return False
    dom = idx[2]
    if not (dom[0] == "call" and dom[1] == ("g", "range") and len(dom[2]) == 1):
        return False
    from ..expr import mapx
    L = mapx(dom[2][0], lambda n: SELF if n[0] == "new" else None)  # a result built from the receiver's parameters
    return canon(L) in alloc_lengths(prog, ctx, fld)


def result_from_receiver(rep, rid, where, ps, root):
    """the result filter of a set operation is built from the receiver's parameters - size, rate and hash strategy (a result that
    hashes differently holds the right cells and answers key queries wrongly)"""
    news = [e for p in ps for e in p.events if e.kind == "new" and e.cls == root]
    for e in news[:1]:
        got = dict(e.kwargs)
        names = ["est_elements", "false_positive_rate", "filepath", "hex_string", "hash_function"]
        for i, a_ in enumerate(e.args):
            got[names[i]] = a_
        want = {"est_elements": "_est_elements", "false_positive_rate": "_fpr", "hash_function": "_hash_func"}
        for k, fld in want.items():
            if strip_epochs(got.get(k, C(None))) != ("f", SELF, fld, 0):
                rep.bad(rid, where, f"result {k} = {nshow(got.get(k, C(None)))}",
                        f"the result is not built from the receiver's {k}", e.where())
                return False
    return bool(news)


def operand_indices(prog, ctx, fld, exprs):
    """the index at which the receiver's cells and the operand's cells of `fld` are read in `exprs` (row forms): (idx_self, idx_second)
    when each side uses one index, the receiver's covers the full range and the operand's is the same walk (the same index, or the
    same loop over the operand's own length - zip(self.F[:n], second.F[:second.n])); else None"""
    from ..expr import rowform
    by = {SELF: set(), SECOND: set()}
    for x in exprs:
        for n in walk(cellform(x, fld)):
            if n[0] == "sub" and n[1][0] == "f" and n[1][2] == fld and n[1][1] in by:
                by[n[1][1]].add(n[2])
    if len(by[SELF]) != 1 or len(by[SECOND]) > 1:
        return None
    ia = next(iter(by[SELF]))
    ib = next(iter(by[SECOND])) if by[SECOND] else ia
    if not is_full_range(prog, ctx, fld, ia):
        return None
    if ib != ia:
        same_walk = ia[0] in ("it", "ix") and ib[0] == ia[0] and ib[1] == ia[1] and canon(_swap_second(ib[2])) == canon(ia[2])
        if not same_walk:
            return None
    return ia, ib


def _swap_second(e):
    from ..expr import mapx
    return mapx(e, lambda n: SELF if n == SECOND else None)


def mirror_component(atom):
    """atom compares X(self) with X(second): returns (component name, is_equality_operator) or None"""
    if atom[0] != "cmp" or atom[1] not in ("==", "!="):
        return None
    a, b = strip_epochs(atom[2]), strip_epochs(atom[3])
    for x, y in ((a, b), (b, a)):
        mentions_second = any(n == SECOND for n in walk(y))
        if not mentions_second or any(n == SECOND for n in walk(x)):
            continue
        if canon(_swap_second(y)) != canon(x):
            continue
        if x[0] == "f":
            return x[2]
        if any(n[0] == "ret" and n[1].endswith(".hashes") for n in walk(x)) or \
                any(n[0] == "call" and n[1][0] == "v" for n in walk(x)):
            # the probe must be taken at the structure's own depth: an explicit smaller depth compares a prefix only
            for n in walk(x):
                if n[0] == "ret" and n[1].endswith(".hashes") and len(n[3]) > 2 and n[3][2] != C(None):
                    return f"probe-hash at depth {nshow(n[3][2])} only"
                if n[0] == "call" and n[1][0] == "v" and len(n[2]) >= 2 and n[2][1][0] == "c":
                    return f"probe-hash at depth {nshow(n[2][1])} only"
            # ... and the hash values themselves must be compared: a view that maps them (positions modulo the bit count, a
            # sum, a digest prefix) lets different strategies agree where the probe key happens to land
            core = x
            while True:
                if core[0] == "call" and core[1] in (("g", "list"), ("g", "tuple")) and len(core[2]) == 1 and not core[3]:
                    core = core[2][0]
                elif core[0] == "comp" and core[1] in ("list", "tuple") and len(core[3]) == 1 and not core[3][0][3] \
                        and core[2][0] == "it" and core[2][1] == core[3][0][1]:
                    core = core[3][0][2]  # [h for h in hashes]: the same sequence
                else:
                    break
            if not ((core[0] == "ret" and core[1].endswith(".hashes")) or (core[0] == "call" and core[1][0] == "v")):
                return f"probe-hash seen only through {nshow(x)[:80]}"
            return "probe-hash"
        return nshow(x)
    return None


def cell(root, fld, idx):
    return ("sub", ("f", root, fld, 0), idx, 0)


def _isinstance_atom(atom):
    if atom[0] == "call" and atom[1] == ("g", "isinstance") and len(atom[2]) == 2:
        ty = atom[2][1]
        names = [t[1] for t in (ty[1] if ty[0] == "tup" else (ty,)) if t[0] == "cls"]
        other = [t for t in (ty[1] if ty[0] == "tup" else (ty,)) if t[0] != "cls"]
        return atom[2][0], names, other
    return None


def _similar_branch(cond):
    """(ret-expr, similar?) for a condition on the result of the similarity test, else None"""
    a, t = cond.atom, cond.truth
    r = None
    if a[0] == "ret":
        r, sim = a, t
    elif a[0] == "cmp" and a[1] in ("is", "==") and a[2][0] == "ret" and a[3] in (C(False), C(True)):
        r, sim = a[2], (t == (a[3] == C(True)))
    elif a[0] == "cmp" and a[1] in ("isnot", "!=") and a[2][0] == "ret" and a[3] in (C(False), C(True)):
        r, sim = a[2], (t != (a[3] == C(True)))
    if r is None:
        return None
    return r, sim


def bloom_guard_prefix(prog, rep, rid, ctx, fname):
    """type test first (TypeError), similarity test before any allocation (None)"""
    f = prog.method(ctx, fname)
    ps = paths(prog, ctx, f)
    rep.analysed(f, ctx, len(ps))
    where = f"{ctx}.{fname}"
    root = family_root(prog, ctx)
    te = [p for p in ps if p.exit[0] == "raise" and "TypeError" in show(p.exit[1])]
    ok = True
    if not te:
        rep.bad(rid, where, "no TypeError exit", "a foreign operand type does not raise TypeError", f.where())
        return False
    for p in ps:
        first = p.conds[0] if p.conds else None
        ia = _isinstance_atom(first.atom) if first is not None else None
        if ia is None or ia[0] != SECOND:
            rep.bad(rid, where, "first test is not the type test",
                    f"the first decision of {fname} is {nshow(first.atom) if first else 'none'}, not isinstance(second, ...)", f.where())
            return False
        names, other = ia[1], ia[2]
        badn = [n for n in names if n not in prog.classes or not prog.cls(n).is_subclass_of(root)]
        if other or badn or root not in names:
            rep.bad(rid, where, f"type test admits {sorted(names) + [nshow(o) for o in other]}",
                    f"the type test accepts {sorted(names) + [nshow(o) for o in other]}; expected the {root} family only", f.where(first.node))
            return False
        # nothing touches `second` before the type test
        for e in p.events:
            if e.ncond == 0 and e.kind in ("call", "setelem", "setfield", "new") and e.kind != "call":
                ok = False
        is_te = p in te
        if is_te != (not first.truth):
            rep.bad(rid, where, "TypeError on the wrong branch", "TypeError is not raised exactly when the type test fails", f.where(first.node))
            return False
        if is_te:
            if any(e.kind in ("new", "setelem", "setfield") for e in p.events):
                rep.bad(rid, where, "work before TypeError", "state is touched before the TypeError exit", f.where())
                return False
            continue
        # similarity test: second decision
        if len(p.conds) < 2 or _similar_branch(p.conds[1]) is None:
            rep.bad(rid, where, "no similarity test after the type test",
                    f"{fname} does not test _verify_bloom_similarity(second) right after the type test", f.where())
            return False
        r, sim = _similar_branch(p.conds[1])
        if "_verify_bloom_similarity" not in r[1] or r[3] != (SELF, SECOND):
            rep.bad(rid, where, f"similarity test is {nshow(r)}", "the similarity test is not _verify_bloom_similarity(second)", f.where(p.conds[1].node))
            return False
        vcall = [e for e in p.events if e.kind == "call" and e.name == "_verify_bloom_similarity"]
        if not vcall or vcall[0].recv != SELF:
            rep.bad(rid, where, "similarity receiver", "similarity test is not evaluated on the receiver", f.where())
            return False
        early = [e for e in p.events if e.kind in ("new", "setelem") and p.events.index(e) < p.events.index(vcall[0])]
        if early:
            rep.bad(rid, where, "allocation before the similarity test", "work happens before the similarity test", early[0].where())
            return False
        # after the two compatibility tests the result may depend on the cells only
        for c in p.conds[2:]:
            a = c.atom
            if a[0] == "loop0" or c.loops:
                continue
            leaves = [n for n in walk(a) if n[0] in ("f", "p", "sub", "ret", "call", "it", "ix")]
            if all(n[0] == "hv" or n[0] == "c" or n[0] in ("cmp", "un", "nary", "bin", "and", "or") for n in walk(a)) and not leaves:
                continue
            # a count taken over the cells themselves - sum(1 for ... in zip(self cells, second cells) if ...) - is a function of the cells alone
            flds = [n for n in walk(a) if n[0] == "f"]
            if flds and all(n[2] in ("_bloom", "_bloom_length") and n[1] in (SELF, SECOND) for n in flds) and not any(n[0] == "ret" for n in walk(a)) \
                    and all(n == SECOND for n in walk(a) if n[0] == "p") and any(n[0] == "call" and n[1] == ("g", "sum") for n in walk(a)):
                continue
            rep.bad(rid, where, f"extra decision {nshow(a)}",
                    f"after the compatibility tests {fname} also branches on {nshow(a)}: the result no longer depends on the cells alone "
                    "(e.g. a shortcut trusting a counter)", f.where(c.node))
            return False
        if not sim:
            if p.exit[0] != "return" or p.exit[1] != C(None) or any(e.kind in ("new", "setelem") for e in p.events):
                rep.bad(rid, where, "incompatible operands do not return None",
                        f"for operands that fail the similarity test {fname} returns {nshow(p.exit[1])} / allocates", f.where())
                return False
        else:
            if p.exit[0] == "return" and p.exit[1] == C(None):
                rep.bad(rid, where, "compatible operands return None", f"{fname} returns None although the operands are compatible", f.where())
                return False
    rep.ok(rid, f"{where}: type test -> TypeError, then similarity test -> None, before any allocation")
    return True


def similarity_components(prog, rep, rid, ctx):
    f = prog.method(ctx, "_verify_bloom_similarity")
    ps = paths(prog, ctx, f)
    rep.analysed(f, ctx, len(ps))
    where = f"{ctx}._verify_bloom_similarity"

    comp_of = mirror_component
    need = {"_number_hashes", "_num_bits", "probe-hash"}
    for p in ps:
        if p.exit[0] != "return":
            continue
        eqs, neqs = set(), set()
        for c in p.conds:
            k = comp_of(c.atom)
            if k is None:
                continue
            equal = (c.atom[1] == "==") == c.truth
            (eqs if equal else neqs).add(k)
        rv = p.exit[1]
        if rv == C(True):
            if not need <= eqs:
                rep.bad(rid, where, f"similar without comparing {sorted(need - eqs)}",
                        f"operands are declared similar without equal {sorted(need - eqs)} (compared: {sorted(eqs)})", f.where())
                return
        elif rv == C(False):
            if not neqs:
                rep.bad(rid, where, "dissimilar without a mismatch", "operands are declared dissimilar although no component differs", f.where())
                return
        else:
            # single-expression form: and/or of comparisons
            # ... possibly after early `return False` exits that already established some components as equal
            comps = ({comp_of(x) for x in walk(rv)} - {None}) | eqs
            if not need <= comps:
                rep.bad(rid, where, f"similarity ignores {sorted(need - comps)}", f"similarity compares only {sorted(comps)}", f.where())
                return
    rep.ok(rid, f"{where}: hash count, bit count and probe hash all compared")


def _built_in_one(prog, rep, rid, ctx, f, ps, where, root, op) -> bool:
    """the other design of a set operation: the result's whole array is built in one expression,
    res._bloom = array(tc, [a (op) b for a, b in zip(<all cells of self>, <all cells of second>)]).
    Returns True when that design was recognised (and judged: ok or violation reported)."""
    from ..common import typed_fields
    judged = False
    for p in ps:
        if p.exit[0] != "return" or strip_epochs(p.exit[1])[0] != "new":
            continue
        res = strip_epochs(p.exit[1])
        sets = [e for e in p.events if e.kind == "setfield" and e.name == "_bloom" and strip_epochs(e.base) == res]
        if not sets:
            continue
        v = strip_epochs(sets[-1].value)
        if not (v[0] == "newb" and v[1] == "array" and len(v[3]) == 2 and v[3][1][0] == "comp" and len(v[3][1][3]) == 1 and not v[3][1][3][0][3]):
            continue
        judged = True
        comp = v[3][1]
        lid, dom = comp[3][0][1], strip_epochs(comp[3][0][2])
        while dom[0] == "call" and dom[1] in (("g", "list"), ("g", "tuple")) and len(dom[2]) == 1:
            dom = dom[2][0]  # a materialised zip walks the same pairs
        views = list(dom[2]) if dom[0] == "call" and dom[1] == ("g", "zip") and len(dom[2]) == 2 else []

        def whole(view, rootsym):
            """view is every cell of rootsym's array: the array itself (not a file mapping, which is longer than its cells) or its
            prefix of bloom_length cells"""
            base = ("f", rootsym, "_bloom", 0)
            if view == base:
                return "mmap" not in typed_fields(prog, ctx).get("_bloom", set()) or rootsym != SELF
            if view[0] == "slice" and view[1] == base and view[2] in (C(None), C(0)) and view[4] in (C(None), C(1)):
                return view[3] in (("f", rootsym, "_bloom_length", 0),)
            return False
        if len(views) != 2 or not ((whole(views[0], SELF) and whole(views[1], SECOND)) or (whole(views[1], SELF) and whole(views[0], SECOND))):
            rep.bad(rid, where, f"result built over {nshow(dom)}", f"the result array is built over {nshow(dom)}, not over exactly the allocated cells of both operands "
                    "(a file mapping is longer than its cells: it ends with the footer)", sets[-1].where())
            return True
        a = ("sub", ("f", SELF, "_bloom", 0), ("pos", lid), 0)
        b = ("sub", ("f", SECOND, "_bloom", 0), ("pos", lid), 0)
        wants = [canon(("bin", op, a, b))] if op != "+" else [canon(("bin", "+", a, b)), canon(("call", ("g", "min"), (norm(("bin", "+", a, b)), C(2**32 - 1)), ()))]
        from ..expr import renorm
        got = canon(renorm(posform(strip_epochs(comp[2]))))
        if got not in wants:
            rep.bad(rid, where, f"element {nshow(comp[2])}", f"result cell is {nshow(comp[2])}; expected self cell {op} second cell at the same position", sets[-1].where())
            return True
    if judged:
        if result_from_receiver(rep, rid, where, ps, root):
            rep.ok(rid, f"{where}: result array built in one expression, self cell {op} second cell over all cells, result from receiver's parameters")
    return judged



def zipped_cells(prog, ctx, gen):
    """gen = ("gen", lid, dom, filters) of a comprehension: when dom is zip(<all cells of self>, <all cells of second>) (possibly
    materialised by list() / tuple()), returns (lid, a, b) with a, b the two cells in position form; None otherwise"""
    from ..common import typed_fields
    lid, dom = gen[1], strip_epochs(gen[2])
    while dom[0] == "call" and dom[1] in (("g", "list"), ("g", "tuple")) and len(dom[2]) == 1:
        dom = dom[2][0]
    views = list(dom[2]) if dom[0] == "call" and dom[1] == ("g", "zip") and len(dom[2]) == 2 else []

    def whole(view, rootsym):
        base = ("f", rootsym, "_bloom", 0)
        if view == base:
            return "mmap" not in typed_fields(prog, ctx).get("_bloom", set()) or rootsym != SELF
        if view[0] == "slice" and view[1] == base and view[2] in (C(None), C(0)) and view[4] in (C(None), C(1)):
            return view[3] in (("f", rootsym, "_bloom_length", 0),)
        return False
    if len(views) != 2:
        return None
    if whole(views[0], SELF) and whole(views[1], SECOND):
        pass
    elif whole(views[1], SELF) and whole(views[0], SECOND):
        pass
    else:
        return None
    a = ("sub", ("f", SELF, "_bloom", 0), ("pos", lid), 0)
    b = ("sub", ("f", SECOND, "_bloom", 0), ("pos", lid), 0)
    return lid, a, b


def _truth_table(cond, a, b, want) -> bool:
    """cond, a function of the two unsigned cells a and b, has the truth `want(a_nonzero, b_nonzero)` for every pair of sample values
    (0, small values whose bits differ, and the cell limit): decided by substituting the samples and folding"""
    import operator as _op
    BIN = {"+": _op.add, "-": _op.sub, "*": _op.mul, "&": _op.and_, "|": _op.or_, "^": _op.xor, "//": _op.floordiv, "%": _op.mod}
    CMP = {"==": _op.eq, "!=": _op.ne, "<": _op.lt, "<=": _op.le, ">": _op.gt, ">=": _op.ge}

    class _No(Exception):
        pass

    def ev(e, x, y):
        if e == a:
            return x
        if e == b:
            return y
        k = e[0]
        if k == "c" and isinstance(e[1], (int, bool)):
            return e[1]
        if k == "and":
            r = True
            for t in e[1]:
                r = ev(t, x, y)
                if not r:
                    return r
            return r
        if k == "or":
            r = False
            for t in e[1]:
                r = ev(t, x, y)
                if r:
                    return r
            return r
        if k == "un" and e[1] == "not":
            return not ev(e[2], x, y)
        if k == "cmp" and e[1] in CMP:
            return CMP[e[1]](ev(e[2], x, y), ev(e[3], x, y))
        if k == "bin" and e[1] in BIN:
            return BIN[e[1]](ev(e[2], x, y), ev(e[3], x, y))
        if k == "nary" and e[1] in BIN:
            vals = [ev(t, x, y) for t in e[2]]
            r = vals[0]
            for v_ in vals[1:]:
                r = BIN[e[1]](r, v_)
            return r
        if k == "call" and e[1] in (("g", "min"), ("g", "max"), ("g", "bool")) and e[2] and not e[3]:
            vals = [ev(t, x, y) for t in e[2]]
            return {"min": min, "max": max, "bool": lambda *v: bool(v[0])}[e[1][1]](*vals)
        if k == "phi":
            return ev(e[2], x, y) if ev(e[1], x, y) else ev(e[3], x, y)
        raise _No()
    samples = (0, 1, 2, 3, 2**32 - 1)
    try:
        return all(bool(ev(cond, x, y)) == want(x != 0, y != 0) for x in samples for y in samples)
    except (_No, ZeroDivisionError, TypeError):
        return False


def both_nonzero(cond, a, b) -> bool:
    """cond (position form) holds exactly when both cells are non-zero"""
    return _truth_table(cond, a, b, lambda p, q: p and q)


def either_nonzero(cond, a, b) -> bool:
    return _truth_table(cond, a, b, lambda p, q: p or q)


def combine_rule(prog, rep, rid, ctx, fname, op):
    """store into the fresh result: res.cells[i] = self.cells[i] (op) second.cells[i] over the full range"""
    f = prog.method(ctx, fname)
    ps = paths(prog, ctx, f)
    where = f"{ctx}.{fname}"
    from ..common import lazy_iterator_reread
    rr = lazy_iterator_reread(f)
    if rr:
        rep.bad(rid, where, f"one-shot iterator {rr[0][0]} read twice",
                f"{fname} binds {rr[0][0]} to a one-shot iterator and reads it at more than one place: whichever reader comes second (a retry after an exception, a second pass) "
                "sees an exhausted or half-consumed iterator, so the result is built from fewer, shifted cells", f"{f.module.relpath}:{rr[0][1]}")
        return
    root = family_root(prog, ctx)
    stores = []
    for p in ps:
        for e in p.events:
            if e.kind == "setelem" and outer_field(e.cont) == "_bloom":
                stores.append((p, e))
    if not stores and _built_in_one(prog, rep, rid, ctx, f, ps, where, root, op):
        return
    if not stores:
        rep.bad(rid, where, "no cell store", f"{fname} stores nothing into the result's cells", f.where())
        return
    for p in ps:
        if p.exit[0] == "return" and p.exit[1] != C(None):
            if not any(e.kind == "setelem" and outer_field(e.cont) == "_bloom" for e in p.events) \
                    and not any(c.atom[0] == "loop0" for c in p.conds) and op != "+":
                rep.bad(rid, where, "result returned without combining", f"a path of {fname} returns a result without running the cell loop", f.where(p.exit[2]))
                return
    ondisk = ctx == "BloomFilterOnDisk"
    good = 0
    for p, e in stores:
        r = e.cont[1] if e.cont[0] == "f" else None
        if r is None or r[0] != "new" or r[1] != root:
            rep.bad(rid, where, f"store into {nshow(e.cont)}", f"the combined value is stored into {nshow(e.cont)}, not into a fresh {root}", e.where())
            continue
        idx = strip_epochs(e.index)
        if not is_full_range(prog, ctx, "_bloom", idx):
            rep.bad(rid, where, f"range {nshow(idx)}", f"the loop covers {nshow(idx)}, not exactly the allocated cells range(bloom_length)", e.where())
            continue
        a = cell(SELF, "_bloom", idx)
        b = cell(SECOND, "_bloom", idx)
        if ondisk:
            def wrap(c):
                return ("call", ("g", "int"), (("unp", "B", 0, ("call", ("g", "bytes"), (("lst", (c,)),), ())),), ())
            alts = [(wrap(a), wrap(b)), (a, b)]
        else:
            alts = [(a, b)]
        v = canon(e.value)
        wants = []
        for (x, y) in alts:
            if op == "+":
                s = norm(("bin", "+", x, y))
                wants += [canon(s), canon(("call", ("g", "min"), (s, C(2**32 - 1)), ()))]
            else:
                wants.append(canon(("bin", op, x, y)))
        # ... or the same cells named by position (zip / enumerate / slices of the arrays)
        from ..expr import renorm
        if v in wants or canon(renorm(posform(strip_epochs(e.value)))) in [canon(renorm(posform(w))) for w in wants]:
            good += 1
        else:
            rep.bad(rid, where, f"store {nshow(e.value)}",
                    f"result cell is {nshow(e.value)}; expected self cell {op} second cell at the same index", e.where())
    if good:
        if not result_from_receiver(rep, rid, where, ps, root):
            return
        rep.ok(rid, f"{where}: res[i] = self[i] {op} second[i] over range(bloom_length), result from receiver's parameters")


def cellform(x, fld="_bloom"):
    """row form in which an element bound by walking the array itself (for v in self.F / zip(self.F, second.F)) is written as the
    cell it is: F[<position of that walk>]"""
    from ..expr import mapx, rowform

    def f(n):
        if n[0] == "it" and n[2][0] == "f" and n[2][2] == fld:
            base = ("f", n[2][1], fld, 0)
            return ("sub", base, ("ix", n[1], base), 0)
        return None
    return mapx(strip_epochs(rowform(x)), f)


def nonzero_rows(conds, a, b):
    """possible (a-nonzero, b-nonzero) rows under a path condition, for unsigned cells.  Besides comparisons with 0 the
    condition may use the cells' truthiness (`if mine and theirs`, `if not mine`) and `mine | theirs` (non-zero iff either is)."""
    plain = []
    either = []  # (truth) of "a | b is non-zero"
    for c in conds:
        neg = c[0] == "un" and c[1] == "not"
        x = c[2] if neg else c
        if x in (a, b):
            plain.append(("cmp", "==" if neg else "!=", x, C(0)))
        elif x[0] == "nary" and x[1] == "|" and set(x[2]) == {a, b}:
            either.append(not neg)
        elif x[0] == "cmp" and x[1] in ("!=", ">", "==") and x[3] == C(0) and x[2][0] == "nary" and x[2][1] == "|" and set(x[2][2]) == {a, b}:
            either.append((x[1] != "==") != neg)
        else:
            plain.append(c)
    oa = path_orderings(plain, a, C(0)) & {EQ, GT}
    ob = path_orderings(plain, b, C(0)) & {EQ, GT}
    rows = {(x == GT, y == GT) for x in oa for y in ob}
    for t in either:
        rows = {r for r in rows if (r != (False, False)) == t}
    return rows
