"""C19 - queries never change a structure; clear() resets it (E3 effects + E4 initial values)."""
from __future__ import annotations

import ast as _ast

from ..common import nshow, outer_field, paths, visible_methods, typed_fields
from ..effects import Effects, fmt_eff
from ..expr import C, SELF, root_of, rowform, strip_epochs, walk
from ..model import AnalysisError

EXPL = ("Interprocedural write-effect (mod-set) analysis per concrete class: the effect set of every public query "
        "(look-ups, estimates, statistics, __str__/__bytes__, hashes, exports, property getters, the set operations of the "
        "Bloom family) closed over the resolved call graph must contain no write to the receiver, to a parameter's state "
        "(the non-receiver operand) or to class state; writes to objects allocated in the call and to the export target are "
        "not effects.  clear(): every field some mutator of the class writes must be written by clear, with the "
        "constructor's initial value, arrays over their full range.")

FILES = ["blooms/bloom.py", "blooms/countingbloom.py", "blooms/expandingbloom.py", "countminsketch/countminsketch.py",
         "cuckoo/cuckoo.py", "cuckoo/countingcuckoo.py", "quotientfilter/quotientfilter.py", "utilities.py"]

# frozen classification of public method names (confirmed by reading; a public method in neither set is reported
# as "unclassified" in the evidence together with its effect set, never as a failure)
QUERIES = {
    "check", "check_alt", "__contains__", "__str__", "__repr__", "__bytes__", "hashes", "export", "export_hex",
    "export_c_header", "export_size", "estimate_elements", "current_false_positive_rate", "jaccard_index", "union",
    "intersection", "load_factor", "get_hashes", "print", "validate_metadata", "__getitem__", "check_bit", "is_bit_set",
    "as_string", "num_bits_set", "get_array",
}
MUTATORS = {
    "add", "add_alt", "remove", "remove_alt", "clear", "push", "pop", "join", "merge", "resize", "expand", "close",
    "__del__", "__setitem__", "set_bit", "clear_bit", "increment", "decrement", "__init__", "frombytes", "init_error_rate",
    "load_error_rate", "seek", "read", "__enter__", "__exit__",
}
# set operations whose parameter must stay untouched (includes the mutating join/merge: non-receiver side)
BINARY_OPS = {"union", "intersection", "jaccard_index", "join", "merge"}
CLEAR_CLASSES = ["BloomFilter", "BloomFilterOnDisk", "CountingBloomFilter", "CountMinSketch", "CountMeanSketch",
                 "CountMeanMinSketch", "HeavyHitters", "StreamThreshold", "Bitarray"]
# mutators whose writes clear() must cover (state-building calls; loaders and constructors set up configuration)
STATE_MUTATORS = {"add", "add_alt", "remove", "remove_alt", "join", "__setitem__", "set_bit", "clear_bit"}


def _self_writes(eff):
    return [e for e in eff if e[0] == "self" or e[0] == "class" or e[0].startswith("param:") or e[0] == "unknown"
            or e[0].startswith("ret:") or e[0] == "global"]


def ondisk_sync_lemma(prog, E):
    """C11(d): every public mutator of persisted state in context BloomFilterOnDisk reaches __update"""
    ctx = "BloomFilterOnDisk"
    upd = prog.method(ctx, "__update")
    missing = []
    for f in visible_methods(prog, ctx):
        if f.prop or f.src_name.startswith("_") and f.src_name not in ("__setitem__",):
            continue
        if f.src_name in ("close", "export") or f.kind == "classmethod":
            continue
        eff = E.of(ctx, f)
        persisted = [e for e in eff if e[0] == "self" and ((e[1] == "_bloom" and e[2] == "elem") or (e[1] == "_els_added"))]
        if not persisted:
            continue
        reached = E.reach(ctx, f)
        if (ctx, upd.qualname) not in reached:
            missing.append(f)
    return missing


def _mutable_object_class(prog, K):
    """a repo class whose objects hold an array / list / dict of their own"""
    tf = typed_fields(prog, K.name) if K is not None else {}
    return bool(tf) or (K is not None and any(isinstance(n, _ast.Call) and isinstance(n.func, _ast.Name) and n.func.id in ("array", "list", "dict", "bytearray")
                                            for m in K.methods.values() for n in _ast.walk(m.node)))


def _shares_operand_state(prog, cn, f):
    """(field, value, how, event) when a combining method leaves in the receiver a mutable object that still belongs to the operand: the
    operand's own container / object (no copy), or a SHALLOW copy - copy.copy(x), x.copy() - of an object whose class keeps its cells in
    an inner array, which the copy then shares.  Slices, array(...) / list(...) rebuilds and deepcopy are copies"""
    from ..walk import field_class
    for p in paths(prog, cn, f):
        if p.exit[0] != "return":
            continue
        for e in p.events:
            if e.kind != "setfield" or e.base != SELF:
                continue
            if strip_epochs(p.fields.get((SELF, e.name), e.value)) != strip_epochs(e.value):
                continue  # overwritten later on the path
            v = strip_epochs(e.value)
            how, src = None, v
            if v[0] == "call" and (v[1] in (("ext", "copy", "copy"),) or (v[1][0] == "m" and v[1][2] in ("copy", "__copy__"))) :
                src = v[2][0] if v[1][0] == "ext" and v[2] else (v[1][1] if v[1][0] == "m" else v)
                how = "shallow"
            if not (src[0] == "f" and root_of(src) == ("p", "second")):
                continue
            owner = prog.classes.get(cn)
            K = prog.classes.get(field_class(prog, owner, src[2]) or "") if owner is not None else None
            if how == "shallow":
                if K is not None and _mutable_object_class(prog, K):
                    return (e.name, nshow(v), f"holds a shallow copy of the operand's {K.name}, which shares its inner array", e)
                continue
            tf = typed_fields(prog, cn)
            if K is not None or src[2] in tf:
                return (e.name, nshow(v), "holds the operand's own object", e)
    return None


def check(prog, rep, tier):
    rep.extra["explanation"] = EXPL
    rep.rule("C19.query-pure", "a public query has an empty write effect on receiver, parameters and class state", floor=150)
    rep.rule("C19.operand-untouched", "set operations (incl. join/merge) never write the non-receiver operand", floor=12)
    rep.rule("C19.ondisk-export-sync", "the only effect reachable from an on-disk query is the idempotent footer sync, admitted under the lemma that every mutator syncs", floor=1)
    rep.rule("C19.clear-covers", "clear() writes every field that a state mutator of the class writes", floor=9)
    rep.rule("C19.clear-initial", "clear() leaves each field at the constructor's initial value; arrays zeroed over their full range", floor=12)
    rep.trust("mutating / read-only classification of builtin container and file methods (va.walk tables)")
    rep.assume("hash strategies (function-pointer slots _hash_func, __hash_func, _hash_function) are pure: contract, decided for the shipped ones by C18")
    E = Effects(prog)
    unclassified = []
    classes = [c for c in prog.concrete_classes() if c not in ("MMap",)]
    for cn in classes:
        for f in visible_methods(prog, cn):
            public = not f.src_name.startswith("_") or (f.src_name.startswith("__") and f.src_name.endswith("__"))
            if not public:
                continue
            name = f.src_name
            is_query = (f.prop == "get") or (name in QUERIES and f.prop is None)
            if cn == "CountingCuckooBin" and name in ("finger", "count"):
                is_query = True
            eff = E.of(cn, f)
            rep.analysed(f, cn, 0)
            if name in BINARY_OPS and not f.prop:
                pw = [e for e in eff if e[0] == "param:second" and not memo_effect(prog, cn, e)]
                shared = _shares_operand_state(prog, cn, f)
                if pw:
                    rep.bad("C19.operand-untouched", f"{cn}.{name}", f"write second.{pw[0][1]}",
                            f"the non-receiver operand is written: {fmt_eff(pw[0])}", pw[0][3].split("@")[-1])
                elif shared:
                    rep.bad("C19.operand-untouched", f"{cn}.{name}", f"receiver shares {shared[0]}",
                            f"{name} leaves self.{shared[0]} = {shared[1]}: the receiver {shared[2]}, so every later update of the receiver is an update of the "
                            "operand as well (and the other way round)", shared[3].where())
                else:
                    rep.ok("C19.operand-untouched", f"{cn}.{name}")
            if not is_query:
                if f.prop != "set" and name not in MUTATORS:
                    unclassified.append({"method": f"{cn}.{name}", "effects": sorted({f"{e[0]}.{e[1]}:{e[2]}" for e in _self_writes(eff)})})
                continue
            writes = _self_writes(eff)
            if cn == "BloomFilterOnDisk" and name == "export":
                # admitted: the footer sync (io on the mapping and the file pointer), under the lemma
                rest = [e for e in writes if not (e[0] == "self" and e[2] == "io" and e[1] in ("_bloom", "_BloomFilterOnDisk__file_pointer"))]
                missing = ondisk_sync_lemma(prog, E)
                if missing:
                    m = missing[0]
                    rep.bad("C19.ondisk-export-sync", f"{cn}.{m.src_name}", "mutator without footer sync",
                            f"on-disk export() rewrites the footer; that is unobservable only if every mutator already synced it, but "
                            f"{m.cls.name}.{m.src_name} (context {cn}) changes persisted state and never reaches __update: a later export() "
                            "changes bytes(), and clear() leaves a file that differs from a fresh filter's", m.where())
                else:
                    rep.ok("C19.ondisk-export-sync", "every mutator of persisted state reaches __update")
                writes = rest
            # export's target parameter is the purpose of the call
            if name in ("export", "export_c_header", "print"):
                writes = [e for e in writes if not (e[0].startswith("param:") and e[2] == "io")]
            memo_note = ""
            if writes and all(e[0] == "self" and e[2] == "rebind" for e in writes):
                # writes that are nothing but a sound one-entry memo leave the structure observably unchanged
                sites = {e[3].split("@")[0] for e in writes}
                gs = [m for c_ in prog.classes.values() for m in list(c_.methods.values()) if m.qualname in sites]
                if gs and len(gs) == len(sites):
                    verdicts = [memo_sound(prog, cn, g_) for g_ in gs]
                    if all(v[0] for v in verdicts):
                        writes = []
                        memo_note = f" (memo in {sorted(sites)})"
                    else:
                        memo_note = "; not a sound memo: " + "; ".join(v[1] for v in verdicts if not v[0])
            if writes:
                w = sorted(writes)[0]
                rep.bad("C19.query-pure", f"{cn}.{name}", f"write {w[0]}.{w[1]} ({w[2]})",
                        f"query has a write effect: {fmt_eff(w)}" + (f" (+{len(writes) - 1} more)" if len(writes) > 1 else "") + memo_note,
                        w[3].split("@")[-1])
            else:
                rep.ok("C19.query-pure", f"{cn}.{name}")
    rep.extra["unclassified_public_methods"] = unclassified
    # ------------------------------------------------------------------ clear()
    for cn in CLEAR_CLASSES:
        K = prog.cls(cn)
        clr = K.find_method("clear")
        if clr is None:
            raise AnalysisError(f"anchor vanished: {cn}.clear")
        ceff = E.of(cn, clr)
        cleared = {(e[1], e[2]) for e in ceff if e[0] == "self"}
        cleared_fields = {c[0] for c in cleared}
        mutated = {}
        for f in visible_methods(prog, cn):
            if f.src_name in STATE_MUTATORS and f.prop is None:
                for e in E.of(cn, f):
                    if e[0] == "self" and not memo_effect(prog, cn, e):  # (a sound memo is not part of what the structure shows)
                        mutated.setdefault(e[1], (f, e))
        missing = [fld for fld in mutated if fld not in cleared_fields]
        if missing:
            for fld in sorted(missing):
                f, e = mutated[fld]
                rep.bad("C19.clear-covers", f"{cn}.clear", f"field {fld} not reset",
                        f"{cn}.{f.src_name} writes self.{fld} ({e[2]}) but clear() (defined in {clr.cls.name}) never writes it: "
                        "a cleared structure differs from a fresh one", clr.where())
        else:
            rep.ok("C19.clear-covers", f"{cn}: clear writes {sorted(cleared_fields)} covering mutated {sorted(mutated)}")
        # initial values
        init_vals = _init_values(prog, cn)
        cps = [p for p in paths(prog, cn, clr, inline="deep") if p.exit[0] == "return"]
        rep.analysed(clr, cn, len(cps))
        # parameters (fields no mutator writes) that clear() nevertheless re-assigns must come out as the constructor left them:
        # for every way the structure can have been built, clear()'s value - read over that constructor's final fields - is that
        # constructor's own final value
        from ..expr import canon, mapx
        init_m = K.find_method("__init__")
        cons = [q for q in paths(prog, cn, init_m, inline="deep") if q.exit[0] == "return"] if init_m is not None else []
        params_rewritten = sorted({e.name for p in cps for e in p.events if e.kind == "setfield" and e.base == SELF} - set(mutated))
        for fld in params_rewritten:
            badp = None
            for p in cps:
                v = p.fields.get((SELF, fld))
                if v is None:
                    continue
                for q in cons:
                    qv = q.fields.get((SELF, fld))
                    if qv is None:
                        continue
                    sub = mapx(strip_epochs(v), lambda x: strip_epochs(q.fields[(SELF, x[2])]) if (x[0] == "f" and x[1] == SELF and (SELF, x[2]) in q.fields) else None)
                    sub = _resolve_none_tests(sub, q)
                    qv = _resolve_none_tests(strip_epochs(qv), q)
                    if canon(sub) != canon(strip_epochs(qv)) and not _same_initial(sub, {strip_epochs(qv), canon(strip_epochs(qv))}, fld):
                        badp = (v, qv)
                        break
                if badp:
                    break
            if badp:
                rep.bad("C19.clear-initial", f"{cn}.clear", f"{fld} = {nshow(badp[0])}",
                        f"clear() re-assigns the parameter self.{fld} = {nshow(badp[0])}; a structure constructed with {fld} = {nshow(badp[1])} reports a different value after "
                        "clear() than a fresh one built with the same arguments", clr.where())
            else:
                rep.ok("C19.clear-initial", f"{cn}.clear: parameter {fld} comes out as constructed")
        # rebinding writes: final values on every path
        for fld in sorted(mutated):
            if fld in missing:
                continue
            kinds = {c[1] for c in cleared if c[0] == fld}
            if "rebind" in kinds:
                for p in cps:
                    v = p.fields.get((SELF, fld))
                    if v is None:
                        rep.bad("C19.clear-initial", f"{cn}.clear", f"{fld} not assigned on a path", f"clear() leaves self.{fld} unassigned on some path", clr.where())
                        break
                    want = init_vals.get(fld)
                    if want is None or _same_initial(v, want, fld):
                        continue
                    rep.bad("C19.clear-initial", f"{cn}.clear", f"{fld} = {nshow(v)}",
                            f"clear() leaves self.{fld} = {nshow(v)}, the constructor starts with {sorted(nshow(w) for w in want)}", clr.where())
                    break
                else:
                    rep.ok("C19.clear-initial", f"{cn}.clear: {fld} reset to initial value")
            elif "elem" in kinds:
                good = None
                for p in cps:
                    for e in p.events:
                        if e.kind == "setelem" and outer_field(e.cont) == fld:
                            idx = strip_epochs(rowform(e.index))
                            if idx[0] == "slc":
                                zero, full = _zero_block(prog, cn, fld, idx, strip_epochs(e.value))
                            else:
                                zero, full = e.value == C(0), _full_range(prog, cn, fld, idx)
                            # a store skipped for some positions: only where the cell already is zero
                            def same_cell(x):
                                x = strip_epochs(x)
                                return (x[0] == "it" and x[2] == ("f", SELF, fld, 0) and idx[0] in ("ix", "it") and idx[1] == x[1]) or \
                                    (x[0] == "sub" and x[1] == ("f", SELF, fld, 0) and strip_epochs(rowform(x[2])) == idx)
                            lids = set(e.loops)
                            for c in p.conds[:e.ncond]:
                                a = strip_epochs(c.atom)
                                if a[0] == "loop0" or not any(n[0] in ("it", "ix", "hv") and len(n) > 1 and (n[1] in lids or (n[0] == "hv" and n[2] in lids)) for n in walk(a)):
                                    continue
                                nonzero = (same_cell(a) and c.truth) or \
                                    (a[0] == "cmp" and a[1] in ("!=", "==") and C(0) in (a[2], a[3]) and same_cell(a[3] if a[2] == C(0) else a[2]) and (a[1] == "!=") == c.truth)
                                if not nonzero and a[0] == "cmp" and a[1] == ">" and a[3] == C(0) and same_cell(a[2]) and c.truth:
                                    from ..common import typed_fields
                                    tcs = typed_fields(prog, cn).get(fld, set())
                                    nonzero = bool(tcs) and tcs <= {"B", "H", "I", "L", "Q", "mmap"}  # unsigned cells: > 0 is != 0
                                if not nonzero:
                                    rep.bad("C19.clear-initial", f"{cn}.clear", f"{fld} cleared only where {nshow(a)} is {c.truth}",
                                            f"clear() zeroes a cell of {fld} only where {nshow(a)} is {c.truth}: cells for which that does not hold keep their value "
                                            "(only a cell that already is zero may be skipped)", e.where())
                                    good = False
                            if not zero or not full:
                                rep.bad("C19.clear-initial", f"{cn}.clear", f"{fld}[{nshow(idx)}] = {nshow(e.value)}",
                                        f"clear() stores {nshow(e.value)} at {nshow(idx)}: not a zero over the full range of the array", e.where())
                                good = False
                            elif good is None:
                                good = True
                if good:
                    rep.ok("C19.clear-initial", f"{cn}.clear: {fld} zeroed over its full range")
                elif good is None:
                    rep.bad("C19.clear-initial", f"{cn}.clear", f"{fld} no zero store", f"no element store into {fld} found in clear()", clr.where())


CONSTRUCTION = {"__init__", "_load", "_load_init", "_load_hex", "_parse_bytes", "_parse_footer", "_set_values", "__load", "frombytes", "_parse_blooms",
                "_parse_buckets", "_parse_bucket", "__set_params", "_parse_bloom_array", "_set_error_rate", "init_error_rate", "load_error_rate"}
_MEMO_CACHE = {}


def _inputs(e):
    return {n for n in walk(strip_epochs(e)) if n[0] == "p" or (n[0] == "f" and n[1] == SELF)}


def memo_effect(prog, cn, eff) -> bool:
    """is this write effect (root, field, kind, site) nothing but the update of a sound memo of the function at the site?"""
    if eff[2] != "rebind":
        return False
    site = eff[3].split("@")[0]
    gs = [m for c_ in prog.classes.values() for m in c_.methods.values() if m.qualname == site]
    return bool(gs) and memo_sound(prog, gs[0].cls.name if gs[0].cls.name in [k.name for k in prog.cls(cn).mro()] else cn, gs[0])[0]


def memo_sound(prog, cn, g):
    """are the receiver-field writes of g nothing but a sound one-entry memo?  That is: the written fields are read nowhere but in g
    (so they are not part of what the structure shows); a hit returns the remembered value only under `remembered key == K`; a miss
    stores key := K and value := V, returns V, and everything V depends on is in K or can only be set while the structure is built.
    Then calling g leaves the structure observably unchanged, now and for every later call."""
    key = (id(prog), cn, g.qualname)
    if key in _MEMO_CACHE:
        return _MEMO_CACHE[key]
    res = _memo_sound(prog, cn, g)
    _MEMO_CACHE[key] = res
    return res


def _memo_sound(prog, cn, g):
    import ast as _a
    from ..expr import canon, mapx
    from ..model import mangle
    ps = [p for p in paths(prog, cn, g, inline="deep") if p.exit[0] == "return"]
    written = set()
    for p in ps:
        for e in p.events:
            if e.kind == "setelem" and root_of(e.cont) == SELF:
                return False, "changes a container of the receiver"
            if e.kind == "call" and e.d.get("mutates") and e.d.get("recv") is not None and root_of(e.recv) == SELF and not e.d.get("inlined"):
                return False, "changes a container of the receiver"
            if e.kind == "setfield" and e.base == SELF:
                written.add(e.name)
    if not written:
        return False, "no memo fields"
    mro = [k.name for k in prog.cls(cn).mro()]
    # the memo fields are private to g: read nowhere else (other functions may only reset them)
    for c in prog.classes.values():
        if c.name not in mro:
            continue
        for f in list(c.methods.values()) + list(c.getters.values()) + list(c.setters.values()):
            if f is g:
                continue
            for n in _a.walk(f.node):
                if isinstance(n, _a.Attribute) and isinstance(n.ctx, _a.Load) and mangle(c.name, n.attr) in written:
                    return False, f"{mangle(c.name, n.attr)} is also read in {f.qualname}"
    # stable = receiver fields assigned only while the structure is built / loaded
    unstable = set()
    for c in prog.cls(cn).mro():
        for f in list(c.methods.values()) + list(c.setters.values()):
            if f.src_name in CONSTRUCTION or f is g:
                continue
            for n in _a.walk(f.node):
                if isinstance(n, _a.Attribute) and isinstance(n.ctx, (_a.Store, _a.Del)) and isinstance(n.value, _a.Name) and n.value.id == "self":
                    unstable.add(mangle(c.name, n.attr))

    def comp(n):
        """a memo component: a written field, or one position of a written field that holds a tuple"""
        if n[0] == "f" and n[1] == SELF and n[2] in written:
            return (n[2], None)
        if n[0] == "sub" and n[1][0] == "f" and n[1][1] == SELF and n[1][2] in written and n[2][0] == "c" and isinstance(n[2][1], int):
            return (n[1][2], n[2][1])
        return None

    def comps_in(e):
        out, skip = set(), set()
        for n in walk(e):
            c = comp(n)
            if c is not None and c[1] is not None:
                out.add(c)
                skip.add(n[1])
        for n in walk(e):
            c = comp(n)
            if c is not None and c[1] is None and not any(k[0] == c[0] and k[1] is not None for k in out):
                out.add(c)
        return out

    template = None  # (keyparts, returned expression, value components)
    for p in ps:
        if any(e.kind == "setfield" and e.base == SELF for e in p.events):
            continue
        rv = strip_epochs(p.exit[1])
        R = comps_in(rv)
        if not R:
            continue  # neither writes nor uses the memo
        keyparts = {}
        for c in p.conds:
            a = strip_epochs(c.atom)
            if a[0] == "cmp" and ((a[1] == "==" and c.truth) or (a[1] == "!=" and not c.truth)):
                for x, y in ((a[2], a[3]), (a[3], a[2])):
                    k = comp(x)
                    if k is not None and not comps_in(y):
                        keyparts[k] = y
                    # len(<remembered value>) == n: the number of remembered values is part of the key
                    if x[0] == "call" and x[1] == ("g", "len") and len(x[2]) == 1 and comp(x[2][0]) is not None and not comps_in(y):
                        keyparts[("len", comp(x[2][0]))] = y
        if not keyparts or set(keyparts) & R:
            return False, "a remembered value is returned without comparing the remembered key"
        if template is not None and template[0] != keyparts:
            return False, "two different key tests"
        template = (keyparts, rv, R)
    if template is None:
        return False, "no hit path (remembered value returned under a key test)"
    keyparts, hit_rv, R = template
    for p in ps:
        wrote = {e.name for e in p.events if e.kind == "setfield" and e.base == SELF}
        if not wrote:
            continue

        def stored(k):
            if k[0] == "len":
                return _known_len(stored(k[1]))
            v = p.fields.get((SELF, k[0]))
            if v is None:
                return None
            v = strip_epochs(v)
            if k[1] is None:
                return v
            return v[1][k[1]] if v[0] == "tup" and 0 <= k[1] < len(v[1]) else None
        key_problem = None
        for k, want in keyparts.items():
            if stored(k) is None or not _same_key(stored(k), want):
                key_problem = "a miss does not store the key it will be compared with"
        vals = {k: stored(k) for k in R}
        if any(v is None for v in vals.values()):
            return False, key_problem or "a miss does not store the value a hit returns"
        if key_problem:
            # say the more specific thing when there is one: an input of the remembered value that no key test covers
            have_ = set()
            for want in keyparts.values():
                have_ |= _inputs(want)
            for v in vals.values():
                loose_ = [n for n in _inputs(v) if n not in have_ and not (n[0] == "f" and (n[2] in written or n[2] not in unstable))]
                if loose_:
                    return False, f"the remembered value depends on {sorted(nshow(n) for n in loose_)}, which the key does not include: a later call with the same key returns a stale value"
            return False, key_problem

        def subst(n):
            k = comp(n)
            return vals.get(k) if k in vals else None
        if canon(_delist(mapx(hit_rv, subst))) != canon(_delist(strip_epochs(p.exit[1]))):
            return False, "a miss returns something other than what a hit on the stored entry returns"
        have = set()
        for want in keyparts.values():
            have |= _inputs(want)
        for v in vals.values():
            loose = [n for n in _inputs(v) if n not in have and not (n[0] == "f" and (n[2] in written or n[2] not in unstable))]
            if loose:
                return False, f"the remembered value depends on {sorted(nshow(n) for n in loose)}, which the key does not include: a later call with the same key returns a stale value"
    return True, ""


def _delist(v):
    """list(x) is x, value for value, when x is a list already: the result of a hashing strategy (HashResultsT = List[int]) or another list(...)"""
    inner = v
    n = 0
    while inner[0] == "call" and inner[1] == ("g", "list") and len(inner[2]) == 1 and not inner[3]:
        inner = inner[2][0]
        n += 1
    if n and inner[0] == "call" and inner[1][0] == "v" and inner[1][1][0] == "f" and "hash" in inner[1][1][2]:
        return inner
    return v


def _known_len(v):
    """the length of a remembered list when it is known by contract: list(...) / tuple(...) of the result of a hashing strategy called
    with depth d has d entries (a strategy returns exactly `depth` values - C18.exactly-depth for the shipped ones)"""
    if v is None:
        return None
    v = strip_epochs(v)
    while v[0] == "call" and v[1] in (("g", "list"), ("g", "tuple")) and len(v[2]) == 1:
        v = v[2][0]
    if v[0] == "call" and v[1][0] == "v" and v[1][1][0] == "f" and "hash" in v[1][1][2] and len(v[2]) == 2:
        return v[2][1]
    return None


def _same_key(stored, want) -> bool:
    """what a miss stores as the key compares equal to `want`: the value itself, an immutable snapshot of it (bytes(x) == x for every
    bytes-like x), or a choice between such values"""
    from ..expr import canon
    stored, want = strip_epochs(stored), strip_epochs(want)
    if canon(stored) == canon(want):
        return True
    if stored[0] == "call" and stored[1] == ("g", "bytes") and len(stored[2]) == 1:
        return _same_key(stored[2][0], want)
    if stored[0] == "phi":
        return _same_key(stored[2], want) and _same_key(stored[3], want)
    return False


def _resolve_none_tests(e, q):
    """decide `x is None` inside conditional values with what constructor path q knows (its own branch conditions; computed numbers
    are not None)"""
    from ..expr import mapx
    known = {}
    for c in q.conds:
        a = strip_epochs(c.atom)
        if a[0] == "cmp" and a[1] in ("is", "isnot") and a[3] == C(None):
            known[a[2]] = (a[1] == "is") == c.truth

    def f(n):
        if n[0] == "phi":
            c = n[1]
            neg = False
            if c[0] == "un" and c[1] == "not":
                c, neg = c[2], True
            if c[0] == "cmp" and c[1] in ("is", "isnot") and c[3] == C(None):
                x = c[2]
                isnone = known.get(x)
                if isnone is None and x[0] in ("bin", "nary", "call", "c", "unp", "lst", "tup", "newb", "new"):
                    isnone = x == C(None)
                if isnone is not None:
                    truth = isnone if c[1] == "is" else not isnone
                    if neg:
                        truth = not truth
                    return n[2] if truth else n[3]
        return None
    return mapx(e, f)


def _init_values(prog, cn):
    """field -> set of values the constructor may leave (params-construction paths), for comparison with clear()"""
    K = prog.cls(cn)
    init = K.find_method("__init__")
    out = {}
    if init is None:
        return out
    for p in paths(prog, cn, init, inline="deep"):
        if p.exit[0] != "return":
            continue
        # a constructor that writes a fresh file and then loads it (on-disk creation): a value unpacked from slot i is the
        # value packed at slot i of the same format on that path
        packs = [a for e in p.events if e.kind == "call" and e.name in ("write", "pwrite", "write_bytes") for a in e.args if a[0] == "pack"]
        for (b, n), v in p.fields.items():
            if b == SELF:
                v = strip_epochs(v)
                w = v
                while w[0] == "call" and w[1] in (("g", "int"), ("g", "float")) and len(w[2]) == 1:
                    w = w[2][0]
                if w[0] == "unp":
                    for pk in packs:
                        if pk[1].lstrip("<>=@!") == w[1].lstrip("<>=@!") and w[2] < len(pk[2]):
                            v = strip_epochs(pk[2][w[2]])
                out.setdefault(n, set()).add(v)
        # the same values written over the fields the constructor has just set (width -> self.width ...): what a clear() that
        # re-runs the allocation with the structure's own parameters leaves
        from ..expr import canon, mapx
        back = {strip_epochs(fv): ("f", SELF, fn, 0) for (b_, fn), fv in p.fields.items() if b_ == SELF and fv[0] not in ("c", "newb", "nary")}
        for (b, n), v in p.fields.items():
            if b == SELF:
                v2 = mapx(strip_epochs(v), lambda x: back.get(x) if (x in back and back[x][2] != n) else None)
                out.setdefault(n, set()).add(canon(v2))
    return out


def _same_initial(v, wants, fld=None) -> bool:
    from ..expr import canon
    v = strip_epochs(v)
    if v in wants or canon(v) in wants:
        return True
    # a fresh typed block of the array's present length: the same allocation as the constructor's (length is kept by every writer)
    if fld is not None and v[0] == "nary" and v[1] == "*" and len(v[2]) == 2:
        arr = [x for x in v[2] if x[0] == "newb" and x[1] == "array"]
        n = [x for x in v[2] if not (x[0] == "newb" and x[1] == "array")]
        if len(arr) == 1 and len(n) == 1 and n[0] == ("call", ("g", "len"), (("f", SELF, fld, 0),), ()):
            for w in wants:
                if w[0] == "nary" and w[1] == "*":
                    warr = [x for x in w[2] if x[0] == "newb" and x[1] == "array"]
                    if len(warr) == 1 and warr[0][3] == arr[0][3]:
                        return True
    # fresh empty containers compare by kind
    if v[0] == "newb":
        return any(w[0] == "newb" and w[1] == v[1] and not v[3] and not w[3] for w in wants)
    return False


def _zero_block(prog, cn, fld, idx, value):
    """self.F[:] = <typed zero array> * <length of F>   or   self.F[:n] = <typed zero array> * n  with n the allocation length
    ->  (value is all zero, the store covers exactly the cells of the array).  A file mapping is longer than its cells (it ends with
    the footer): there only the prefix form covers exactly the cells."""
    mapped = "mmap" in typed_fields(prog, cn).get(fld, set())
    lens = alloc_lengths(prog, cn, fld)

    def length_ok(n):
        return (not mapped and n[0] == "call" and n[1] == ("g", "len") and len(n[2]) == 1 and n[2][0][0] == "f" and n[2][0][1] == SELF and n[2][0][2] == fld) \
            or n in lens
    if idx == ("slc", C(None), C(None), C(None)):
        upper = None
    elif idx[0] == "slc" and len(idx) == 4 and idx[1] in (C(None), C(0)) and idx[3] in (C(None), C(1)) and idx[2] in lens:
        upper = idx[2]
    else:
        return False, False
    if value[0] == "newb" and value[1] == "array" and len(value[3]) == 2 and value[3][0] == C("B") and value[3][1][0] == "call" \
            and value[3][1][1] == ("g", "bytes") and len(value[3][1][2]) == 1:
        n = value[3][1][2][0]  # array('B', bytes(n)): n zero bytes
        return True, (length_ok(n) and not mapped) if upper is None else n == upper
    if value[0] == "call" and value[1] in (("g", "bytes"), ("g", "bytearray")) and len(value[2]) == 1 and mapped:
        n = value[2][0]  # bytes(n) stored into a slice of the mapping: n zero bytes (a mapping takes a bytes-like object of the slice's length)
        return True, (upper is not None and n == upper)
    if not (value[0] == "nary" and value[1] == "*" and len(value[2]) == 2):
        return False, False
    arr = [x for x in value[2] if x[0] == "newb" and x[1] == "array"]
    rest = [x for x in value[2] if not (x[0] == "newb" and x[1] == "array")]
    if len(arr) != 1 or len(rest) != 1 or len(arr[0][3]) != 2:
        return False, False
    zero = arr[0][3][1] == ("lst", (C(0),))
    n = rest[0]
    full = (length_ok(n) and not mapped) if upper is None else n == upper
    return zero, full


def _full_range(prog, cn, fld, idx) -> bool:
    """idx is the element/index of a loop over exactly the allocation domain of self.<fld>"""
    if idx[0] == "ix" and outer_field(idx[2]) == fld and idx[2][0] == "f":
        # enumerate(self.F) / range(len(self.F)) - unless F is a file mapping in this context: the mapping is longer than the cells
        # (it ends with the footer), so walking all of it overwrites the footer too
        return "mmap" not in typed_fields(prog, cn).get(fld, set())
    if idx[0] not in ("it", "ix"):
        return False
    dom = idx[2]
    if not (dom[0] == "call" and dom[1] == ("g", "range") and len(dom[2]) == 1):
        return False
    L = strip_epochs(dom[2][0])
    # allocation length expressions of the field in the constructor
    for want in alloc_lengths(prog, cn, fld):
        if L == want:
            return True
    return False


def alloc_lengths(prog, cn, fld):
    """length expressions (as field reads) that size self.<fld> in context cn"""
    out = set()
    K = prog.cls(cn)
    init = K.find_method("__init__")
    for p in paths(prog, cn, init, inline="deep"):
        for e in p.events:
            if e.kind == "setfield" and e.base == SELF and e.name == fld:
                v = e.value
                if v[0] == "newb" and v[1] == "array" and len(v[3]) == 2 and v[3][0] == C("B") and v[3][1][0] == "call" and v[3][1][1] == ("g", "bytes") \
                        and len(v[3][1][2]) == 1:
                    length = v[3][1][2][0]  # array('B', bytes(n)): n one-byte elements
                    for (b, n), fv in p.fields.items():
                        if b == SELF and fv == length:
                            out.add(("f", SELF, n, 0))
                    out.add(strip_epochs(length))
                if v[0] == "nary" and v[1] == "*":
                    arr = [x for x in v[2] if x[0] == "newb"]
                    rest = [x for x in v[2] if x[0] != "newb"]
                    if arr and rest:
                        length = rest[0] if len(rest) == 1 else ("nary", "*", tuple(rest))
                        # express the length through the fields that hold the same value at this point
                        for (b, n), fv in p.fields.items():
                            if b == SELF and fv == length:
                                out.add(("f", SELF, n, 0))
                        out.add(strip_epochs(length))
    if not out:
        for base in K.mro()[1:]:
            out |= alloc_lengths(prog, base.name, fld)
            if out:
                break
    return out


from ..selftest import Mutant, add_method, del_stmt, insert_stmt, replace_expr, replace_stmt

_B, _CM, _CK, _Q, _E = "blooms/bloom.py", "countminsketch/countminsketch.py", "cuckoo/cuckoo.py", "quotientfilter/quotientfilter.py", "blooms/expandingbloom.py"
MUTANTS = [
    Mutant("count-min hashes() remembers the last answer under the key alone (depth not part of the memo key)", _CM,
           replace_stmt("CountMinSketch", "hashes", "return self._hash_function",
                        "d = self.depth if depth is None else depth\nif self._memo_key == key:\n    return self._memo_val\nv = self._hash_function(key, d)\nself._memo_key = key\nself._memo_val = v\nreturn v"),
           rule="C19.query-pure"),
    Mutant("count-min hashes() remembers the last answer under (key, depth) (a sound memo)", _CM,
           replace_stmt("CountMinSketch", "hashes", "return self._hash_function",
                        "d = self.depth if depth is None else depth\nif self._memo_key == (key, d):\n    return self._memo_val\nv = self._hash_function(key, d)\nself._memo_key = (key, d)\nself._memo_val = v\nreturn v"),
           expect="silent"),
    Mutant("HeavyHitters.clear: delete __top_x_size = 0", _CM, del_stmt("HeavyHitters", "clear", "self.__top_x_size = 0"), rule="C19.clear-covers"),
    Mutant("HeavyHitters.clear: delete __smallest = 0", _CM, del_stmt("HeavyHitters", "clear", "self.__smallest = 0"), rule="C19.clear-covers"),
    Mutant("HeavyHitters.clear: delete __top_x = {}", _CM, del_stmt("HeavyHitters", "clear", "self.__top_x = {}"), rule="C19.clear-covers"),
    Mutant("HeavyHitters.clear: delete super().clear()", _CM, del_stmt("HeavyHitters", "clear", "super().clear()"), rule="C19.clear-covers"),
    Mutant("StreamThreshold.clear: delete table reset", _CM, del_stmt("StreamThreshold", "clear", "self.__meets_threshold = {}"), rule="C19.clear-covers"),
    Mutant("CountMinSketch.clear skips cells that are not positive", _CM, replace_stmt("CountMinSketch", "clear", "self._bins[i] = 0", "if self._bins[i] > 0:\n    self._bins[i] = 0"), rule="C19.clear-initial"),
    Mutant("CountMinSketch.clear skips cells that are zero (same meaning)", _CM, replace_stmt("CountMinSketch", "clear", "self._bins[i] = 0", "if self._bins[i] != 0:\n    self._bins[i] = 0"), expect="silent"),
    Mutant("CountingBloomFilter-style unsigned skip in Bitarray.clear (same meaning)", "utilities.py", replace_stmt("Bitarray", "clear", "self._bitarray[i] = 0", "if self._bitarray[i] > 0:\n    self._bitarray[i] = 0"), expect="silent"),
    Mutant("CountMinSketch.clear: total left untouched", _CM, del_stmt("CountMinSketch", "clear", "self.__elements_added = 0"), rule="C19.clear-covers"),
    Mutant("BloomFilter.clear: counter reset to 1", _B, replace_stmt("BloomFilter", "clear", "self._els_added = 0", "self._els_added = 1"), rule="C19.clear-initial"),
    Mutant("BloomFilter.clear: range(bloom_length - 1)", _B, replace_expr("BloomFilter", "clear", "range(self._bloom_length)", "range(self._bloom_length - 1)"), rule="C19.clear-initial"),
    Mutant("BloomFilter.check_alt bumps the counter", _B, insert_stmt("BloomFilter", "check_alt", "self._els_added += 1"), rule="C19.query-pure"),
    Mutant("estimate_elements caches into a field", _B, insert_stmt("BloomFilter", "estimate_elements", "self._fpr = float(setbits)", after="setbits ="), rule="C19.query-pure"),
    Mutant("CountMinSketch.check_alt records the query in the bins", _CM, insert_stmt("CountMinSketch", "check_alt", "self._bins[bins[0]] = 0", after="bins ="), rule="C19.query-pure"),
    Mutant("CuckooFilter.check removes on hit", _CK, insert_stmt("CuckooFilter", "check", "self.buckets[idx_1].sort()", after="idx_1, idx_2"), rule="C19.query-pure"),
    Mutant("BloomFilter.union ORs into the operand", _B, insert_stmt("BloomFilter", "union", "second._bloom[i] = 0", after="res._bloom[i]"), rule="C19."),
    Mutant("CountMinSketch.join zeroes the operand's total", _CM, insert_stmt("CountMinSketch", "join", "second._bins[0] = 0", after="size ="), rule="C19.operand"),
    Mutant("QuotientFilter.get_hashes drains a bit", _Q, insert_stmt("QuotientFilter", "get_hashes", "self._is_shifted.clear_bit(0)"), rule="C19.query-pure"),
    Mutant("ExpandingBloomFilter.check_alt drops an exhausted sub-filter", _E, insert_stmt("ExpandingBloomFilter", "check_alt", "self._blooms.reverse()"), rule="C19.query-pure"),
    Mutant("hashes() caches its result", _B, insert_stmt("BloomFilter", "hashes", "self._bits_per_elm = tmp", after="tmp ="), rule="C19.query-pure"),
    Mutant("clear() rewritten as a fresh allocation (behaviour preserving)", _B,
           replace_stmt("BloomFilter", "clear", "for idx in range", "for idx in range(0, self._bloom_length):\n    self._bloom[idx] = 0"), expect="silent"),
]
