"""C12 - union and join equal the structure built from both streams (cell-wise combine over the full range)."""
from __future__ import annotations

import ast as _ast

from ..common import saturating_move, all_conds, conds_at, nshow, outer_field, paths, unclamped
from ..expr import C, SELF, canon, norm, posform, show, strip_epochs
from ..model import AnalysisError
from ._setops import BLOOM_CTX, CMS_JOIN_CTX, SECOND, alloc_lengths, cell, combine_rule, is_full_range

EXPL = ("Normal-form comparison of the combine expression and the loop domain of BloomFilter.union (3 contexts), "
        "CountingBloomFilter.union and CountMinSketch.join: the stored cell must be self-cell (op) second-cell at the same "
        "index with op = | , + (clamped), + (clamped); the loop must iterate exactly over the allocation length; the result "
        "is built from the receiver's parameters; join adds the operand's element total to the receiver's.  Decides the "
        "cell-wise structure, not the equality with a single-stream structure (its consequence together with C01/C02).")
FILES = ["blooms/bloom.py", "blooms/countingbloom.py", "countminsketch/countminsketch.py"]
TOTAL = "_CountMinSketch__elements_added"
IMAX, IMIN = 2**31 - 1, -2**31


def join_rule(prog, rep, ctx):
    f = prog.method(ctx, "join")
    ps = paths(prog, ctx, f)
    rep.analysed(f, ctx, len(ps))
    where = f"{ctx}.join"
    # a join that works on a copy of its own counters (merged = array('i', self._bins) ... self._bins = merged) is the same join on
    # the counters themselves: where a returning path ends by installing that copy, the copy is read as the field
    from ..common import alias_view
    viewed = []
    for p in ps:
        own = ("f", SELF, "_bins", 0)
        copies = {strip_epochs(e.value) for e in p.events if e.kind == "bind" and strip_epochs(e.value)[0] == "newb" and strip_epochs(e.value)[1] == "array"
                  and len(strip_epochs(e.value)[3]) == 2 and strip_epochs(e.value)[3] == (C("i"), own)}
        inst = [strip_epochs(e.value) for e in p.events if e.kind == "setfield" and e.base == SELF and e.name == "_bins"]
        if len(copies) == 1 and (p.exit[0] != "return" or (inst and inst[-1] in copies)):
            viewed.append(alias_view(p, {next(iter(copies)): own}))
        else:
            viewed.append(p)
    ps = viewed
    stores = [(p, e) for p in ps for e in p.events if e.kind == "setelem" and outer_field(e.cont) == "_bins"]
    if not stores:
        rep.bad("C12.join-cells", where, "no cell store", "join stores nothing into the receiver's cells", f.where())
        return
    okc = True
    seen_plain = False
    for p, e in stores:
        if strip_epochs(e.cont) != ("f", SELF, "_bins", 0):
            rep.bad("C12.join-cells", where, f"store into {nshow(e.cont)}", "join stores into something other than the receiver's cells", e.where())
            okc = False
            continue
        idx = strip_epochs(e.index)
        if idx == ("slc", C(None), C(None), C(None)):
            # self._bins[:] = second._bins : every cell becomes the operand's cell - the sum, exactly where every own cell is known to be 0
            own_zero = any((not c.truth) and strip_epochs(c.atom) == ("call", ("g", "any"), (("f", SELF, "_bins", 0),), ()) for c in p.conds[:e.ncond])
            if strip_epochs(e.value) == ("f", SECOND, "_bins", 0) and own_zero:
                seen_plain = True
                continue
            rep.bad("C12.join-cells", where, f"block store {nshow(e.value)}", f"join overwrites all cells with {nshow(e.value)} on a path that has not established that every own cell is zero "
                    "(or with something other than the operand's cells)", e.where())
            okc = False
            continue
        if not is_full_range(prog, ctx, "_bins", idx):
            rep.bad("C12.join-cells", where, f"range {nshow(idx)}", f"the loop covers {nshow(idx)}, not exactly range(width*depth)", e.where())
            okc = False
            continue
        # positions are compared, not spellings: bins[i] with i the walk position and the element bound by zip / enumerate agree
        pos = canon(posform(e.index))
        own, other = ("sub", ("f", SELF, "_bins", 0), pos, 0), ("sub", ("f", SECOND, "_bins", 0), pos, 0)
        s = canon(("bin", "+", own, other))
        v = canon(posform(e.value))
        cs = [canon(posform(c)) for c in conds_at(p, e)]
        if v == s or unclamped(v, (IMIN, IMAX)) == s:
            seen_plain = True
        elif v == C(IMAX) and any(c == canon(("cmp", ">", s, C(IMAX))) or c == canon(("cmp", ">=", s, C(IMAX))) for c in cs):
            pass
        elif v == C(IMIN) and any(c == canon(("cmp", "<", s, C(IMIN))) or c == canon(("cmp", "<=", s, C(IMIN))) for c in cs):
            pass
        else:
            rep.bad("C12.join-cells", where, f"store {nshow(e.value)}",
                    f"joined cell is {nshow(e.value)}; expected self cell + second cell at the same index (or the clamp constant under the overflow test)", e.where())
            okc = False
    # inside the walk a cell may be left unmerged only where it is pinned at one of the two limits
    from ..intervals import EQ, path_orderings
    for p in ps:
        if p.exit[0] != "return" or not okc:
            continue
        lids = {c.loops[-1] for c in p.conds if c.loops}
        if len(lids) != 1 or any(e.kind == "setelem" and outer_field(e.cont) == "_bins" for e in p.events):
            continue
        lid = next(iter(lids))
        own = ("sub", ("f", SELF, "_bins", 0), ("pos", lid), 0)
        cs = [strip_epochs(posform(c)) for c in all_conds(p)]
        other = ("sub", ("f", SECOND, "_bins", 0), ("pos", lid), 0)
        # own + other == own  says  other == 0
        both = canon(("bin", "+", own, other))
        cs = [("cmp", c_[1], other, C(0)) if (c_[0] == "cmp" and c_[1] in ("==", "!=") and {canon(c_[2]), canon(c_[3])} == {both, canon(own)}) else c_ for c_ in cs]
        if path_orderings(cs, other, C(0)) <= {EQ}:
            continue  # the operand's cell is 0: leaving the own cell alone is the sum
        if not (path_orderings(cs, own, C(IMIN)) <= {EQ} or path_orderings(cs, own, C(IMAX)) <= {EQ}):
            bad_c = [c for c in p.conds if c.loops][-1]
            rep.bad("C12.join-cells", where, "cell skipped", "the walk leaves a cell unmerged on a path that has not established that the cell is pinned at INT32_MIN or INT32_MAX (or that the operand's cell is 0): "
                    "the operand's count for that cell is dropped", f.where(bad_c.node))
            okc = False
    # a returning path that merges no cell at all is sound only where the operand's cells are known to be all zero
    for p in ps:
        if p.exit[0] != "return" or any(e.kind == "setelem" and outer_field(e.cont) == "_bins" for e in p.events) \
                or any(c.atom[0] == "loop0" for c in p.conds) or any(c.loops for c in p.conds) or any(e.loops for e in p.events):
            continue  # (a walk that skips a pinned cell is inside the merge loop)
        anyc = ("call", ("g", "any"), (("f", SECOND, "_bins", 0),), ())
        # ... or the receiver's cells are all zero and its array is replaced by a COPY of the operand's (the sum, cell by cell)
        own_zero = any((not c.truth) and strip_epochs(c.atom) == ("call", ("g", "any"), (("f", SELF, "_bins", 0),), ()) for c in p.conds)
        reb = [e for e in p.events if e.kind == "setfield" and e.base == SELF and e.name == "_bins"]
        if reb and own_zero:
            v_ = strip_epochs(reb[-1].value)
            sec = ("f", SECOND, "_bins", 0)
            copy_ = (v_[0] == "slice" and v_[1] == sec and v_[2:] == (C(None), C(None), C(None))) or \
                (v_[0] == "newb" and v_[1] == "array" and len(v_[3]) == 2 and v_[3][0] == C("i") and v_[3][1] == sec) or \
                (v_[0] == "call" and v_[1][0] == "m" and v_[1][1] == sec and v_[1][2] in ("__copy__", "copy"))
            if copy_:
                seen_plain = True
                continue
            if v_ == sec:
                rep.bad("C12.join-cells", where, "receiver takes over the operand's array",
                        "join into an all-zero sketch makes the receiver's counters the operand's own array object (no copy): from then on every update of one "
                        "sketch shows up in the other", reb[-1].where())
                okc = False
                break
        if not any((not c.truth) and strip_epochs(c.atom) == anyc for c in p.conds):
            rep.bad("C12.join-cells", where, "return without merging", "join returns normally on a path that merges no cell and has not established that every cell of the operand is zero "
                    "(an element total of 0 does not imply that: additions and removals of different keys cancel in the total only)", f.where(p.exit[2]) if p.exit[2] is not None else f.where())
            okc = False
            break
    if okc and seen_plain:
        rep.ok("C12.join-cells", f"{where}: bins[i] = bins[i] + second.bins[i] (clamped) over range(width*depth)")
    elif okc:
        rep.bad("C12.join-cells", where, "sum never stored", "no path stores the plain sum of the two cells", f.where())
    # total
    s = canon(("bin", "+", ("f", SELF, TOTAL, 0), ("f", SECOND, TOTAL, 0)))
    tot_ok = False
    bad = None
    for p in ps:
        if p.exit[0] != "return":
            continue
        evs = [e for e in p.events if e.kind == "setfield" and e.name == TOTAL and e.base == SELF]
        if not evs:
            # leaving the total alone is the same as adding the operand's total only where that total is known to be 0
            ztot = ("cmp", "==", ("f", SECOND, TOTAL, 0), C(0))
            if any(c.truth and strip_epochs(c.atom) in (ztot, ("cmp", "==", C(0), ("f", SECOND, TOTAL, 0))) for c in p.conds):
                tot_ok = True
                continue
            bad = ("no total update", "a normal path of join leaves the element total unchanged", f.where())
            break
        if not saturating_move(p, evs[0], s, (-2**63, 2**63 - 1)):
            bad = (f"total = {nshow(evs[0].value)}", f"the total becomes {nshow(evs[0].value)}, expected own total + operand's total", evs[0].where())
            break
        tot_ok = True
    if bad:
        rep.bad("C12.join-total", where, *bad)
    elif tot_ok:
        rep.ok("C12.join-total", f"{where}: total += second.total")


def check(prog, rep, tier):
    rep.extra["explanation"] = EXPL
    rep.rule("C12.union-cells", "union stores self cell (op) second cell over the full allocated range into a fresh result built from the receiver's parameters", floor=3)
    rep.rule("C12.join-cells", "join stores own cell + operand cell (clamped) over the full range", floor=1)
    rep.rule("C12.join-total", "join adds the operand's element total", floor=1)
    rep.trust("array/int semantics: | and + on cells are the bit-wise / arithmetic operations; the similarity guard (C13) makes both arrays the same length")
    for ctx in BLOOM_CTX:
        op = "+" if ctx == "CountingBloomFilter" else "|"
        combine_rule(prog, rep, "C12.union-cells", ctx, "union", op)
    ctxs = CMS_JOIN_CTX if tier == "thorough" else CMS_JOIN_CTX[:1]
    for ctx in ctxs:
        join_rule(prog, rep, ctx)


from ..selftest import Mutant, del_stmt, insert_stmt, replace_expr, replace_stmt, swap_binop

_B, _CB, _CM = "blooms/bloom.py", "blooms/countingbloom.py", "countminsketch/countminsketch.py"
MUTANTS = [
    Mutant("BloomFilter.union | -> ^", _B, swap_binop("BloomFilter", "union", _ast.BitOr, _ast.BitXor), rule="C12.union"),
    Mutant("BloomFilter.union | -> &", _B, swap_binop("BloomFilter", "union", _ast.BitOr, _ast.BitAnd), rule="C12.union"),
    Mutant("BloomFilter.union range(bloom_length - 1)", _B, replace_expr("BloomFilter", "union", "range(self.bloom_length)", "range(self.bloom_length - 1)"), rule="C12.union"),
    Mutant("BloomFilter.union range(1, bloom_length)", _B, replace_expr("BloomFilter", "union", "range(self.bloom_length)", "range(1, self.bloom_length)"), rule="C12.union"),
    Mutant("BloomFilter.union reads second at i+1", _B, replace_expr("BloomFilter", "union", "second._get_element(i)", "second._get_element(i - 1)"), rule="C12.union"),
    Mutant("BloomFilter.union uses self twice", _B, replace_expr("BloomFilter", "union", "second._get_element(i)", "self._get_element(i)"), rule="C12.union"),
    Mutant("CountingBloomFilter.union range(bloom_length - 1)", _CB, replace_expr("CountingBloomFilter", "union", "range(self.bloom_length)", "range(self.bloom_length - 1)"), rule="C12.union"),
    Mutant("CountingBloomFilter.union takes max instead of sum", _CB, replace_expr("CountingBloomFilter", "union", "self._bloom[i] + second._bloom[i]", "max(self._bloom[i], second._bloom[i])"), rule="C12.union"),
    Mutant("union result built with the operand's hash function", _B, replace_expr("BloomFilter", "union", "self.hash_function", "second.hash_function"), rule="C12.union"),
    Mutant("join range(size - 1)", _CM, replace_expr("CountMinSketch", "join", "range(size)", "range(size - 1)"), rule="C12.join-cells"),
    Mutant("join subtracts", _CM, replace_expr("CountMinSketch", "join", "self._bins[i] + second._bins[i]", "self._bins[i] - second._bins[i]"), rule="C12.join-cells"),
    Mutant("join forgets the total", _CM, del_stmt("CountMinSketch", "join", "self.__elements_added += second.elements_added"), rule="C12.join-total"),
    Mutant("join size = width only", _CM, replace_expr("CountMinSketch", "join", "self.width * self.depth", "self.width"), rule="C12.join-cells"),
    Mutant("union loop written over range(0, len) (same meaning)", _B, replace_expr("BloomFilter", "union", "range(self.bloom_length)", "range(0, self._bloom_length)"), expect="silent"),
]
