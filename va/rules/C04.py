"""C04 - quotient filter is an exact set of 32-bit hashes: the thin structural slice that static analysis can decide."""
from __future__ import annotations

import ast as _ast

from ..anchors import SIMPLE as SIMPLE_NAMES
from ..common import OPAQUE, all_conds, conds_at, mro_methods, nshow, outer_field, paths, true_atoms
from ..expr import C, SELF, canon, show, strip_epochs, walk
from ..model import AnalysisError
from .C14 import ARRAYS as QARRAYS, GEOMETRY, donor_of, geometry_writers, quotient_counter_rules

EXPL = ("THIN SLICE.  Decided: (a) elements_added moves by +1 on every non-raising path of _add, by -1 on every mutating path of "
        "_remove_element and not at all on the absent path, and is reset with the arrays; (b) wrap-around: every index used on "
        "the remainder array or the three bit vectors is in [0, size) on every path - a three-point lattice (in-range / maybe -1 / "
        "unknown) with assume-guarantee at calls: an index is in range if it is masked with size-1 or reduced mod size, an element "
        "of range(size), the quotient of a 32-bit hash, an index parameter (every call site must pass an in-range value), the result "
        "of the start-index helper, the result of the location helper after its == -1 guard, or a loop-carried variable whose initial "
        "value and every update are in range; (c) no duplicates: _add is reached only under 'not contained'; (d) resize captures the "
        "hash list before the arrays are replaced and re-inserts every element, merge re-inserts every hash of the operand.  NOT "
        "decided: that the run/cluster shifting keeps the layout canonical for every neighbourhood shape (the heart of the "
        "property), and termination.")
FILES = ["quotientfilter/quotientfilter.py"]
CTX = "QuotientFilter"
ARRAYS = {"_filter", "_is_occupied", "_is_continuation", "_is_shifted"}
BIT_METHODS = {"check_bit", "set_bit", "clear_bit", "__setitem__", "__getitem__", "is_bit_set"}
MOD = ("f", SELF, "_QuotientFilter__mod_size", 0)
SIZE = ("f", SELF, "_size", 0)
IN, M1, UNK = "in-range", "maybe -1", "unknown"


class Ranger:
    """three-point classification of index expressions; loop-carried variables are classified once per function from the
    set of all their bindings (outside the loop = initial values, inside = updates), co-inductively"""

    def __init__(self, prog):
        self.prog = prog
        self.ret_memo = {}
        self.tables = {}
        self.memo = {}

    def table(self, f):
        if f.qualname in self.tables:
            return self.tables[f.qualname]
        binds = {}
        for p in paths(self.prog, CTX, f, max_states=20000):
            for ev in p.events:
                if ev.kind == "bind":
                    binds.setdefault(ev.name, set()).add((ev.loops, strip_epochs(ev.value)))
        self.tables[f.qualname] = binds
        return binds

    def classify(self, e, p, upto=None, assume=frozenset()):
        e = strip_epochs(e)
        f = p.stack[0].func
        if e[0] == "ret" and e[1].endswith("._contained_at_loc"):
            for c in (p.conds if upto is None else p.conds[:upto]):
                a = strip_epochs(c.atom)
                if a[0] == "cmp" and a[2] == e and a[3] == C(-1) and ((a[1] == "==") != c.truth):
                    return IN if self.ret_class("_contained_at_loc") in (IN, M1) else UNK
                if a[0] == "cmp" and a[2] == e and a[3] == C(None) and ((a[1] == "is") != c.truth):
                    return IN if self.ret_class("_contained_at_loc") in (IN, M1) else UNK  # the "absent" answer spelled None
            return self.ret_class("_contained_at_loc")
        if e[0] == "hv":
            # initial values path-sensitively (a guard such as `if idx == -1: return` refines them), updates co-inductively
            name, lid = e[1], e[2].rstrip("+")
            a2 = assume | {("hv", name, lid), ("hv", name, lid + "+")}
            pre = [ev.value for ev in p.events if ev.kind == "bind" and ev.name == name and lid not in ev.loops]
            vals = [self.classify(pre[-1], p, None, a2)] if pre else [IN if name in f.params else UNK]
            for loops, v in self.table(f).get(name, set()):
                if lid in loops:
                    vals.append(self.cls(v, f, a2))
            return IN if all(v == IN for v in vals) else (M1 if all(v in (IN, M1) for v in vals) else UNK)
        if e[0] == "phi":
            a, b = self.classify(e[2], p, upto, assume), self.classify(e[3], p, upto, assume)
            return IN if a == b == IN else (UNK if UNK in (a, b) else M1)
        return self.cls(e, f, assume)

    def cls(self, e, f, assume=frozenset()):
        key = (f.qualname, e)
        if not assume and key in self.memo:
            return self.memo[key]
        r = self._cls(e, f, assume)
        if not assume:
            self.memo[key] = r
        return r

    def _cls(self, e, f, assume):
        k = e[0]
        if k == "c":
            return IN if isinstance(e[1], int) and not isinstance(e[1], bool) and e[1] == 0 else (M1 if e[1] in (-1, None) else UNK)
        if k == "nary" and e[1] == "&" and MOD in e[2]:
            return IN
        if k == "bin" and e[1] == "%" and e[3] == SIZE:
            return IN
        if k == "bin" and e[1] in ("//", ">>") and e[2][0] == "p" and "hash" in e[2][1]:
            return IN  # quotient of a 32-bit hash (lemma r = 32 - q, size = 1 << q, checked separately)
        if k == "bin" and e[1] in ("//", ">>") and e[2][0] == "it" and any(
                n[0] == "ret" and n[1].endswith((".hashes", ".get_hashes")) and n[1].split(".")[-2] == CTX for n in walk(e[2][2])):
            return IN  # ... also of a hash a quotient filter hands back: everything stored came in through add_alt (32-bit domain)
        if k == "it":
            return IN if e[2] == ("call", ("g", "range"), (SIZE,), ()) else UNK
        if k == "p":
            return IN  # index parameters: guaranteed by every call site (checked there)
        if k == "phi":
            a, b = self.cls(e[2], f, assume), self.cls(e[3], f, assume)
            return IN if a == b == IN else (UNK if UNK in (a, b) else M1)
        if k == "hv":
            if e in assume:
                return IN
            name, lid = e[1], e[2].rstrip("+")
            a2 = assume | {("hv", name, lid), ("hv", name, lid + "+")}
            vals = []
            binds = self.table(f).get(name, set())
            if not any(lid not in loops for loops, _ in binds):
                vals.append(IN if name in f.params else UNK)
            for loops, v in binds:
                vals.append(self.cls(v, f, a2))
            return IN if all(v == IN for v in vals) else (M1 if all(v in (IN, M1) for v in vals) else UNK)
        if k == "ret":
            fn = e[1].split(".")[-1]
            if fn == "_get_start_index":
                return self.ret_class("_get_start_index")
            if fn == "_contained_at_loc":
                return self.ret_class("_contained_at_loc")
            return UNK
        return UNK

    def ret_class(self, name):
        if name in self.ret_memo:
            return self.ret_memo[name]
        self.ret_memo[name] = IN  # optimistic for recursion
        f = self.prog.method(CTX, name)
        vals = []
        for p in paths(self.prog, CTX, f):
            if p.exit[0] == "return":
                vals.append(self.classify(p.exit[1], p))
        r = IN if all(v == IN for v in vals) else (M1 if all(v in (IN, M1) for v in vals) else UNK)
        self.ret_memo[name] = r
        return r


def index_uses(p):
    """(index expr, number of conditions known, event, description) for every array / bit-vector access on a path"""
    out = []
    for e in p.events:
        if e.kind == "call" and e.target is not None and e.target.cls is not None and e.target.cls.name == "Bitarray" \
                and e.target.src_name in BIT_METHODS and e.args:
            out.append((e.args[0], e.ncond, e, f"{nshow(e.recv)}.{e.target.src_name}"))
        if e.kind == "setelem" and outer_field(e.cont) in ARRAYS and strip_epochs(e.cont)[1] == SELF:
            out.append((e.index, e.ncond, e, f"{nshow(e.cont)}[...] ="))
        vals = []
        if e.kind in ("setelem", "setfield", "return", "yield", "bind"):
            vals.append(e.d.get("value"))
        if e.kind == "call":
            vals += list(e.args)
        for v in vals:
            if v is None:
                continue
            for n in walk(v):
                if n[0] == "sub" and n[1][0] == "f" and n[1][1] == SELF and n[1][2] in ARRAYS:
                    out.append((n[2], e.ncond, e, f"{nshow(n[1])}[...]"))
    for i, c in enumerate(p.conds):
        for n in walk(c.atom):
            if n[0] == "sub" and n[1][0] == "f" and n[1][1] == SELF and n[1][2] in ARRAYS:
                out.append((n[2], i, None, f"{nshow(n[1])}[...] in a condition"))
    return out


INDEX_PARAMS = {"_add": ["q"], "_remove_element": ["q"], "_contained_at_loc": ["q"], "_shift_insert": ["q", "orig_idx", "insert_idx"],
                "_get_start_index": ["quotient"], "_is_cluster_start": ["elt"], "_is_run_start": ["elt"], "_is_run_or_cluster_start": ["elt"],
                "_is_empty_element": ["elt"], "_element_is": ["idx"]}


def geometry_lemma(prog, rep):
    entries, helpers = geometry_writers(prog)
    n_entries = 0
    ctor_ok = False
    for f in entries:
        bad = None
        wrote = False
        for p in paths(prog, CTX, f, force_inline=helpers):
            if p.exit[0] != "return":
                continue
            written = {e.name for e in p.events if e.kind == "setfield" and e.base == SELF and e.name in GEOMETRY + QARRAYS}
            if not written:
                continue
            wrote = True
            # the values as last assigned (a later call on the receiver keeps the invariant by induction)
            fin = {n: ("f", SELF, n, 0) for n in GEOMETRY + QARRAYS}
            for e in p.events:
                if e.kind == "setfield" and e.base == SELF and e.name in fin:
                    fin[e.name] = strip_epochs(e.value)
            q = fin["_q"]
            size = canon(("bin", "<<", C(1), q))
            want = {"_r": canon(("bin", "-", C(32), q)), "_size": size, "_QuotientFilter__mod_size": canon(("bin", "-", ("bin", "<<", C(1), q), C(1)))}
            if "_q" not in written:
                # the quotient stays: the derived values may stay too, or be recomputed from it
                for k in want:
                    if k not in written:
                        want[k] = ("f", SELF, k, 0)
            for k, v in want.items():
                if canon(fin[k]) != v:
                    bad = bad or (f"{k} = {nshow(fin[k])}", f"{f.src_name} leaves {k} = {nshow(fin[k])} next to _q = {nshow(q)}, expected {nshow(v)}: masking with mod_size no longer keeps "
                                  "indices inside the arrays, and quotient / remainder are split at the wrong bit")
            news = {(e.d.get("obj") or ("new", e.cls, None)): e for e in p.events if e.kind == "new"}
            for k in QARRAYS:
                v = fin[k]
                if k not in written:
                    if "_q" in written:
                        bad = bad or (f"{k} kept", f"{f.src_name} changes the quotient but keeps {k}: its length is no longer 1 << q")
                    continue
                length = None
                if v[0] == "nary" and v[1] == "*" and any(x[0] == "newb" and x[1] == "array" for x in v[2]):
                    rest = [x for x in v[2] if not (x[0] == "newb" and x[1] == "array")]
                    length = canon(rest[0]) if len(rest) == 1 else None
                elif v[0] == "new" and v[1] == "Bitarray":
                    e = news.get(v) or next((e for o, e in news.items() if o[:3] == v[:3]), None)
                    length = canon(strip_epochs(e.args[0])) if e is not None and e.args else None
                elif donor_of(v, k) is not None:
                    # storage adopted from another filter (itself, or a copy of it): that filter's own invariant gives the length
                    # 1 << (its quotient now) - which must be the receiver's quotient, by assignment or by a test the path has made
                    dn = donor_of(v, k)
                    same_q = q == ("f", dn, "_q", 0) or ("_q" not in written and any(
                        a_ in (("cmp", "==", ("f", SELF, "_q", 0), ("f", dn, "_q", 0)), ("cmp", "==", ("f", dn, "_q", 0), ("f", SELF, "_q", 0)))
                        for a_ in true_atoms(p)))
                    from ..expr import root_of
                    if root_of(dn)[0] == "p" and not any(a_ in (("cmp", "==", ("f", SELF, "_elements_added", 0), C(0)), ("un", "not", ("f", SELF, "_elements_added", 0)))
                                                         for a_ in true_atoms(p)):
                        bad = bad or (f"{k} taken over from {nshow(dn)} by a filter that may hold elements",
                                      f"{f.src_name} replaces {k} by that of its argument on a path that has not established that the receiver is empty "
                                      "(elements_added == 0): whatever the receiver held is gone")
                    if not same_q:
                        bad = bad or (f"{k} adopted from {nshow(dn)}, _q = {nshow(q)}",
                                      f"{f.src_name} takes over {k} of {nshow(dn)} but sets its own quotient to {nshow(q)} instead of that filter's quotient at that moment: "
                                      "if the other filter has resized itself meanwhile, the arrays are laid out for a different quotient than the receiver believes")
                    continue
                if length is None or length not in (size, canon(fin["_size"])):
                    bad = bad or (f"{k} = {nshow(v)}", f"{f.src_name} leaves {k} = {nshow(v)}, which is not an allocation of 1 << q = {nshow(size)} cells")
            if f.src_name == "__init__" and not bad and written >= set(GEOMETRY + QARRAYS):
                ctor_ok = True
        if not wrote:
            continue
        n_entries += 1
        if bad:
            rep.bad("C04.geometry-lemma", f"{CTX}.{f.src_name}", bad[0], bad[1], f.where())
        else:
            rep.ok("C04.geometry-lemma", f"{f.src_name}: size = 1<<q, mod_size = size-1, r = 32-q, arrays and bit vectors of length size")
    # every field the constructor derives from the quotient (a cached mask, a width ...) is refreshed wherever the quotient changes
    from ..expr import mapx
    init = prog.method(CTX, "__init__")
    derived = {}
    for p in paths(prog, CTX, init, force_inline=helpers):
        if p.exit[0] != "return":
            continue
        last = {}
        for e in p.events:
            if e.kind == "setfield" and e.base == SELF:
                last[e.name] = strip_epochs(e.value)
        qp = last.get("_q")
        if qp is None or qp[0] != "p":
            continue
        for k, v in last.items():
            if k not in GEOMETRY + QARRAYS and any(n == qp for n in walk(v)) and v[0] in ("bin", "nary", "un"):
                derived.setdefault(k, (qp, v))
    for f in entries:
        if f.src_name == "__init__" or not derived:
            continue
        stale = None
        for p in paths(prog, CTX, f, force_inline=helpers):
            if p.exit[0] != "return":
                continue
            last = {}
            for e in p.events:
                if e.kind == "setfield" and e.base == SELF:
                    last[e.name] = strip_epochs(e.value)
            if "_q" not in last:
                continue
            for k, (qp, v) in derived.items():
                want = canon(mapx(v, lambda n: last["_q"] if n == qp else None))
                if k not in last:
                    stale = stale or (k, f"{f.src_name} changes the quotient but leaves {k.replace('_QuotientFilter', '')} as the constructor computed it from the old quotient "
                                         f"({nshow(v)}): every later use of it splits or masks hashes for a table shape the filter no longer has")
                elif canon(last[k]) != want:
                    stale = stale or (k, f"{f.src_name} sets {k.replace('_QuotientFilter', '')} = {nshow(last[k])} next to _q = {nshow(last['_q'])}; the constructor's rule gives {nshow(want)}")
        if stale:
            rep.bad("C04.geometry-lemma", f"{CTX}.{f.src_name}", f"{stale[0]} not refreshed", stale[1], f.where())
        elif any("_q" in {e.name for e in p.events if e.kind == "setfield" and e.base == SELF} for p in paths(prog, CTX, f, force_inline=helpers)):
            rep.ok("C04.geometry-lemma", f"{f.src_name}: {len(derived)} constructor-derived field(s) refreshed with the quotient")
    if not ctor_ok and not rep.rules["C04.geometry-lemma"]["violations"]:
        init = prog.method(CTX, "__init__")
        rep.bad("C04.geometry-lemma", f"{CTX}.__init__", "constructor does not establish the geometry",
                "the constructor does not assign all of q, r, size, mod_size and the four arrays on every path", init.where())


def check(prog, rep, tier):
    rep.extra["explanation"] = EXPL
    rep.rule("C04.counter", "elements_added: +1 per slot filled, -1 per slot emptied, unchanged when absent, reset with the arrays", floor=3)
    rep.rule("C04.index-in-range", "every index into the remainder array and the bit vectors is in [0, size) on every path", floor=60)
    rep.rule("C04.call-site-index", "every call passes in-range values for the callee's index parameters", floor=15)
    rep.rule("C04.geometry-lemma", "every method that assigns q, r, size, mod_size or an array leaves size = 1 << q, mod_size = size - 1, r = 32 - q and arrays of length size (fresh, or adopted together with the donor's quotient)", floor=2)
    rep.rule("C04.no-duplicate", "_add is reached only when the element is not contained", floor=1)
    rep.rule("C04.reinsert-all", "resize captures the hashes before replacing the arrays and re-inserts every one; merge re-inserts every hash of the operand", floor=2)
    rep.assume("hash values handed to add_alt / remove_alt / check_alt are 32-bit unsigned (the property's domain)")
    quotient_counter_rules(prog, rep, "C04.counter")
    # geometry lemma: an invariant of every method that writes a geometry field (private helpers looked through), so that it does
    # not hang on how construction is split into helpers
    geometry_lemma(prog, rep)
    # index uses and call sites
    R = Ranger(prog)
    K = prog.cls(CTX)
    for f in list(K.methods.values()):
        if f.src_name.startswith("_") and not f.src_name.endswith("__") and f.qualname not in OPAQUE and f.qualname not in SIMPLE_NAMES:
            continue  # a helper a refactoring introduced: it is looked through in its callers, where its arguments are known
        ps = paths(prog, CTX, f, max_states=20000)
        rep.analysed(f, CTX, len(ps))
        seen_use, seen_call = set(), set()
        for p in ps:
            for (idx, ncond, e, what) in index_uses(p):
                key = (nshow(idx), what)
                cls = R.classify(idx, p, ncond)
                if cls == IN:
                    if key not in seen_use:
                        seen_use.add(key)
                        rep.ok("C04.index-in-range", f"{CTX}.{f.src_name}: {what} at {nshow(idx)}")
                elif ("bad", nshow(idx)) not in seen_use:
                    seen_use.add(("bad", nshow(idx)))
                    loc = e.where() if e is not None and e.func is f else f.where()
                    rep.bad("C04.index-in-range", f"{CTX}.{f.src_name}", f"index {nshow(idx)} is {cls}",
                            f"{what} is indexed with {nshow(idx)}, which is {cls}: not masked with size-1, not an element of range(size) and not otherwise "
                            "known to lie in [0, size) - the access can leave the table (IndexError) or, at -1, hit the last slot", loc)
            for e in p.events:
                if e.kind == "call" and e.target is not None and e.target.cls is K and e.target.src_name in INDEX_PARAMS:
                    b = e.d.get("bound") or {}
                    for pn in INDEX_PARAMS[e.target.src_name]:
                        a = b.get(pn)
                        if a is None:
                            continue
                        cls = R.classify(a, p, e.ncond)
                        key = (e.target.src_name, pn, nshow(a))
                        if cls == IN:
                            if key not in seen_call:
                                seen_call.add(key)
                                rep.ok("C04.call-site-index", f"{CTX}.{f.src_name} -> {e.target.src_name}({pn}={nshow(a)})")
                        else:
                            rep.bad("C04.call-site-index", f"{CTX}.{f.src_name}", f"{e.target.src_name}({pn}={nshow(a)}) is {cls}",
                                    f"{f.src_name} calls {e.target.src_name} with {pn} = {nshow(a)}, which is {cls}: the callee indexes the table with it unchecked", e.where())
    # (c) no duplicates
    aa = prog.method(CTX, "add_alt")
    okd, seen = True, False
    # the value the lookup answers with when the element is absent (-1 today; None is as good): the constant it returns
    absent = {strip_epochs(p.exit[1]) for p in paths(prog, CTX, prog.method(CTX, "_contained_at_loc"))
              if p.exit[0] == "return" and strip_epochs(p.exit[1]) in (C(-1), C(None))}
    if len(absent) != 1:
        raise AnalysisError(f"C04: the lookup does not have one 'absent' answer (found {sorted(map(nshow, absent))})")
    ABSENT = next(iter(absent))
    for p in paths(prog, CTX, aa):
        adds = [e for e in p.events if e.kind == "call" and e.target is not None and e.target.src_name == "_add"]
        if not adds:
            continue
        seen = True
        args = tuple(strip_epochs(a) for a in adds[0].args)
        guard = [c for c in p.conds[:adds[0].ncond] if strip_epochs(c.atom)[0] == "cmp" and strip_epochs(c.atom)[2][0] == "ret"
                 and strip_epochs(c.atom)[2][1].endswith("._contained_at_loc") and strip_epochs(c.atom)[3] == ABSENT
                 and strip_epochs(c.atom)[1] in ("==", "!=", "is", "isnot")
                 and ((strip_epochs(c.atom)[1] in ("==", "is")) == c.truth) and strip_epochs(c.atom)[2][3][1:] == args]
        if not guard:
            # ... or the quotient's occupied bit is known to be clear: no element of that quotient is stored at all (the lookup's own first test)
            for c in p.conds[:adds[0].ncond]:
                a_ = strip_epochs(c.atom)
                if a_[0] == "cmp" and a_[1] in ("==", "!=") and a_[3] in (C(0), C(1)) and a_[2][0] == "ret" and a_[2][1].endswith("Bitarray.check_bit") \
                        and len(a_[2][3]) == 2 and a_[2][3][0] == ("f", SELF, "_is_occupied", 0) and a_[2][3][1] == args[0]:
                    is_one = ((a_[1] == "==") == c.truth) == (a_[3] == C(1))
                    if not is_one:
                        guard = [c]
        if not guard:
            rep.bad("C04.no-duplicate", f"{CTX}.add_alt", "_add without the containment test", "an element is added without checking that it is not already stored: the stored hashes can contain duplicates", adds[0].where())
            okd = False
    callers = set()
    _, helpers_ = geometry_writers(prog)
    for f in K.methods.values():
        if f.src_name == "add_alt":
            continue
        private_new = tuple(sorted(m.qualname for m in K.methods.values() if m.src_name.startswith("_") and not m.src_name.endswith("__")
                                   and m.src_name not in ("_add", "_contained_at_loc", "_remove_element", "_shift_insert", "_get_start_index")
                                   and m.qualname not in OPAQUE))
        if f.qualname in private_new:
            continue  # a helper introduced by a refactoring: judged inside its callers
        for p in paths(prog, CTX, f, max_states=20000, force_inline=tuple(helpers_) + private_new):
            adds_ = [e for e in p.events if e.kind == "call" and e.target is not None and e.target.src_name == "_add" and not e.d.get("inlined")]
            for a_ in adds_:
                i_ = p.events.index(a_)
                # (a) behind the containment test for the same (quotient, remainder)
                args_ = tuple(strip_epochs(x) for x in a_.args)
                guarded = any(strip_epochs(c.atom)[0] == "cmp" and strip_epochs(c.atom)[2][0] == "ret" and strip_epochs(c.atom)[2][1].endswith("._contained_at_loc")
                              and strip_epochs(c.atom)[3] == ABSENT and strip_epochs(c.atom)[1] in ("==", "!=", "is", "isnot")
                              and ((strip_epochs(c.atom)[1] in ("==", "is")) == c.truth) and strip_epochs(c.atom)[2][3][1:] == args_ for c in p.conds[:a_.ncond])
                # (b) refill of an empty table with the hashes of ONE filter (pairwise distinct by the property itself): the table was
                # re-allocated on this path, or found empty (counter == 0) before the loop, and the loop walks hashes() / get_hashes()
                fresh = any(e.kind == "setfield" and e.base == SELF and e.name == "_filter" for e in p.events[:i_])
                hvl = {}
                for e_ in p.events:
                    if e_.kind == "loophavoc" and e_.d.get("lid") in a_.loops:
                        hvl.update(e_.d.get("fields") or {})
                lim = hvl.get("_elements_added", hvl.get("*"))

                def before_loop(c):
                    """the counter in this condition was read before the loop started (the flag was computed once, up front)"""
                    a0 = c.atom
                    return not c.loops or (a0[0] == "cmp" and a0[2][0] == "f" and len(a0[2]) == 4 and lim is not None and a0[2][3] < lim)
                empty = any(c.truth and before_loop(c) and strip_epochs(c.atom) in (("cmp", "==", ("f", SELF, "_elements_added", 0), C(0)),) for c in p.conds[:a_.ncond])
                src = [n for x in args_ for n in walk(x) if n[0] == "it"]
                one_filter = bool(a_.loops) and bool(src) and all(any(m[0] == "ret" and m[1].endswith((".hashes", ".get_hashes")) for m in walk(n[2])) for n in src) \
                    and len({n[2] for n in src}) == 1
                if not guarded and not ((fresh or empty) and one_filter):
                    callers.add(f.src_name)
    if callers - {"add_alt"}:
        rep.bad("C04.no-duplicate", f"{CTX}.{sorted(callers - {'add_alt'})[0]}", "_add called directly", f"_add is also reached from {sorted(callers - {'add_alt'})} without the containment test (and not as the refill of an empty table with one filter's hashes)", K.module.relpath + ":1")
        okd = False
    if okd and seen:
        rep.ok("C04.no-duplicate", f"{CTX}.add_alt: _add only under _contained_at_loc(q, r) == -1")
    elif okd:
        rep.bad("C04.no-duplicate", f"{CTX}.add_alt", "never adds", "add_alt never reaches _add: added hashes are not stored", aa.where())
    # (e) two necessary conditions of the layout logic that are visible in the shape of the code
    rep.rule("C04.lookup-within-run", "a slot is reported as holding the element only while the scan is still inside the element's own run", floor=1)
    rep.rule("C04.run-emptied-clears-occupied", "removing the only element of a run clears that quotient's occupied bit, on every exit; otherwise the bit is kept", floor=1)
    cl = prog.method(CTX, "_contained_at_loc")
    okl, seen = True, False
    counter_scheme = False
    for p in paths(prog, CTX, cl):
        if p.exit[0] != "return" or strip_epochs(p.exit[1]) in (C(-1), C(None)):
            continue
        seen = True
        inrun = [c for c in p.conds if c.loops and strip_epochs(c.atom)[0] == "cmp" and strip_epochs(c.atom)[1] in ("==", ">=", "!=", "<")
                 and strip_epochs(c.atom)[3] == C(2) and any(n[0] == "hv" for n in walk(c.atom))]
        still = inrun and all(((strip_epochs(c.atom)[1] in ("==", ">=")) != c.truth) for c in inrun)
        if not inrun:
            still = _continues_only_on_continuation(prog, cl, p)
        else:
            counter_scheme = True
        match = [c for c in p.conds if c.loops and c.truth and strip_epochs(c.atom)[0] == "cmp" and strip_epochs(c.atom)[1] == "=="
                 and ("p", "r") in (strip_epochs(c.atom)[2], strip_epochs(c.atom)[3])]
        if not match:
            rep.bad("C04.lookup-within-run", f"{CTX}._contained_at_loc", "found without a remainder match", "an index is returned on a path that never compared the stored remainder with r", cl.where(p.exit[2]))
            okl = False
            break
        occ = [c for c in p.conds if not c.loops and strip_epochs(c.atom)[0] == "cmp" and strip_epochs(c.atom)[3] == C(0)
               and strip_epochs(c.atom)[2] == ("ret", "Bitarray.check_bit", "S", ()) or
               (not c.loops and strip_epochs(c.atom)[0] == "cmp" and strip_epochs(c.atom)[2][0] == "ret" and strip_epochs(c.atom)[2][1].endswith("Bitarray.check_bit")
                and strip_epochs(c.atom)[2][3] == (("f", SELF, "_is_occupied", 0), ("p", "q")) and strip_epochs(c.atom)[3] == C(0))]
        if not occ:
            # the test may have been hoisted into the callers: then EVERY call of the lookup must be made under is_occupied[<its q>] == 1
            unguarded = _unguarded_lookup_calls(prog, cl)
            if unguarded is not None and not unguarded:
                continue
            if unguarded:
                g_, e_ = unguarded[0]
                rep.bad("C04.lookup-within-run", f"{CTX}.{g_.src_name}", "lookup called without the occupied test",
                        f"{g_.src_name} calls the lookup on a path that has not established is_occupied[q] == 1, and the lookup itself no longer tests it: for a quotient with no run "
                        "the scan lands in a foreign run and an equal remainder there is mistaken for the key (a removal deletes another key's entry)", e_.where())
                okl = False
                break
        if not occ or ((strip_epochs(occ[0].atom)[1] == "==") == occ[0].truth):
            rep.bad("C04.lookup-within-run", f"{CTX}._contained_at_loc", "hit without the occupied test",
                    "a hit is reported on a path that has not established is_occupied[q] == 1: for a quotient with no run the scan lands in a foreign run and an equal remainder there is "
                    "mistaken for the key", cl.where(p.exit[2]))
            okl = False
            break
        if not still:
            rep.bad("C04.lookup-within-run", f"{CTX}._contained_at_loc", "match accepted without the run-boundary test",
                    "a slot whose remainder equals r is reported as a hit on a path that has not established that the scan is still inside the element's own run "
                    "(the second run start was not excluded): the first element of the NEXT run can be mistaken for the key, so add drops a new key / check reports a never-added hash", cl.where(p.exit[2]))
            okl = False
            break
    # the run counter used by that test moves by +1 exactly at run starts (slots whose continuation bit is clear)
    if okl and counter_scheme:
        for p in paths(prog, CTX, cl):
            inc = [e for e in p.events if e.kind == "accum"]
            cont0 = [c for c in p.conds if c.loops and strip_epochs(c.atom)[0] == "cmp" and strip_epochs(c.atom)[3] == C(0) and strip_epochs(c.atom)[2][0] == "ret"
                     and strip_epochs(c.atom)[2][3][0] == ("f", SELF, "_is_continuation", 0)]
            if not cont0:
                continue
            at_run_start = (strip_epochs(cont0[0].atom)[1] == "==") == cont0[0].truth
            good = (len(inc) == 1 and inc[0].op == "+" and inc[0].addend == C(1)) if at_run_start else not inc
            if not good:
                rep.bad("C04.lookup-within-run", f"{CTX}._contained_at_loc", f"run counter at run start={at_run_start}: {[(e.op, nshow(e.addend)) for e in inc]}",
                        "the counter of run starts met by the scan does not move by exactly +1 at a slot whose continuation bit is clear (and only there): the run-boundary test is ineffective", cl.where())
                okl = False
                break
    if okl and not seen:
        rep.bad("C04.lookup-within-run", f"{CTX}._contained_at_loc", "never reports a hit", "the lookup has no path that returns the location of a stored element: every stored hash is reported absent", cl.where())
    if okl and seen:
        rep.ok("C04.lookup-within-run", f"{CTX}._contained_at_loc: hit only with is_occupied[q], starts != 2 established; starts += 1 exactly at run starts")
    rme = prog.method(CTX, "_remove_element")
    oko, nsolo, nmulti = True, 0, 0
    qp = ("p", "q")
    for p in paths(prog, CTX, rme, max_states=20000):
        if p.exit[0] != "return":
            continue
        mut = [e for e in p.events if e.kind == "setelem" or (e.kind == "call" and e.name in ("clear_bit", "set_bit", "__setitem__"))]
        if not mut:
            continue
        top = [c for c in p.conds if not c.loops]
        rs = [c for c in top if strip_epochs(c.atom)[0] == "ret" and strip_epochs(c.atom)[1].endswith("._is_run_or_cluster_start")]
        ct = [c for c in top if strip_epochs(c.atom)[0] == "cmp" and strip_epochs(c.atom)[3] == C(0) and strip_epochs(c.atom)[2][0] == "ret"
              and strip_epochs(c.atom)[2][1].endswith("Bitarray.check_bit") and strip_epochs(c.atom)[2][3][0] == ("f", SELF, "_is_continuation", 0)]
        # "heads its run" may also be read off the removed element's own continuation bit (a stored element that is not a continuation is
        # a run start): the test on the looked-up slot itself stands for the predicate, the test on another slot is the one about the next
        def at_found(c):
            ix = strip_epochs(c.atom)[2][3][1]
            return ix[0] == "ret" and ix[1].endswith("._contained_at_loc")
        own = [c for c in ct if at_found(c)]
        ct = [c for c in ct if not at_found(c)]
        if not rs and not own:
            continue
        heads = rs[0].truth if rs else ((strip_epochs(own[0].atom)[1] == "==") == own[0].truth)
        solo = heads and bool(ct) and ((strip_epochs(ct[0].atom)[1] == "==") == ct[0].truth)
        clears = [e for e in p.events if e.kind == "call" and e.target is not None and e.recv is not None and strip_epochs(e.recv) == ("f", SELF, "_is_occupied", 0)
                  and ((e.target.src_name == "__setitem__" and [strip_epochs(a) for a in e.args] == [qp, C(0)]) or (e.target.src_name == "clear_bit" and [strip_epochs(a) for a in e.args] == [qp]))]
        if solo:
            nsolo += 1
        else:
            nmulti += 1
        if solo != bool(clears):
            loc = rme.where(p.exit[2]) if p.exit[2] is not None else rme.where()
            rep.bad("C04.run-emptied-clears-occupied", f"{CTX}._remove_element", f"only element of its run={solo}, occupied[q] cleared={bool(clears)}",
                    f"on an exit of _remove_element the removed element {'was' if solo else 'was not'} the only one of its run but is_occupied[q] is "
                    f"{'cleared' if clears else 'left set'}: later run-start computations in that cluster count one run too {'few' if clears else 'many'}", loc)
            oko = False
            break
    if oko and nsolo and nmulti:
        rep.ok("C04.run-emptied-clears-occupied", f"{CTX}._remove_element: {nsolo} exits of a run's last element clear occupied[q], {nmulti} other exits keep it")
    elif oko and not nsolo:
        rep.bad("C04.run-emptied-clears-occupied", f"{CTX}._remove_element", "the only-element-of-its-run case is not distinguished",
                "no exit of _remove_element treats the removal of a run's only element specially: that quotient's occupied bit is never cleared", rme.where())
    elif oko:
        raise AnalysisError("C04: could not classify the exits of _remove_element by 'only element of its run'")
    # (d) resize / merge
    rz = prog.method(CTX, "resize")
    okr, seen = True, False
    _, helpers = geometry_writers(prog)
    # helpers a refactoring introduced (not part of the pinned tree) are looked through: the re-insertion may live in one of them
    new_private = tuple(sorted(m.qualname for m in K.methods.values() if m.src_name.startswith("_") and not m.src_name.endswith("__") and m.qualname not in OPAQUE
                               and m.src_name not in ("_add", "_contained_at_loc", "_remove_element", "_shift_insert", "_get_start_index")))

    def hash_of(a):
        """the stored hash an inserted (quotient, remainder) pair was cut from: the loop element h in (h >> r, h & mask) / divmod(h, 1 << r)"""
        its = {n for n in walk(a) if n[0] == "it"}
        return next(iter(its)) if len(its) == 1 else a
    for p in paths(prog, CTX, rz, force_inline=tuple(helpers) + new_private):
        if p.exit[0] != "return":
            continue
        gh = [i for i, e in enumerate(p.events) if e.kind == "call" and e.target is not None and e.target.src_name in ("hashes", "get_hashes") and e.recv == SELF and not e.inlined]
        spi = [i for i, e in enumerate(p.events) if e.kind == "setfield" and e.base == SELF and e.name == "_filter"]
        if not spi:
            continue  # nothing replaced on this path
        donor = strip_epochs(p.events[spi[-1]].value)
        donor = donor[1] if donor[0] == "f" and donor[2] == "_filter" and donor[1] != SELF else None
        re_ = [e for e in p.events if e.kind == "call" and e.target is not None and e.target.src_name in ("add_alt", "_add") and e.loops and not e.d.get("inlined") and
               ((e.recv == SELF and donor is None) or (donor is not None and strip_epochs(e.recv) == donor))]
        if not gh or gh[0] > spi[0]:
            rep.bad("C04.reinsert-all", f"{CTX}.resize", "hashes not captured first", "resize does not read the stored hashes before replacing the arrays", rz.where())
            okr = False
            break
        if re_:
            seen = True
            # the split of a re-inserted hash uses the geometry as it is NOW: a width or mask read before the loop (a hoisted local) is
            # stale as soon as something in the loop body can change the geometry (a nested expansion during the refill)
            hv_ = {}
            for e_ in p.events:
                if e_.kind == "loophavoc" and e_.d.get("lid") in re_[0].loops:
                    hv_.update(e_.d.get("fields") or {})
            stale_ = [n for x in re_[0].args for n in walk(x) if n[0] == "f" and n[1] == SELF and len(n) == 4 and
                      ((n[2] in hv_ and n[3] < hv_[n[2]]) or ("*" in hv_ and n[3] < hv_["*"])) and n[2] in GEOMETRY]
            if stale_:
                rep.bad("C04.reinsert-all", f"{CTX}.resize", f"stale {stale_[0][2]} in the refill loop",
                        f"the refill loop splits every hash with {stale_[0][2]} as read BEFORE the loop, while the loop body can change it (a nested expansion "
                        "when the refill itself reaches the load limit): hashes inserted after that are cut at the wrong bit", re_[0].where())
                okr = False
                break
            a = hash_of(strip_epochs(re_[0].args[0]))
            captured = {strip_epochs(p.events[i].result) for i in gh}
            dom = strip_epochs(a[2]) if a[0] == "it" else None
            while dom is not None and dom[0] == "call" and dom[1] in (("g", "list"), ("g", "tuple"), ("g", "iter")) and len(dom[2]) == 1:
                dom = dom[2][0]
            whole = dom is not None and (dom in captured or (dom[0] == "ret" and dom[1].endswith((".hashes", ".get_hashes")) and dom[3] == (SELF,)))
            if not whole:
                rep.bad("C04.reinsert-all", f"{CTX}.resize", f"re-inserts {nshow(a)}", "resize does not re-insert every captured hash", re_[0].where())
                okr = False
                break
    if okr and seen:
        rep.ok("C04.reinsert-all", f"{CTX}.resize: the stored hashes are read before the arrays are replaced, every hash re-inserted")
    elif okr:
        rep.bad("C04.reinsert-all", f"{CTX}.resize", "nothing re-inserted", "resize replaces the arrays and never re-inserts the stored hashes", rz.where())
    mg = prog.method(CTX, "merge")
    okm = False
    lazy = None
    for p in paths(prog, CTX, mg, force_inline=new_private):
        for e in p.events:
            if e.kind == "call" and e.target is not None and e.target.src_name in ("add_alt", "_add") and e.loops and e.args and not e.d.get("inlined"):
                a = hash_of(strip_epochs(e.args[0]))
                dom = a[2] if a[0] == "it" else None
                materialised = False
                while dom is not None and dom[0] == "call" and dom[1] in (("g", "list"), ("g", "tuple"), ("g", "sorted")) and len(dom[2]) == 1:
                    dom, materialised = dom[2][0], True
                whole = dom is not None and dom[0] == "ret" and dom[1].endswith((".hashes", ".get_hashes")) and dom[3] == (("p", "second"),)
                okm = okm or whole
                # the walk is over a LIVE generator of the operand's table while the loop inserts into the receiver: if the operand is the
                # receiver itself, an insertion that resizes replaces the table under the generator (D15).  A list is a snapshot; so is
                # any walk made on a path that has excluded `second is self`
                if whole and not materialised and dom[1].endswith(".hashes") and e.recv == SELF:
                    distinct = any(a_ in (("cmp", "isnot", ("p", "second"), SELF), ("cmp", "isnot", SELF, ("p", "second"))) for a_ in true_atoms(p))
                    if not distinct:
                        lazy = lazy or e
    if okm and lazy is not None:
        rep.bad("C04.reinsert-all", f"{CTX}.merge", "operand walked lazily while the receiver is changed",
                "merge inserts into the receiver while walking second.hashes(), a generator over the operand's live table, on a path that has not excluded second is self: "
                "merging a filter into itself at the load limit resizes the table under the generator (quotient 3, auto_expand on, 7 hashes, qf.merge(qf): elements_added "
                "becomes 8 and a hash that was never added is reported present)", lazy.where())
    elif okm:
        rep.ok("C04.reinsert-all", f"{CTX}.merge: every hash of the operand is added, from a snapshot of its hashes")
    else:
        rep.bad("C04.reinsert-all", f"{CTX}.merge", "merge loop", "merge does not add every hash yielded by second.hashes()", mg.where())
    metadata_definition_rule(prog, rep)
    scan_start_rule(prog, rep)
    removal_walks_rule(prog, rep)


def _continues_only_on_continuation(prog, cl, hit_path) -> bool:
    """the other way of staying inside the run: the scan starts at the run's first slot and steps to the next slot only when that
    slot's continuation bit is set - then every slot it looks at belongs to the run (loop invariant, checked on every path that
    goes round the loop)"""
    rv = strip_epochs(hit_path.exit[1])
    if rv[0] != "hv":
        # a hit before the first step: the scan variable still holds its initial value, the start of the run
        return rv[0] == "ret" and rv[1].endswith("._get_start_index")
    name, lid = rv[1], rv[2].rstrip("+")
    around = [p for p in paths(prog, CTX, cl) if p.exit[0] == "loop"]
    if not around:
        return False
    for p in around:
        nxt = [e for e in p.events if e.kind == "bind" and e.name == name and e.loops and e.loops[-1] == lid]
        if not nxt:
            return False
        v = strip_epochs(nxt[-1].value)
        ok = False
        for c in p.conds[nxt[-1].ncond:]:
            a = strip_epochs(c.atom)
            if a[0] == "cmp" and a[1] in ("==", "!=") and a[3] == C(0) and a[2][0] == "ret" and a[2][1].endswith("Bitarray.check_bit") \
                    and a[2][3] == (("f", SELF, "_is_continuation", 0), v) and ((a[1] == "!=") == c.truth):
                ok = True
        if not ok:
            return False
    init = [e for e in hit_path.events if e.kind == "loopinit" and e.name == name and e.lid == lid]
    return bool(init) and strip_epochs(init[0].value)[0] == "ret" and strip_epochs(init[0].value)[1].endswith("._get_start_index")


# --------------------------------------------------------------------------- (f) metadata bits follow their definitions
def _bit_stores(p, after_idx):
    """(field, index, value, event) for every single-bit store after event number after_idx"""
    out = []
    for e in p.events[after_idx:]:
        if e.kind == "call" and e.target is not None and e.target.cls is not None and e.target.cls.name == "Bitarray" and e.d.get("recv") is not None \
                and not e.loops and e.target.src_name in ("__setitem__", "set_bit", "clear_bit"):
            r = strip_epochs(e.recv)
            if r[0] != "f" or r[1] != SELF:
                continue
            if e.target.src_name == "__setitem__" and len(e.args) == 2:
                out.append((r[2], strip_epochs(e.args[0]), strip_epochs(e.args[1]), e))
            elif len(e.args) == 1:
                out.append((r[2], strip_epochs(e.args[0]), C(1 if e.target.src_name == "set_bit" else 0), e))
    return out


def _is_neq_bit(v, x, y, conds) -> bool:
    """v is (x != y) as 0/1 on this path"""
    from ..intervals import EQ, GT, LT, path_orderings
    ne = {("cmp", "!=", x, y), ("cmp", "!=", y, x)}
    eq = {("cmp", "==", x, y), ("cmp", "==", y, x)}
    if v in ne:
        return True
    if v[0] == "call" and v[1] in (("g", "int"), ("g", "bool")) and len(v[2]) == 1 and v[2][0] in ne:
        return True
    if v[0] == "phi":
        if v[1] in ne and v[2] == C(1) and v[3] == C(0):
            return True
        if v[1] in eq and v[2] == C(0) and v[3] == C(1):
            return True
        return False
    if v in (C(1), C(True)) or v in (C(0), C(False)):
        o = path_orderings(conds, x, y)
        return o <= ({LT, GT} if v in (C(1), C(True)) else {EQ})
    return False


def metadata_definition_rule(prog, rep):
    rep.rule("C04.metadata-definition", "the inserted element's bits follow their definitions: shifted iff slot != quotient, continuation iff slot != run start, occupied[quotient] set", floor=1)
    f = prog.method(CTX, "_shift_insert")
    if len(f.params) < 5:
        raise AnalysisError("C04: _shift_insert no longer takes (q, r, run start, slot)")
    q, r, start, slot = (("p", n) for n in f.params[1:5])
    ps = [p for p in paths(prog, CTX, f) if p.exit[0] == "return"]
    rep.analysed(f, CTX, len(ps))
    good, n = True, 0
    for p in ps:
        place = [i for i, e in enumerate(p.events) if e.kind == "setelem" and outer_field(e.cont) == "_filter" and not e.loops and strip_epochs(e.value) == r]
        if not place:
            rep.bad("C04.metadata-definition", f"{CTX}._shift_insert", "remainder not stored", "a returning path of _shift_insert does not store the new remainder", f.where())
            good = False
            break
        x = strip_epochs(p.events[place[-1]].index)
        conds = [strip_epochs(c) for c in all_conds(p)]
        stores = _bit_stores(p, 0)
        last = {}
        for fld, idx, val, e in stores:
            last[(fld, idx)] = (val, e)
        for fld, other, what in (("_is_shifted", q, "slot != quotient"), ("_is_continuation", start, "slot != start of the quotient's run")):
            got = last.get((fld, x))
            if got is None or not _is_neq_bit(got[0], x, other, conds):
                rep.bad("C04.metadata-definition", f"{CTX}._shift_insert", f"{fld}[{nshow(x)}] = {nshow(got[0]) if got else 'not written'}",
                        f"the new element is stored at {nshow(x)} and its {fld[4:]} bit is left as {nshow(got[0]) if got else 'whatever was there'}; by definition it must be ({what}) "
                        f"= ({nshow(x)} != {nshow(other)}): run and cluster boundaries computed from the bits no longer match where the elements are", (got[1].where() if got else f.where()))
                good = False
        occ = last.get(("_is_occupied", q))
        if occ is None or occ[0] not in (C(1), C(True)):
            rep.bad("C04.metadata-definition", f"{CTX}._shift_insert", f"is_occupied[q] = {nshow(occ[0]) if occ else 'not written'}",
                    "inserting an element of quotient q does not set is_occupied[q]: the element's run is not found by later look-ups", f.where())
            good = False
        if not good:
            break
        n += 1
    if good and n:
        rep.ok("C04.metadata-definition", f"{CTX}._shift_insert: {n} returning paths set shifted = (slot != q), continuation = (slot != run start), occupied[q] = 1")
    elif good:
        rep.bad("C04.metadata-definition", f"{CTX}._shift_insert", "never returns", "_shift_insert has no returning path", f.where())


def _pred_value(prog, name, arg):
    """value returned by a one-parameter predicate helper of the quotient filter, for argument `arg`"""
    from ..expr import mapx
    g = prog.method(CTX, name)
    ps = [p for p in paths(prog, CTX, g, force_inline=(name,)) if p.exit[0] == "return"]
    if len(ps) != 1 or len(g.params) != 2:
        return None
    par = ("p", g.params[1])
    return mapx(strip_epochs(ps[0].exit[1]), lambda n_: arg if n_ == par else None)



def _unguarded_lookup_calls(prog, cl):
    """[(function, call event)] for the calls of the lookup `cl` made on a path that has not established is_occupied[<first argument>] == 1;
    None when the lookup is not called from any method (nothing to go by)"""
    calls, bad = 0, []
    # private routines that call the lookup are judged inside their callers (looked through), where a hoisted test would be
    def calls_lookup(g):
        return any(isinstance(n, _ast.Attribute) and n.attr == cl.src_name for n in _ast.walk(g.node))
    helpers = tuple(sorted(g.src_name for g in mro_methods(prog, CTX) if g is not cl and g.src_name.startswith("_") and not g.src_name.endswith("__") and calls_lookup(g)))
    for g in mro_methods(prog, CTX):
        if g is cl or g.src_name in helpers:
            continue
        for p in paths(prog, CTX, g, max_states=20000, force_inline=helpers):
            for e in p.events:
                if e.kind != "call" or e.target is not cl or not e.args:
                    continue
                calls += 1
                q = strip_epochs(e.args[0])
                ok = False
                for c in p.conds[:e.ncond]:
                    a = strip_epochs(c.atom)
                    bit = None
                    if a[0] == "cmp" and a[1] in ("==", "!=") and a[3] in (C(0), C(1)):
                        bit, val = a[2], ((a[1] == "==") == c.truth) == (a[3] == C(1))  # val: "the bit is 1"
                        if a[3] == C(0):
                            val = ((a[1] == "==") == c.truth) is False
                    elif a[0] in ("ret", "call"):
                        bit, val = a, c.truth
                    if bit is not None and bit[0] == "ret" and bit[1].endswith("Bitarray.check_bit") and len(bit[3]) == 2 \
                            and bit[3][0] == ("f", SELF, "_is_occupied", 0) and bit[3][1] == q and val:
                        ok = True
                if not ok and not any(x[1] is e.node for x in bad):
                    bad.append((g, e))
    return None if not calls else bad


def removal_walks_rule(prog, rep):
    """the removal routine walks the table cyclically: in a table with no empty slot a walk whose only exits read the metadata bits
    (cluster start / empty) does not end once the routine itself has overwritten the marker it is looking for - the element removed may
    BE the cluster start - so such a walk must also stop at an index (the cluster's own start, found before anything was written).
    And when a walk did end at that index, the pass that re-marks the moved elements must still run"""
    rep.rule("C04.remove-terminates", "in _remove_element a cyclic walk that follows metadata stores is bounded by an index comparison, and a walk that ended at that bound is followed by the re-marking pass", floor=2)
    f = prog.method(CTX, "_remove_element")
    ps = [p for p in paths(prog, CTX, f, max_states=20000)]
    rep.analysed(f, CTX, len(ps))
    # while loops of the routine (and of helpers looked through), by loop id
    loops = {}
    mod = f.module
    for n in _ast.walk(mod.tree if hasattr(mod, "tree") else _ast.parse(prog.sources[mod.relpath])):
        if isinstance(n, _ast.While):
            loops[(n.lineno, n.col_offset)] = n

    def meta_store(e):
        if e.kind == "setelem":
            return outer_field(e.cont) in ARRAYS
        if e.kind == "call" and e.name in ("__setitem__", "set_bit", "clear_bit") and e.d.get("recv") is not None:
            r = strip_epochs(e.recv)
            return r[0] == "f" and r[2] in ARRAYS
        return False

    def reads_meta(a):
        return any((n[0] == "f" and n[2] in ARRAYS) or (n[0] == "ret" and ("check_bit" in n[1] or "_is_" in n[1])) for n in walk(a))

    def index_cmp(a):
        return a[0] == "cmp" and a[1] in ("!=", "==", "<", "<=", ">", ">=") and not reads_meta(a) and \
            all(any(n[0] == "hv" or n[0] == "p" for n in walk(x)) for x in (a[2], a[3]))
    lids = sorted({l for p in ps for c in p.conds for l in c.loops} | {l for p in ps for e in p.events for l in e.loops})
    judged = 0
    bounded_exits = []  # (path, index of the exit condition) where a walk ended at its index bound
    for lid in lids:
        try:
            pos = lid.rsplit("@", 1)[1]
            key = tuple(int(x) for x in pos.split(":"))
        except Exception:
            continue
        W = loops.get(key)
        if W is None:
            continue  # a for loop (bounded by its range)
        tnodes = {id(n) for n in _ast.walk(W.test)}
        atoms = [(p, i, c) for p in ps for i, c in enumerate(p.conds) if id(c.node) in tnodes]
        if not atoms:
            continue
        has_meta = any(reads_meta(strip_epochs(c.atom)) for _, _, c in atoms)
        has_bound = any(index_cmp(strip_epochs(c.atom)) for _, _, c in atoms)
        if not has_meta:
            continue
        judged += 1
        stores = None
        for p in ps:
            first = min([i for (q, i, c) in atoms if q is p], default=None)
            if first is None:
                continue
            for e in p.events:
                if meta_store(e) and (lid in e.loops or e.ncond <= first):
                    stores = stores or e
        if stores is not None and not has_bound:
            rep.bad("C04.remove-terminates", f"{CTX}._remove_element", f"walk at line {W.lineno} has no index bound",
                    f"the walk `while {_ast.unparse(W.test)}` leaves only through the metadata bits, and the routine has stored into them by then ({stores.brief()[:80]}): "
                    "when the table has no empty slot and the element removed is the cluster start, the marker the walk looks for is gone and it never ends "
                    "(quotient 3, eight hashes of one quotient, remove the smallest: remove() does not return)", f.where(W))
        else:
            rep.ok("C04.remove-terminates", f"walk at line {W.lineno}: " + ("bounded by an index comparison" if has_bound else "no metadata store precedes it"))
        if has_bound:
            for (p, i, c) in atoms:
                a = strip_epochs(c.atom)
                if index_cmp(a) and not c.loops and ((a[1] == "!=" and not c.truth) or (a[1] == "==" and c.truth)) and p.exit and p.exit[0] == "return":
                    bounded_exits.append((p, i))
    if bounded_exits:
        # the pass that re-marks the elements which moved into their own slot: some loop body with metadata stores after the bounded exit -
        # in a loop that is not provably empty in exactly that case (its range decided under the equality the exit has established)
        from ..expr import mapx, renorm

        def runs(p, i):
            a = strip_epochs(p.conds[i].atom)
            x, y = a[2], a[3]
            for e in p.events:
                if not (meta_store(e) and e.loops and e.ncond > i):
                    continue
                lid = e.loops[-1]
                doms = {strip_epochs(n[2]) for ev in p.events if lid in ev.loops for v in ev.d.values() if isinstance(v, tuple)
                        for n in walk(v) if isinstance(n, tuple) and n and n[0] in ("it", "ix") and len(n) == 3 and n[1] == lid}
                empty = False
                for dom in doms:
                    if dom[0] == "call" and dom[1] == ("g", "range") and 1 <= len(dom[2]) <= 2:
                        lo, hi = (C(0), dom[2][0]) if len(dom[2]) == 1 else dom[2]

                        def eq(v):
                            v = mapx(strip_epochs(v), lambda n: x if n == y else None)
                            # comparisons of a term with itself are decided
                            v = mapx(v, lambda n: C(n[1] in ("==", "<=", ">=")) if (n[0] == "cmp" and n[1] in ("==", "!=", "<", "<=", ">", ">=") and n[2] == n[3]) else None)
                            return renorm(v)
                        if canon(eq(lo)) == canon(eq(hi)):
                            empty = True
                        elif __import__("os").environ.get("VA_DEBUG_WALK"):
                            print("DEBUG nonempty", nshow(eq(lo))[:150], "|", nshow(eq(hi))[:300])
                if not empty:
                    return True
                seen_loop[0] = True
            return False
        seen_loop = [False]
        verdicts = []
        for (p, i) in bounded_exits:
            seen_loop[0] = False
            r_ = runs(p, i)
            verdicts.append((r_, seen_loop[0]))
        # some path must run the pass; and no path may reach a pass whose range is empty in exactly this case (the walker cannot decide
        # the emptiness of a range and walks the body anyway: that path stands for the executions that skip it)
        ok = any(r_ for r_, _ in verdicts) and not any((not r_) and sl for r_, sl in verdicts)
        if ok:
            rep.ok("C04.remove-terminates", "a walk that ended at the cluster's own start is followed by a pass over the cluster that stores metadata")
        else:
            p0 = bounded_exits[0][0]
            rep.bad("C04.remove-terminates", f"{CTX}._remove_element", "no re-marking pass after a whole-table walk",
                    "when the shifting walk ends at the cluster's own start (the cluster fills the whole table) no later loop stores metadata - on no path, or only in a loop whose range is empty in exactly that case: the elements that "
                    "moved into their own slot stay marked as shifted, and later look-ups, removals and hashes() decode the table wrongly", f.where())
    if not judged:
        raise AnalysisError("anchor vanished: _remove_element has no cyclic walk over the metadata bits")

def scan_start_rule(prog, rep):
    """hashes() decodes the table from a start slot: the walk must not begin in the middle of a cluster"""
    rep.rule("C04.scan-start", "hashes() starts its walk at an empty slot, or - when there is none - at a cluster start", floor=1)
    f = prog.method(CTX, "hashes")
    ps = paths(prog, CTX, f, max_states=20000)
    rep.analysed(f, CTX, len(ps))
    size = ("f", SELF, "_size", 0)
    full = ("call", ("g", "range"), (size,), ())
    PRED = ("_is_empty_element", "_is_cluster_start")

    def next_form(v):
        """v = next((i for i in range(size) if P(i)), default) -> (predicate name, default) else None"""
        v = strip_epochs(v)
        if v[0] == "call" and v[1] == ("g", "next") and len(v[2]) == 2 and v[2][0][0] == "comp" and len(v[2][0][3]) == 1:
            g = v[2][0]
            gen = g[3][0]
            it = ("it", gen[1], full)
            if strip_epochs(gen[2]) == full and strip_epochs(g[2]) == it and len(gen[3]) == 1:
                for name in PRED:
                    if canon(gen[3][0]) == canon(_pred_value(prog, name, it)):
                        return name, v[2][1]
        return None

    def sentinel(d):
        """a default that is no slot: None, or a negative number"""
        return d[0] == "c" and (d[1] is None or (isinstance(d[1], int) and not isinstance(d[1], bool) and d[1] < 0))

    def searched(p, name):
        """the path shows a complete unsuccessful search for predicate `name` over range(size)"""
        for c in p.conds:
            a = strip_epochs(c.atom)
            if a[0] == "cmp" and a[1] in ("is", "isnot", "==", "!=") and sentinel(a[3]) and ((a[1] in ("is", "==")) == c.truth):
                nf = next_form(a[2])
                if nf is not None and nf[0] == name and nf[1] == a[3]:
                    return True  # next(<search>, D) is D (D = None or a negative number, no slot): nothing satisfies the predicate
            if a[0] == "loop0" and strip_epochs(a[2]) == full and c.truth:
                return True  # range(size) is empty: every search over it fails
            if c.loops and not c.truth:
                it = ("it", c.loops[-1], full)
                if canon(c.atom) == canon(_pred_value(prog, name, it)):
                    return True
        return False

    def ok_start(p, s_, need):
        s_ = strip_epochs(s_)
        if s_[0] == "it" and strip_epochs(s_[2]) == full:
            for name in PRED:
                pv = canon(_pred_value(prog, name, s_))
                if any(c.truth and canon(c.atom) == pv for c in p.conds) and (name == PRED[0] or PRED[0] not in need or searched(p, PRED[0])):
                    return True
            return False
        nf = next_form(s_)
        if nf is not None and sentinel(nf[1]):
            # first slot satisfying the predicate, known to exist on this path (the sentinel default was excluded)
            found = any(strip_epochs(c.atom)[0] == "cmp" and strip_epochs(c.atom)[1] in ("is", "isnot", "==", "!=") and strip_epochs(c.atom)[2] == s_
                        and strip_epochs(c.atom)[3] == nf[1] and ((strip_epochs(c.atom)[1] in ("isnot", "!=")) == c.truth) for c in p.conds)
            if found and (nf[0] == PRED[0] or PRED[0] not in need or searched(p, PRED[0])):
                return True
        if s_[0] == "call" and s_[1] == ("g", "next") and len(s_[2]) == 2 and s_[2][0][0] == "comp" and len(s_[2][0][3]) == 1:
            g = s_[2][0]
            gen = g[3][0]
            it = ("it", gen[1], full)
            if strip_epochs(gen[2]) == full and strip_epochs(g[2]) == it and len(gen[3]) == 1:
                for name in PRED:
                    if canon(gen[3][0]) == canon(_pred_value(prog, name, it)) and (name == PRED[0] or PRED[0] not in need or searched(p, PRED[0])):
                        return ok_start(p, s_[2][1], need - {name} - ({PRED[0]} if searched(p, PRED[0]) else set()))
            return False
        # a default: acceptable only when both searches are known to have failed (no element can then be stored at all)
        return all(n_ not in need or searched(p, n_) for n_ in PRED)

    good, seen = True, 0
    for p in ps:
        ys = [e for e in p.events if e.kind == "yield" and e.loops]
        if not ys:
            continue
        lid = ys[0].loops[-1]
        # the slot a yielded hash is read from, as a function of the walk variable; the walk starts at its value in the first iteration
        slots = {strip_epochs(n[2]) for e in ys for n in walk(e.value) if n[0] == "sub" and outer_field(n[1]) == "_filter"}
        doms = {strip_epochs(n[2]) for sl in slots for n in walk(sl) if n[0] == "it" and n[1] == lid}
        if len(slots) != 1 or len(doms) != 1:
            rep.bad("C04.scan-start", f"{CTX}.hashes", "walk domain", "the slots yielded by hashes() are not taken from one walk over the table", ys[0].where())
            good = False
            break
        d = next(iter(doms))
        if d[0] == "call" and d[1] == ("g", "range") and len(d[2]) == 1:
            first = C(0)
        elif d[0] == "call" and d[1] == ("g", "range") and len(d[2]) == 2:
            first = d[2][0]
        else:
            rep.bad("C04.scan-start", f"{CTX}.hashes", f"walk over {nshow(d)}", f"hashes() walks {nshow(d)}, not a range", ys[0].where())
            good = False
            break
        from ..expr import mapx, norm
        s_ = norm(mapx(next(iter(slots)), lambda n_: first if (n_[0] == "it" and n_[1] == lid) else None))
        def unzero(x):
            if x[0] == "nary" and x[1] == "+" and C(0) in x[2]:
                rest = tuple(y for y in x[2] if y != C(0))
                return rest[0] if len(rest) == 1 else ("nary", "+", rest)
            return x
        s_ = unzero(s_)
        if s_[0] == "nary" and s_[1] == "&" and len(s_[2]) == 2 and MOD in [strip_epochs(y) for y in s_[2]]:
            s_ = unzero([y for y in s_[2] if strip_epochs(y) != MOD][0])  # masked with size-1
        if s_[0] == "bin" and s_[1] in ("%", "&") and strip_epochs(s_[3]) in (size, MOD):
            s_ = unzero(s_[2])  # reduced modulo the table size: the start itself is an element of range(size) or a constant
        seen += 1
        if not ok_start(p, s_, set(PRED)):
            rep.bad("C04.scan-start", f"{CTX}.hashes", f"start = {nshow(s_)}",
                    f"hashes() can begin its walk at {nshow(s_)} on a path that has established neither that this slot is empty nor - with no empty slot found - that it is a cluster start: "
                    "beginning inside a cluster attributes the leading elements to the wrong quotient (a full table lists hashes that were never added, and resize / merge rebuild the wrong set)",
                    ys[0].where())
            good = False
            break
    if good and seen:
        rep.ok("C04.scan-start", f"{CTX}.hashes: {seen} yielding paths start at an empty slot or, failing that, at a cluster start")
    elif good:
        rep.bad("C04.scan-start", f"{CTX}.hashes", "never yields", "hashes() has no path that yields a stored hash", f.where())


from ..selftest import Mutant, del_stmt, insert_stmt, replace_expr, replace_stmt, seq

_Q = "quotientfilter/quotientfilter.py"
MUTANTS = [
    Mutant("D15 re-introduced: merge walks the operand's generator while inserting", _Q,
           replace_expr("QuotientFilter", "merge", "second.get_hashes()", "second.hashes()"), rule="C04.reinsert-all"),
    Mutant("merge walks the generator after excluding the self-merge (same result)", _Q, seq(
        replace_expr("QuotientFilter", "merge", "second.get_hashes()", "second.hashes()"),
        insert_stmt("QuotientFilter", "merge", "if second is self:\n    return", before="for _h in")), expect="silent"),
    Mutant("merge snapshots with list(second.hashes()) (same result)", _Q,
           replace_expr("QuotientFilter", "merge", "second.get_hashes()", "list(second.hashes())"), expect="silent"),
    Mutant("occupied test hoisted from the lookup into check_alt, add_alt and remove_alt (same behaviour)", _Q, seq(
        del_stmt("QuotientFilter", "_contained_at_loc", "if self._is_occupied[q] == 0"),
        replace_stmt("QuotientFilter", "check_alt", "return not self._contained_at_loc(", "if self._is_occupied[key_quotient] == 0:\n    return False\nreturn not self._contained_at_loc(key_quotient, key_remainder) == -1"),
        replace_expr("QuotientFilter", "add_alt", "self._contained_at_loc(key_quotient, key_remainder) == -1", "self._is_occupied[key_quotient] == 0 or self._contained_at_loc(key_quotient, key_remainder) == -1"),
        replace_stmt("QuotientFilter", "remove_alt", "self._remove_element(key_quotient, key_remainder)", "if self._is_occupied[key_quotient] == 1:\n    self._remove_element(key_quotient, key_remainder)")), expect="silent"),
    Mutant("occupied test hoisted from the lookup into check_alt and add_alt only: removal scans a foreign run", _Q, seq(
        del_stmt("QuotientFilter", "_contained_at_loc", "if self._is_occupied[q] == 0"),
        replace_stmt("QuotientFilter", "check_alt", "return not self._contained_at_loc(", "if self._is_occupied[key_quotient] == 0:\n    return False\nreturn not self._contained_at_loc(key_quotient, key_remainder) == -1"),
        replace_expr("QuotientFilter", "add_alt", "self._contained_at_loc(key_quotient, key_remainder) == -1", "self._is_occupied[key_quotient] == 0 or self._contained_at_loc(key_quotient, key_remainder) == -1")), rule="C04.lookup-within-run"),
    Mutant("elements_added bookkeeping moved from _remove_element into remove_alt, acting on its answer (same behaviour)", _Q, seq(
        replace_stmt("QuotientFilter", "remove_alt", "self._remove_element(key_quotient, key_remainder)", "if self._remove_element(key_quotient, key_remainder):\n    self._elements_added -= 1"),
        replace_stmt("QuotientFilter", "_remove_element", "self._elements_added -= 1", "pass"),
        replace_stmt("QuotientFilter", "_remove_element", "self._elements_added -= 1", "return True"),
        insert_stmt("QuotientFilter", "_remove_element", "return True", at_end=True)), expect="silent"),
    Mutant("elements_added bookkeeping moved into remove_alt, but the slow path answers None", _Q, seq(
        replace_stmt("QuotientFilter", "remove_alt", "self._remove_element(key_quotient, key_remainder)", "if self._remove_element(key_quotient, key_remainder):\n    self._elements_added -= 1"),
        replace_stmt("QuotientFilter", "_remove_element", "self._elements_added -= 1", "pass"),
        replace_stmt("QuotientFilter", "_remove_element", "self._elements_added -= 1", "return True")), rule="C04.counter"),
    Mutant("D14 re-introduced: the shifting walk of _remove_element loses its index bound", _Q,
           replace_expr("QuotientFilter", "_remove_element", "next_idx != min_idx and (not self._is_cluster_start(next_idx)) and (not self._is_empty_element(next_idx))",
                        "not self._is_cluster_start(next_idx) and (not self._is_empty_element(next_idx))"), rule="C04.remove-terminates"),
    Mutant("D14 half re-introduced: the re-marking pass is `while min_idx != next_idx` again (skipped when the cluster fills the table)", _Q,
           replace_stmt("QuotientFilter", "_remove_element", "for _ in range(", "while min_idx != next_idx:\n    if self._is_occupied[min_idx] == 1:\n        queue.append(min_idx)\n    if self._is_run_start(min_idx) == 1:\n        cur_quot = queue.pop(0)\n    if cur_quot == min_idx:\n        self._is_continuation[min_idx] = 0\n        self._is_shifted[min_idx] = 0\n        self._is_occupied[min_idx] = 1\n    min_idx = (min_idx + 1) & self.__mod_size"), rule="C04.remove-terminates"),
    Mutant("the index bound of the shifting walk written the other way round (same meaning)", _Q,
           replace_expr("QuotientFilter", "_remove_element", "next_idx != min_idx and (not self._is_cluster_start(next_idx)) and (not self._is_empty_element(next_idx))",
                        "min_idx != next_idx and (not self._is_cluster_start(next_idx)) and (not self._is_empty_element(next_idx))"), expect="silent"),
    Mutant("remainder mask cached by the constructor only (stale after resize)", _Q,
           seq(insert_stmt("QuotientFilter", "__init__", "self._rmask = (1 << (32 - quotient)) - 1", after="self.__set_params(quotient, auto_expand, hash_function)"),
               replace_expr("QuotientFilter", "check_alt", "(1 << self._r) - 1", "self._rmask")), rule="C04.geometry-lemma"),
    Mutant("remainder mask cached in __set_params (refreshed by resize, same meaning)", _Q,
           seq(insert_stmt("QuotientFilter", "__set_params", "self._rmask = (1 << (32 - quotient)) - 1", after="self._r: int = 32 - quotient"),
               replace_expr("QuotientFilter", "check_alt", "(1 << self._r) - 1", "self._rmask")), expect="silent"),
    Mutant("_shift_insert: shifted bit from the run start instead of the slot", _Q, replace_expr("QuotientFilter", "_shift_insert", "insert_idx != q", "orig_idx != q", nth=1), rule="C04.metadata-definition"),
    Mutant("_shift_insert: continuation bit compares the slot with the quotient", _Q, replace_expr("QuotientFilter", "_shift_insert", "insert_idx != orig_idx", "insert_idx != q"), rule="C04.metadata-definition"),
    Mutant("_shift_insert: occupied bit not set on the empty-slot path", _Q, del_stmt("QuotientFilter", "_shift_insert", "self._is_occupied[q] = 1"), rule="C04."),
    Mutant("_shift_insert: bits spelled int(a != b) (same meaning)", _Q, replace_expr("QuotientFilter", "_shift_insert", "1 if insert_idx != q else 0", "int(insert_idx != q)"), expect="silent"),
    Mutant("hashes: fall back to a run start instead of a cluster start when the table is full", _Q, replace_expr("QuotientFilter", "hashes", "self._is_cluster_start(i)", "self._is_run_start(i)"), rule="C04.scan-start"),
    Mutant("hashes: no fall-back when no slot is empty", _Q, replace_expr("QuotientFilter", "hashes", "self._is_cluster_start(i)", "False"), rule="C04.scan-start"),
    Mutant("_remove_element: next_idx = idx + 1 without the mask", _Q, replace_stmt("QuotientFilter", "_remove_element", "next_idx = idx + 1 & self.__mod_size", "next_idx = idx + 1"), rule="C04."),
    Mutant("_get_start_index walks left without the mask", _Q, replace_stmt("QuotientFilter", "_get_start_index", "j = j - 1 & self.__mod_size", "j = j - 1"), rule="C04."),
    Mutant("_shift_insert: continuation bit set at insert_idx + 1 unmasked", _Q, replace_expr("QuotientFilter", "_shift_insert", "insert_idx + 1 & self.__mod_size", "insert_idx + 1", nth=1), rule="C04."),
    Mutant("add_alt: _add unconditionally", _Q, replace_stmt("QuotientFilter", "add_alt", "if self._contained_at_loc(key_quotient, key_remainder) == -1", "self._add(key_quotient, key_remainder)"), rule="C04.no-dup"),
    Mutant("_remove_element uses the location without the -1 guard", _Q, replace_stmt("QuotientFilter", "_remove_element", "if idx == -1", "pass"), rule="C04."),
    Mutant("resize replaces the arrays before reading the hashes", _Q,
           replace_stmt("QuotientFilter", "resize", "hashes = self.get_hashes()", "self.__set_params(quotient, self._auto_resize, self._hash_func)\nhashes = self.get_hashes()"), rule="C04.reinsert"),
    Mutant("merge skips the first hash", _Q, replace_expr("QuotientFilter", "merge", "second.hashes()", "list(second.hashes())[1:]"), rule="C04.reinsert"),
    Mutant("mod_size = size", _Q, replace_stmt("QuotientFilter", "__set_params", "self.__mod_size: int = self._size - 1", "self.__mod_size: int = self._size"), rule="C04.geometry"),
    Mutant("one removal path forgets the counter", _Q, del_stmt("QuotientFilter", "_remove_element", "self._elements_added -= 1", nth=1), rule="C04.counter"),
    Mutant("lookup compares the remainder before the run-boundary test", _Q,
           seq(del_stmt("QuotientFilter", "_contained_at_loc", "if self._filter[start_idx] == r"),
               insert_stmt("QuotientFilter", "_contained_at_loc", "if self._filter[start_idx] == r:\n    return start_idx", before="if starts == 2 or")), rule="C04.lookup"),
    Mutant("lookup without the occupied test", _Q, del_stmt("QuotientFilter", "_contained_at_loc", "if self._is_occupied[q] == 0"), rule="C04.lookup"),
    Mutant("lookup run counter decremented", _Q, replace_stmt("QuotientFilter", "_contained_at_loc", "starts += 1", "starts -= 1"), rule="C04.lookup"),
    Mutant("lookup scans one run too far", _Q, replace_expr("QuotientFilter", "_contained_at_loc", "starts == 2", "starts == 3"), rule="C04.lookup"),
    Mutant("fast removal path leaves the quotient marked occupied", _Q, del_stmt("QuotientFilter", "_remove_element", "if remove_orig_idx"), rule="C04.run-emptied"),
    Mutant("main removal path leaves the quotient marked occupied", _Q, del_stmt("QuotientFilter", "_remove_element", "if remove_orig_idx", nth=1), rule="C04.run-emptied"),
    Mutant("mask spelled % size (same meaning)", _Q, replace_stmt("QuotientFilter", "_remove_element", "next_idx = idx + 1 & self.__mod_size", "next_idx = (idx + 1) % self._size"), expect="silent"),
]
