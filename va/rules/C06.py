"""C06 - exported bytes follow the documented C-compatible layout (layout description only)."""
from __future__ import annotations

import ast as _ast
import struct as _struct

from ..common import alloc_typecodes, nshow, outer_field, paths
from ..expr import C, SELF, canon, first_diff, mapx, norm, show, strip_epochs, walk
from ..model import AnalysisError
from .C05 import expand_format, emissions, footer_of
from .C18 import kernel_rules

EXPL = ("The layout facts quoted in the property are compared with the code in normal form: footer formats and field order "
        "(QQf: est, added, rate; IIq: width, depth, total; QQQf: count, est, added, rate; II: bucket size, max swaps) with the "
        "cell array first and the footer last; Bloom bit addressing (bit hash mod bits -> byte k//8, mask 1<<(k%8), "
        "length ceil(bits/8)); counting Bloom one uint32 cell per position; count-min cell (hash mod width) + row*width of "
        "int32; mean query sum//depth; mean-min formula bin - (N - bin)//(width-1) with the median rule; cuckoo buckets of "
        "bucket_size uint32 slots padded with 0 (counting: (fingerprint,count) pairs); seeded FNV-1a kernel; the default hash "
        "strategy of each structure.  That a C reader computes the same answers is the consequence, not a checked fact.")
FILES = ["blooms/bloom.py", "blooms/countingbloom.py", "blooms/expandingbloom.py", "countminsketch/countminsketch.py",
         "cuckoo/cuckoo.py", "cuckoo/countingcuckoo.py", "hashes.py"]

FOOTERS = {
    "BloomFilter": ("QQf", ["_est_elements", "_els_added", "_fpr"], 20, "B"),
    "CountingBloomFilter": ("QQf", ["_est_elements", "_els_added", "_fpr"], 20, "I"),
    "CountMinSketch": ("IIq", ["_CountMinSketch__width", "_CountMinSketch__depth", "_CountMinSketch__elements_added"], 16, "i"),
    "ExpandingBloomFilter": ("QQQf", ["len(_blooms)", "_ExpandingBloomFilter__est_elements", "_added_elements", "_ExpandingBloomFilter__fpr"], 28, "B"),
    "CuckooFilter": ("II", ["_bucket_size", "_CuckooFilter__max_cuckoo_swaps"], 8, "I"),
    "CountingCuckooFilter": ("II", ["_bucket_size", "_CuckooFilter__max_cuckoo_swaps"], 8, "I"),
}


def slot_name(a):
    a = strip_epochs(a)
    if a[0] == "f" and a[1] == SELF:
        return a[2]
    if a == ("call", ("g", "len"), (("f", SELF, "_blooms", 0),), ()):
        return "len(_blooms)"
    return nshow(a)


def check(prog, rep, tier):
    rep.extra["explanation"] = EXPL
    rep.rule("C06.footer", "documented footer format, field order and size; cells first, footer last", floor=6)
    rep.rule("C06.bloom-addressing", "bit k = hash mod bits lives in byte k//8 under mask 1<<(k%8); array length ceil(bits/8); counting: one uint32 per position", floor=4)
    rep.rule("C06.countmin-cell", "cell (hash mod width) + row*width of int32 counters", floor=2)
    rep.rule("C06.mean-queries", "mean = sum // depth ; mean-min = bin - (N - bin)//(width - 1) with median of the sorted values", floor=2)
    rep.rule("C06.cuckoo-buckets", "bucket_size 32-bit slots per bucket, padded with 0", floor=2)
    rep.rule("C06.fnv-kernel", "seeded FNV-1a 64/32 as published", floor=3)
    rep.rule("C06.text-keys", "keys are consumed as bytes / code points", floor=2)
    rep.rule("C06.default-hash", "each structure defaults to the documented FNV-1a strategy", floor=5)
    rep.trust("native struct alignment on x86-64 (sizes 20/16/28/8)")
    # ---------------------------------------------------------------- footers
    for ctx, (fmt, names, size, tc) in FOOTERS.items():
        f, em = emissions(prog, ctx)
        rep.analysed(f, ctx, 1)
        foot = footer_of(em)
        if foot is None:
            rep.bad("C06.footer", f"{ctx}.export", "no footer", "export writes no fixed footer", f.where())
            continue
        got = [slot_name(a) for a in foot[2]]
        last = em[-1] is foot
        cells_before = any(x[0] == "cells" and em.index(x) < em.index(foot) for x in em)
        okf = foot[1] == fmt and got == names and last and cells_before and _struct.calcsize(foot[1]) == size
        if okf:
            rep.ok("C06.footer", f"{ctx}: cells then '{fmt}' ({', '.join(names)}), {size} bytes")
        else:
            rep.bad("C06.footer", f"{ctx}.export", f"footer '{foot[1]}' {got}",
                    f"export writes footer '{foot[1]}' with fields {got} ({'last' if last else 'not last'}, cells {'before' if cells_before else 'missing before'} it); "
                    f"the documented layout is cells followed by '{fmt}' ({', '.join(names)}), {size} bytes", foot[4].where())
        if ctx == "ExpandingBloomFilter" and okf:
            # documented record per sub-filter: its uint64 element count immediately followed by its bit array
            inl = [x for x in em if x[-2] is True]
            shape = [x[0] for x in inl]
            okrec = shape == ["pack", "cells"] and expand_format(inl[0][1]) == "Q"
            if not okrec:
                rep.bad("C06.footer", f"{ctx}.export", f"records {[x[0] for x in em]}",
                        f"export emits {[x[0] for x in em]} (per sub-filter: {shape}); the documented layout is one record per sub-filter - its uint64 count "
                        "immediately followed by its bit array - and then the footer: an independent reader misplaces every array after the first", f.where())
            else:
                rep.ok("C06.footer", f"{ctx}: per sub-filter 'Q' count then its bit array")
        atc = alloc_typecodes(prog, ctx, {"CountMinSketch": "_bins"}.get(ctx, "_bloom")) if ctx in ("BloomFilter", "CountingBloomFilter", "CountMinSketch") else {tc}
        if atc != {tc}:
            rep.bad("C06.footer", f"{ctx}.__init__", f"cell typecode {sorted(atc)}", f"cells are allocated as array({sorted(atc)}), documented '{tc}'", f.where())
    # ---------------------------------------------------------------- Bloom addressing
    h = ("p", "hashes")
    for ctx in ("BloomFilter",):
        f = prog.method(ctx, "add_alt")
        good = False
        for p in paths(prog, ctx, f):
            for e in p.events:
                if e.kind == "setelem" and outer_field(e.cont) == "_bloom":
                    it = [n for n in walk(e.index) if n[0] == "it"]
                    if not it:
                        continue
                    k = ("bin", "%", ("sub", h, it[0], 0), ("f", SELF, "_num_bits", 0))
                    wi = norm(("bin", "//", k, C(8)))
                    wm = norm(("bin", "<<", C(1), ("bin", "%", k, C(8))))
                    wv = norm(("bin", "|", ("sub", ("f", SELF, "_bloom", 0), wi, 0), wm))
                    if canon(e.index) == canon(wi) and canon(e.value) == canon(wv):
                        good = True
                    else:
                        rep.bad("C06.bloom-addressing", f"{ctx}.add_alt", f"cells[{nshow(e.index)}] = {nshow(e.value)}",
                                f"add sets cells[{nshow(e.index)}] = {nshow(e.value)}; documented: k = hash mod bits, byte k//8, mask 1 << (k%8)", e.where())
                        good = None
        if good:
            rep.ok("C06.bloom-addressing", f"{ctx}.add_alt: k = hash % bits, byte k//8, mask 1<<(k%8)")
        elif good is False:
            rep.bad("C06.bloom-addressing", f"{ctx}.add_alt", "no store", "add_alt sets no bit", f.where())
        sv = prog.method(ctx, "_set_values")
        for p in paths(prog, ctx, sv):
            v = p.fields.get((SELF, "_bloom_length"))
            # ceil(bits / bits-per-cell), bits being what the same path stores as the number of bits
            nb = [("p", "n_bits")] + ([strip_epochs(p.fields[(SELF, "_num_bits")])] if (SELF, "_num_bits") in p.fields else [])
            wants = [canon(("call", ("ext", "math", "ceil"), (("bin", "/", x, ("f", SELF, "_bits_per_elm", 0)),), ())) for x in nb]
            if v is None or canon(strip_epochs(v)) not in wants:
                rep.bad("C06.bloom-addressing", f"{ctx}._set_values", f"length {nshow(v) if v else '?'}", "array length is not ceil(bits / bits-per-cell)", sv.where())
            else:
                rep.ok("C06.bloom-addressing", "length = ceil(bits / bits_per_elm)")
            break
    for ctx, want in (("BloomFilter", C(8.0)), ("CountingBloomFilter", C(1.0))):
        init = prog.cls(ctx).find_method("__init__")
        vals = set()
        for p in paths(prog, ctx, init, inline="deep"):
            if p.exit[0] == "return":
                for e in p.events:
                    if e.kind == "setfield" and e.name == "_bits_per_elm" and e.base == SELF:
                        last = e.value
                vals.add(last)
        if vals == {want}:
            rep.ok("C06.bloom-addressing", f"{ctx}: {want[1]} bits per cell")
        else:
            rep.bad("C06.bloom-addressing", f"{ctx}.__init__", f"bits per cell {sorted(nshow(v) for v in vals)}", f"bits per cell is {sorted(nshow(v) for v in vals)}, documented {want[1]}", init.where())
    # counting: one cell per position  (index = hash % bloom_length with bloom_length == bits)
    f = prog.method("CountingBloomFilter", "add_alt")
    okc = None
    for p in paths(prog, "CountingBloomFilter", f):
        for e in p.events:
            if e.kind == "setelem" and outer_field(e.cont) == "_bloom" and strip_epochs(e.cont)[1] == SELF:
                idx = strip_epochs(e.index)
                comp = idx[2] if idx[0] == "it" else (idx[1] if idx[0] == "sub" else None)
                while comp is not None and comp[0] == "call" and comp[1] == ("g", "enumerate"):
                    comp = comp[2][0]
                if comp is None or comp[0] != "comp":
                    okc = False
                    continue
                elt = comp[2]
                its = [n for n in walk(elt) if n[0] == "it"]
                want = ("bin", "%", ("sub", h, its[0], 0), ("f", SELF, "_bloom_length", 0)) if its else None
                okc = want is not None and canon(elt) == canon(want) if okc is not False else False
    fl = prog.method("CountingBloomFilter", "_load_init")
    lens = set()
    for p in paths(prog, "CountingBloomFilter", fl):
        for e in p.events:
            if e.kind == "setfield" and e.name == "_bloom_length" and e.base == SELF:
                lens.add(strip_epochs(e.value))
    lens = {v for v in lens}
    okl = all(v[0] == "sub" and v[1][0] == "ret" and v[1][1].endswith("_get_optimized_params") and v[2] == C(2) for v in lens) and lens
    if okc and okl:
        rep.ok("C06.bloom-addressing", "CountingBloomFilter: cell hash % bits, one uint32 per position")
    else:
        rep.bad("C06.bloom-addressing", "CountingBloomFilter.add_alt", "cell addressing", "counting Bloom does not use one cell per bit position (hash mod number of bits)", f.where())
    # ---------------------------------------------------------------- count-min cell and queries
    ctx = "CountMinSketch"
    from .C02 import cell_accesses, rf
    from ..common import CM_ANCHORS, apaths
    for fname in ("add_alt", "check_alt"):
        f = prog.method(ctx, fname)
        w = ("f", SELF, "_CountMinSketch__width", 0)
        forms = {rf(idx) for kind, idx, e, p in cell_accesses(apaths(prog, ctx, f, CM_ANCHORS))}
        want = canon(("bin", "+", ("bin", "%", ("it", "L", h), w), ("bin", "*", ("ix", "L", h), w)))
        if forms == {want}:
            rep.ok("C06.countmin-cell", f"{ctx}.{fname}")
        else:
            got = sorted(nshow(x) for x in forms)
            rep.bad("C06.countmin-cell", f"{ctx}.{fname}", f"cell {got}", f"cell index is {got}; documented (hash mod width) + row*width, row = position in hashes", f.where())
    res = ("p", "results")
    f = prog.method(ctx, "__mean_query")
    rv = {canon(p.exit[1]) for p in paths(prog, ctx, f) if p.exit[0] == "return"}
    want = canon(("bin", "//", ("call", ("g", "sum"), (res,), ()), ("f", SELF, "_CountMinSketch__depth", 0)))
    if rv == {want}:
        rep.ok("C06.mean-queries", "mean = sum(results) // depth")
    else:
        rep.bad("C06.mean-queries", f"{ctx}.__mean_query", f"returns {sorted(nshow(x) for x in rv)}", "the mean query is not sum // depth", f.where())
    f = prog.method(ctx, "__mean_min_query")
    ps = [p for p in paths(prog, ctx, f) if p.exit[0] == "return"]
    d = ("f", SELF, "_CountMinSketch__depth", 0)
    N = ("f", SELF, "_CountMinSketch__elements_added", 0)
    W = ("f", SELF, "_CountMinSketch__width", 0)
    okm = True
    seen = set()
    for p in ps:
        rvv = strip_epochs(p.exit[1])
        conds = [strip_epochs(c.atom) for c in p.conds]
        if rvv == C(0):
            z = [c for c in p.conds if c.truth and strip_epochs(c.atom) in (("cmp", "==", ("sub", res, C(0), 0), C(0)), ("cmp", "==", ("sub", res, C(-1), 0), C(0)))]
            # order-independent spellings of "every row value is 0": not any(results), max == 0 and min == 0 (counters may be negative, so both)
            anyz = [c for c in p.conds if not c.truth and strip_epochs(c.atom) == ("call", ("g", "any"), (res,), ())]
            from .C02 import callers_sort
            if anyz:
                continue
            if len(z) >= 2 and not callers_sort(prog):
                okm = False
                rep.bad("C06.mean-queries", f"{ctx}.__mean_min_query", "zero shortcut on an unsorted list",
                        "0 is returned when the first and the last row value are 0, and the callers no longer sort the row values: a key whose counters are 0 in the first and "
                        "last row only is answered 0 instead of its mean-min estimate", f.where(p.exit[2]))
                continue
            if len(z) < 2:
                okm = False
                rep.bad("C06.mean-queries", f"{ctx}.__mean_min_query", "zero shortcut", "0 is returned without both the smallest and the largest row value being 0", f.where(p.exit[2]))
            continue
        # the list the result indexes: per-row estimates, sorted
        conts = {strip_epochs(n[1]) for n in walk(rvv) if n[0] == "sub" and n[1][0] in ("newb", "call", "comp")}
        if len(conts) != 1:
            if any(c.atom[0] == "loop0" for c in p.conds):
                continue
            okm = False
            rep.bad("C06.mean-queries", f"{ctx}.__mean_min_query", "no per-row estimates", f"the result {nshow(rvv)} is not taken from one list of per-row estimates", f.where(p.exit[2]))
            break
        lst = next(iter(conts))
        a, is_sorted, where = None, False, f.where
        src = lst
        if lst[0] == "call" and lst[1] == ("g", "sorted") and len(lst[2]) == 1 and not lst[3]:
            is_sorted = True
            src = lst[2][0]
        if src[0] == "comp" and src[1] in ("list", "gen") and len(src[3]) == 1 and not src[3][0][3] and strip_epochs(src[3][0][2]) == res:
            a = strip_epochs(src[2])
        elif src[0] == "newb" and src[1] == "list":
            apps = [e for e in p.events if e.kind == "call" and e.name == "append" and e.loops and strip_epochs(e.recv) == src]
            other = [e for e in p.events if e.kind == "call" and e.name in ("insert", "extend", "pop", "remove", "clear") and e.d.get("recv") is not None
                     and strip_epochs(e.recv) == src]
            if len(apps) == 1 and not other:
                a = strip_epochs(apps[0].args[0])
                where = apps[0].where
        if not is_sorted:
            is_sorted = any(e.kind == "call" and e.name == "sort" and not e.loops and not e.kwargs and strip_epochs(e.recv) == src for e in p.events)
        if a is None:
            if any(c.atom[0] == "loop0" for c in p.conds):
                continue
            okm = False
            rep.bad("C06.mean-queries", f"{ctx}.__mean_min_query", "no per-row estimates", "no per-row estimate list is built from the row values", f.where())
            break
        tb = [n for n in walk(a) if n[0] == "it"]
        want = norm(("bin", "-", tb[0], ("bin", "//", ("bin", "-", N, tb[0]), ("bin", "-", W, C(1))))) if tb else None
        if want is None or canon(a) != canon(want) or strip_epochs(tb[0][2]) != res:
            okm = False
            rep.bad("C06.mean-queries", f"{ctx}.__mean_min_query", f"estimate {nshow(a)}", f"per-row estimate is {nshow(a)}; documented bin - (N - bin) // (width - 1) over all row values", where())
            break
        if not is_sorted:
            okm = False
            rep.bad("C06.mean-queries", f"{ctx}.__mean_min_query", "unsorted", "the per-row estimates are not sorted before the median is taken", f.where())
            break
        even = [c for c in p.conds if strip_epochs(c.atom) == ("cmp", "==", ("bin", "%", d, C(2)), C(0))]
        if not even:
            # other spellings of the parity test: depth % 2 (truthy = odd), depth % 2 != 0, depth % 2 == 1
            class _Even:
                def __init__(self, truth):
                    self.truth = truth
            for c in p.conds:
                a_ = strip_epochs(c.atom)
                m2 = ("bin", "%", d, C(2))
                if a_ == m2 or a_ in (("cmp", "!=", m2, C(0)), ("cmp", "==", m2, C(1))):
                    even = [_Even(not c.truth)]
        half = ("bin", "//", d, C(2))
        M = ("p", "<estimates>")
        m = lambda i: ("sub", M, i, 0)  # noqa: E731
        rvm = mapx(rvv, lambda n: M if n == lst else None)
        if even and even[0].truth:
            wantr = norm(("bin", "//", ("bin", "+", m(half), m(("bin", "-", half, C(1)))), C(2)))
            seen.add("even")
        elif even:
            wantr = m(half)
            seen.add("odd")
        else:
            wantr = None
        if wantr is None:
            # no parity branch on the path: the positions may come from a remembered pair that every writer of depth refreshes
            # (low, high = the two median positions, equal for an odd depth).  Decide both parities on the expanded value
            from ..common import expand_derived
            par = ("cmp", "==", ("bin", "%", d, C(2)), C(0))
            ok_par = {}
            for truth in (True, False):
                r_ = expand_derived(prog, ctx, rvv)
                r_ = mapx(r_, lambda n: (n[2] if truth else n[3]) if (n[0] == "phi" and strip_epochs(n[1]) == par) else None)
                r_ = norm(mapx(norm(r_), lambda n: M if n == lst else None))
                w_ = norm(("bin", "//", ("bin", "+", m(half), m(("bin", "-", half, C(1)))), C(2))) if truth else m(half)
                twice = norm(("bin", "//", ("bin", "+", m(half), m(half)), C(2)))  # (x + x) // 2 is x for the integer estimates
                ok_par[truth] = canon(r_) == canon(w_) or (not truth and canon(r_) == canon(twice))
            if all(ok_par.values()):
                seen |= {"even", "odd"}
                continue
        if wantr is None or canon(rvm) != canon(wantr):
            okm = False
            rep.bad("C06.mean-queries", f"{ctx}.__mean_min_query", f"median {nshow(rvv)}", f"the result {nshow(rvv)} is not the median of the sorted per-row estimates", f.where(p.exit[2]))
            break
    if okm and seen == {"even", "odd"}:
        rep.ok("C06.mean-queries", "mean-min = median(sorted(bin - (N - bin)//(width-1)))")
    elif okm:
        rep.bad("C06.mean-queries", f"{ctx}.__mean_min_query", f"cases {sorted(seen)}", "even and odd depth are not both handled", f.where())
    # ---------------------------------------------------------------- which estimator answers: the query-type setter
    K_ = prog.cls("CountMinSketch")
    qs = K_.setters.get("query_type")
    if qs is None:
        raise AnalysisError("anchor vanished: CountMinSketch.query_type setter")
    SLOT = "_CountMinSketch__query_method"
    WANT = {"mean": "_CountMinSketch__mean_query", "mean-min": "_CountMinSketch__mean_min_query", "min": "_CountMinSketch__min_query"}
    okq, nq = True, 0
    for p in paths(prog, "CountMinSketch", qs):
        if p.exit[0] != "return":
            continue
        nq += 1
        chosen = [strip_epochs(c.atom)[3][1] for c in p.conds if c.truth and strip_epochs(c.atom)[0] == "cmp" and strip_epochs(c.atom)[1] == "=="
                  and strip_epochs(c.atom)[3][0] == "c" and strip_epochs(c.atom)[3][1] in ("mean", "mean-min")]
        name = chosen[0] if chosen else "min"
        sets = [strip_epochs(e.value) for e in p.events if e.kind == "setfield" and e.base == SELF and e.name == SLOT]
        if sets and not chosen:
            # table form: {"mean": mean, "mean-min": mean_min}.get(name, min) - all three rows at once
            v_ = sets[-1]
            while v_[0] == "phi" and v_[3][0] == "bm" and v_[3][2] == WANT["min"]:
                v_ = v_[2]  # (... if val is not None else min)
            if v_[0] == "call" and v_[1][0] == "m" and v_[1][2] == "get" and v_[1][1][0] == "dct" and len(v_[2]) == 2:
                table = {k_[1]: m_[2] for k_, m_ in v_[1][1][1] if k_[0] == "c" and m_[0] == "bm"}
                dflt = v_[2][1][2] if v_[2][1][0] == "bm" else None
                if table == {"mean": WANT["mean"], "mean-min": WANT["mean-min"]} and dflt == WANT["min"]:
                    continue
        got = sets[-1][2] if sets and sets[-1][0] == "bm" else None
        if got != WANT[name]:
            rep.bad("C06.mean-queries", "CountMinSketch.query_type", f"'{name}' selects {got or 'nothing'}",
                    f"on the path that amounts to query type '{name}' the setter leaves the estimator slot {'as it was' if not sets else 'at ' + str(got)}, expected {WANT[name].replace('_CountMinSketch', '')}: "
                    "the sketch goes on answering with the previous estimator (mean-min estimates lie below the true count)", qs.where())
            okq = False
            break
        # a remembered name must name the estimator that was selected
        for e in p.events:
            if e.kind == "setfield" and e.base == SELF and e.name != SLOT and strip_epochs(e.value)[0] == "c" and strip_epochs(e.value)[1] in WANT and strip_epochs(e.value)[1] != name:
                rep.bad("C06.mean-queries", "CountMinSketch.query_type", f"remembers '{strip_epochs(e.value)[1]}' for '{name}'",
                        f"the setter remembers the name '{strip_epochs(e.value)[1]}' on the path that selects the '{name}' estimator", e.where())
                okq = False
    if okq and nq:
        rep.ok("C06.mean-queries", f"CountMinSketch.query_type: mean / mean-min / anything else -> their estimators ({nq} paths)")
    # ---------------------------------------------------------------- cuckoo buckets
    f, em = emissions(prog, "CuckooFilter")
    cells = [x for x in em if x[0] == "cells"]
    okb = False
    if cells and cells[0][2]:
        recv = cells[0][1]
        ev = cells[0][3]
        # recv: array(tc, bucket) extended with [0] * (bucket_size - len)
        p_ev = None
        okb = recv[0] == "newb" and recv[1] == "array" and recv[3][0] == C("I")
        if okb:
            from ..walk import Walker
            w = Walker(prog, "CuckooFilter", inline="deep")
            from .C05 import EXTFILE
            ok2 = False
            for p in w.run(f, args={"file": EXTFILE}):
                for e in p.events:
                    if e.kind == "call" and e.name == "extend" and e.recv is not None and e.recv[0] == "newb" and e.args:
                        a = strip_epochs(e.args[0])
                        want = norm(("bin", "*", ("lst", (C(0),)), ("bin", "-", ("f", SELF, "_bucket_size", 0), ("call", ("g", "len"), (e.recv,), ()))))
                        ok2 = canon(a) == canon(want)
            okb = ok2
    parts = [strip_epochs(x[1]) for x in cells if x[2]]
    if not okb and len(parts) == 1 and parts[0][0] == "bin" and parts[0][1] == "+":
        parts = [parts[0][2], parts[0][3]]  # one write of <words> + <zero tail>
    if not okb and len(parts) == 2:
        # the other spelling: the bucket's own words, then the tail of a zero block of bucket_size words starting at len(bucket)
        a_, b_ = parts
        bsz = ("f", SELF, "_bucket_size", 0)

        def words_of_bucket(v):
            if v[0] == "phi":
                return words_of_bucket(v[2]) and words_of_bucket(v[3])
            if v[0] == "newb" and v[1] == "array" and len(v[3]) == 2 and v[3][0] == C("I"):
                return v[3][1][0] == "it"
            return v[0] == "it"  # a bucket that already is an array
        zeros_ok = b_[0] == "slice" and b_[3] == C(None) and b_[4] in (C(None), C(1)) and b_[2][0] == "call" and b_[2][1] == ("g", "len") \
            and b_[1][0] == "nary" and b_[1][1] == "*" and bsz in b_[1][2] \
            and any(x[0] == "newb" and x[1] == "array" and len(x[3]) == 2 and x[3][0] == C("I") and x[3][1] == ("lst", (C(0),)) for x in b_[1][2])
        okb = words_of_bucket(a_) and zeros_ok
    if okb:
        rep.ok("C06.cuckoo-buckets", "CuckooFilter.export: array('I', bucket) padded with 0 to bucket_size")
    else:
        rep.bad("C06.cuckoo-buckets", "CuckooFilter.export", "bucket emission", "buckets are not written as bucket_size uint32 slots padded with 0", f.where())
    bd = prog.method("CountingCuckooFilter", "__bucket_decomposition")
    okd = False
    for p in paths(prog, "CountingCuckooFilter", bd):
        fl_ = [e for e in p.events if e.kind == "call" and e.name == "fromlist" and e.args]
        ex = [e for e in p.events if e.kind == "call" and e.name == "extend" and e.args]
        fl_ = fl_ or [e for e in p.events if e.kind == "call" and e.name == "extend" and e.args and e.loops and len(e.loops) == 1 and strip_epochs(e.args[0])[0] in ("nary", "comp", "bin")
                      and any(n == C(0) for n in walk(e.args[0]))]
        if fl_ and ex:
            a = strip_epochs(fl_[0].args[0])
            lid = fl_[0].loops[0]
            want_len = ("bin", "*", ("bin", "-", ("p", "bucket_size"), ("call", ("g", "len"), (("it", lid, ("p", "buckets")),), ())), C(2))
            def zero_words(v):
                """number of words of a sequence that is all zeros (an expression), or None"""
                if v[0] == "lst" and v[1] and all(x == C(0) for x in v[1]):
                    return C(len(v[1]))
                if v[0] == "newb" and v[1] == "array" and len(v[3]) == 2 and v[3][0] == C("I"):
                    return zero_words(v[3][1])
                if v[0] == "comp" and v[2] == C(0) and len(v[3]) == 1 and not v[3][0][3]:
                    d = v[3][0][2]
                    return d[2][0] if d[0] == "call" and d[1] == ("g", "range") and len(d[2]) == 1 else None
                if v[0] in ("nary", "bin") and v[1] == "*":
                    fs = list(v[2]) if v[0] == "nary" else [v[2], v[3]]
                    zs = [(x, zero_words(x)) for x in fs if x[0] in ("lst", "newb", "comp")]
                    zs = [(x, n) for x, n in zs if n is not None]
                    if len(zs) == 1:
                        rest = [x for x in fs if x is not zs[0][0]]
                        acc = zs[0][1]
                        for x in rest:
                            acc = ("bin", "*", acc, x)
                        return norm(acc)
                return None
            zw = zero_words(a)
            okd = zw is not None and canon(zw) == canon(want_len)
            okd = okd and fl_[0].recv[0] == "newb" and fl_[0].recv[3][0] == C("I")
    if okd:
        rep.ok("C06.cuckoo-buckets", "CountingCuckooFilter: (fingerprint, count) uint32 pairs, padded with 2*(bucket_size-len) zeros")
    else:
        rep.bad("C06.cuckoo-buckets", "CountingCuckooFilter.__bucket_decomposition", "bucket emission", "bins are not written as uint32 pairs padded with zeros to bucket_size", bd.where())
    # ---------------------------------------------------------------- hashing
    kernel_rules(prog, rep, "C06")
    # decided on the constructor with its helpers looked through (whatever they are called): the functions that can end up in the
    # strategy field when the caller passes none
    defaults = {"BloomFilter": ("_hash_func", "default_fnv_1a"), "CountMinSketch": ("_hash_function", "default_fnv_1a"),
                "ExpandingBloomFilter": ("_ExpandingBloomFilter__hash_func", "default_fnv_1a"),
                "CuckooFilter": ("_CuckooFilter__hash_func", "fnv_1a"), "QuotientFilter": ("_hash_func", "fnv_1a_32")}
    for ctx, (fld, want) in defaults.items():
        f = prog.method(ctx, "__init__")
        vals = set()
        for p in paths(prog, ctx, f, inline="deep"):
            if p.exit[0] != "return":
                continue
            for e in p.events:
                if e.kind == "setfield" and e.base == SELF and e.name == fld:
                    for n in walk(e.value):
                        if n[0] == "func":
                            vals.add(n[1].split(".")[-1])
        if vals == {want}:
            rep.ok("C06.default-hash", f"{ctx}: default {want}")
        else:
            rep.bad("C06.default-hash", f"{ctx}.__init__", f"default {sorted(vals)}", f"the default hash strategy is {sorted(vals)}, documented {want}", f.where())


from ..selftest import Mutant, del_stmt, insert_stmt, replace_class_const, replace_expr, replace_stmt, seq

_B, _CB, _E, _CM, _CK, _CC, _H = ("blooms/bloom.py", "blooms/countingbloom.py", "blooms/expandingbloom.py", "countminsketch/countminsketch.py",
                                  "cuckoo/cuckoo.py", "cuckoo/countingcuckoo.py", "hashes.py")
_CMS = "countminsketch/countminsketch.py"
MUTANTS = [
    Mutant("callers stop sorting; the mean-min zero shortcut still looks at the first and last value only", _CMS, seq(
        replace_expr("CountMinSketch", "add_alt", "sorted(vals)", "vals"),
        replace_expr("CountMinSketch", "remove_alt", "sorted(vals)", "vals"),
        replace_expr("CountMinSketch", "check_alt", "sorted([self._bins[i] for i in bins])", "[self._bins[i] for i in bins]"),
        replace_expr("CountMinSketch", "__min_query", "results[0]", "min(results)")), rule="C06.mean-queries"),
    Mutant("callers stop sorting; the zero shortcut becomes `not any(results)` (same answers)", _CMS, seq(
        replace_expr("CountMinSketch", "add_alt", "sorted(vals)", "vals"),
        replace_expr("CountMinSketch", "remove_alt", "sorted(vals)", "vals"),
        replace_expr("CountMinSketch", "check_alt", "sorted([self._bins[i] for i in bins])", "[self._bins[i] for i in bins]"),
        replace_expr("CountMinSketch", "__min_query", "results[0]", "min(results)"),
        replace_expr("CountMinSketch", "__mean_min_query", "results[0] == 0 and results[-1] == 0", "not any(results)")), expect="silent"),
    Mutant("fnv_1a_32: 31 * seed -> 32 * seed", _H, replace_expr(None, "fnv_1a_32", "31 * seed", "32 * seed"), rule="C06.fnv"),
    Mutant("fnv_1a: multiply before xor", _H, replace_stmt(None, "fnv_1a", "hval ^= t_str", "hval = hval * fnv_64_prime ^ t_str\nhval = hval // fnv_64_prime * fnv_64_prime"), rule="C06.fnv"),
    Mutant("mean-min: width - 1 -> width + 1", _CM, replace_expr("CountMinSketch", "__mean_min_query", "self.width - 1", "self.width + 1"), rule="C06.mean"),
    Mutant("mean-min as a comprehension (same meaning)", _CM,
           seq(replace_stmt("CountMinSketch", "__mean_min_query", "meanmin = []", "meanmin = [t_bin - (self.elements_added - t_bin) // (self.width - 1) for t_bin in results]"), del_stmt("CountMinSketch", "__mean_min_query", "for t_bin in results")), expect="silent"),
    Mutant("mean-min comprehension dividing by width", _CM,
           seq(replace_stmt("CountMinSketch", "__mean_min_query", "meanmin = []", "meanmin = [t_bin - (self.elements_added - t_bin) // self.width for t_bin in results]"), del_stmt("CountMinSketch", "__mean_min_query", "for t_bin in results")), rule="C06.mean"),
    Mutant("mean-min: sort dropped", _CM, del_stmt("CountMinSketch", "__mean_min_query", "meanmin.sort()"), rule="C06.mean"),
    Mutant("mean-min: odd median off by one", _CM, replace_stmt("CountMinSketch", "__mean_min_query", "res = meanmin[self.depth // 2]", "res = meanmin[self.depth // 2 - 1]"), rule="C06.mean"),
    Mutant("mean-min: zero shortcut tests only the smallest", _CM, replace_expr("CountMinSketch", "__mean_min_query", "results[0] == 0 and results[-1] == 0", "results[0] == 0"), rule="C06.mean"),
    Mutant("mean: true division", _CM, replace_expr("CountMinSketch", "__mean_query", "sum(results) // self.depth", "int(sum(results) / self.depth + 0.5)"), rule="C06.mean"),
    Mutant("expanding export writes each bit array before its count", "blooms/expandingbloom.py",
           seq(del_stmt("ExpandingBloomFilter", "export", "filepointer.write(self.__S_INT64_STRUCT.pack(blm.elements_added))"),
               insert_stmt("ExpandingBloomFilter", "export", "filepointer.write(self.__S_INT64_STRUCT.pack(blm.elements_added))", after="blm.bloom.tofile(filepointer)")),
           rule="C06.footer"),
    Mutant("Bloom export writes the footer first", _B, replace_stmt("BloomFilter", "export", "self._bloom.tofile(file)", "pass"), rule="C06.footer"),
    Mutant("count-min footer packs depth first", _CM, replace_expr("CountMinSketch", "export", "self.__FOOTER_STRUCT.pack(self.width, self.depth, self.elements_added)", "self.__FOOTER_STRUCT.pack(self.depth, self.width, self.elements_added)"), rule="C06.footer"),
    Mutant("count-min footer struct IIq -> IIQ", _CM, replace_class_const("CountMinSketch", "__FOOTER_STRUCT", "Struct('IIQ')"), rule="C06.footer"),
    Mutant("cuckoo pads with 0xFFFFFFFF", _CK, replace_expr("CuckooFilter", "export", "[0] * (self.bucket_size - len(bucket))", "[4294967295] * (self.bucket_size - len(bucket))"), rule="C06.cuckoo"),
    Mutant("quotient filter defaults to the 64-bit hash", _CK.replace("cuckoo/cuckoo.py", "quotientfilter/quotientfilter.py"), replace_expr("QuotientFilter", "__set_params", "fnv_1a_32 if hash_function is None else hash_function", "fnv_1a if hash_function is None else hash_function"), rule="C06.default"),
    Mutant("add and check both use bit-reversed masks (agree with each other, not with the layout)", _B,
           replace_expr("BloomFilter", "add_alt", "1 << k % 8", "128 >> k % 8"), rule="C06.bloom"),
    Mutant("counting Bloom bits per cell 1.0 -> 4.0", _CB, replace_stmt("CountingBloomFilter", "_load_init", "self._bits_per_elm = 1.0", "self._bits_per_elm = 4.0"), rule="C06.bloom"),
]
