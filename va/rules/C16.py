"""C16 - counters saturate: every store into a fixed-width counter cell or element total is bounded (E5)."""
from __future__ import annotations

from ..common import all_events, apaths, cell_range_fn, class_of_root, conds_at, all_conds, nshow, outer_field, own_methods, paths, typed_fields
from ..expr import SELF, root_of, show, strip_epochs, walk
from ..intervals import Intervals, TYPE_RANGE, fmt_iv, within
from ..model import AnalysisError

EXPL = ("Interval analysis (abstract interpretation over the reconstructed value of every store, refined by the path "
        "condition; cells re-read at every use) of every element store into an array('I')/array('i') field and every "
        "store of an element total in countingbloom.py and countminsketch.py.  Obligation: the stored value lies in the "
        "cell's typecode range (upper bound for unsigned cells, both bounds for signed cells and 64-bit totals) on every "
        "path, assuming num_els >= 1 and cells/totals in range at entry; a pinned counting-Bloom cell is never decremented.")

# context -> (total field, range at entry, footer slot range, check lower bound)
TOTALS = {
    "CountingBloomFilter": ("_els_added", (0, 2**64 - 1), (0, 2**64 - 1)),
    "CountMinSketch": ("_CountMinSketch__elements_added", (-2**63, 2**63 - 1), (-2**63, 2**63 - 1)),
}
SUBCTX = {"CountMinSketch": ["CountMeanSketch", "CountMeanMinSketch", "HeavyHitters", "StreamThreshold"]}
LOADERS = {"__init__", "_load_init", "_load", "_load_hex", "_parse_bytes", "_parse_bloom_array", "frombytes", "_set_values",
           "_CountMinSketch__load", "clear"}


def _is_decrement(value, cont) -> bool:
    """value == <read of same container> - x, possibly pinned: max(<read> - x, 0)"""
    if value[0] == "call" and value[1] == ("g", "max") and len(value[2]) == 2:
        inner = [x for x in value[2] if not (x[0] == "c")]
        if len(inner) == 1:
            value = inner[0]
    if value[0] == "bin" and value[1] == "-":
        a = value[2]
        return a[0] == "sub" and outer_field(a[1]) == outer_field(cont)
    return False


def _clamped_decrement(value, cont) -> bool:
    """value == cell - min(x, cell) for one and the same read of the cell: never below 0"""
    v = strip_epochs(value)
    if v[0] == "bin" and v[1] == "-" and v[2][0] == "sub" and outer_field(v[2][1]) == outer_field(cont):
        m = v[3]
        return m[0] == "call" and m[1] == ("g", "min") and any(strip_epochs(x) == v[2] for x in m[2])
    return False


def check(prog, rep, tier):
    rep.extra["explanation"] = EXPL
    rep.rule("C16.cell-store-bounded", "every element store into a typed counter array stays inside the typecode range", floor=5)
    rep.rule("C16.total-bounded", "the element total left by a mutator lies in the 64-bit range of its footer slot", floor=6)
    rep.rule("C16.saturation-limit", "a cell or the element total is pinned only at a limit of its storage (typecode range / footer slot range)", floor=4)
    rep.rule("C16.pinned-not-decremented", "a counting-Bloom cell is decremented only where its interval excludes the limit", floor=1)
    rep.assume("num_els >= 1 (the property's quantifier: amounts 1 .. beyond 2^64)")
    rep.assume("class invariant at entry: every cell is inside its typecode range, every total inside its footer slot range")
    rep.trust("CPython: array stores raise OverflowError outside the typecode range; int arithmetic is unbounded")
    contexts = ["CountingBloomFilter", "CountMinSketch"]
    if tier == "thorough":
        contexts += SUBCTX["CountMinSketch"]
    seen_sites = {}
    for ctx in contexts:
        base = "CountMinSketch" if prog.cls(ctx).is_subclass_of("CountMinSketch") else "CountingBloomFilter"
        tot_field, tot_entry, tot_slot = TOTALS[base]
        types = typed_fields(prog, ctx)
        counter_fields = {f for f, tcs in types.items() if tcs & {"I", "i"}}
        if not counter_fields:
            raise AnalysisError(f"anchor vanished: no array('I'/'i') counter field allocated in context {ctx}")
        for tcs in (types[f] for f in counter_fields):
            if len(tcs) != 1:
                raise AnalysisError(f"counter field allocated with several typecodes {tcs} in {ctx}")
        crange = cell_range_fn(prog, ctx)
        funcs = own_methods(prog, ctx) if ctx in ("CountingBloomFilter", "CountMinSketch") else \
            [f for f in own_methods(prog, ctx)] + [f for f in own_methods(prog, "CountMinSketch") if f.src_name in ("add_alt", "remove_alt", "join")]
        for f in funcs:
            if f.kind == "classmethod" or f.src_name in ("__init__",):
                continue
            ps = apaths(prog, ctx, f)
            rep.analysed(f, ctx, len(ps))
            params = {"num_els": (1, None)}

            def field_range(b, name, _t=tot_field, _e=tot_entry):
                if name == _t:
                    return _e
                return None
            # --- element stores
            site_ok = {}
            site_ev = {}
            for p, e in all_events(ps, "setelem"):
                fld = outer_field(e.cont)
                cn = class_of_root(prog, ctx, e.cont)
                if fld not in counter_fields or cn is None or not prog.cls(cn).is_subclass_of(base):
                    continue
                rng = crange(e.cont)
                if rng is None:
                    continue
                ivs = Intervals(conds_at(p, e), params, crange, field_range)
                # a slice store writes a block: the obligation is on the elements of the stored sequence
                iv = ivs.elem_iv(e.value) if e.index[0] == "slc" else ivs.iv(e.value)
                unsigned = rng[0] == 0
                ok = True
                why = ""
                if rng[1] is not None and (iv[1] is None or iv[1] > rng[1]):
                    ok = False
                    why = f"upper bound {fmt_iv(iv)} exceeds {fmt_iv(rng)}"
                if not unsigned and (iv[0] is None or iv[0] < rng[0]):
                    ok = False
                    why = f"lower bound {fmt_iv(iv)} below {fmt_iv(rng)}"
                if unsigned and (iv[0] is None or iv[0] < 0) and not _clamped_decrement(e.value, e.cont):
                    ok = False
                    why = f"lower bound {fmt_iv(iv)} below 0" + (": the cell is lowered by an amount that is bounded by the cells as read before the loop, not by this cell as it is now "
                                                                   "(two hashes selecting the same cell lower it twice)" if _is_decrement(e.value, e.cont) else "")
                k = (f.qualname, id(e.node))
                site_ok[k] = site_ok.get(k, True) and ok
                site_ev.setdefault(k, (e, iv, rng, why))
                if not ok:
                    site_ev[k] = (e, iv, rng, why)
                # pinned cell
                if unsigned and _is_decrement(e.value, e.cont):
                    dv = e.value
                    if dv[0] == "call":
                        dv = [x for x in dv[2] if x[0] != "c"][0]
                    rd = dv[2]
                    riv = Intervals(conds_at(p, e), params, crange, field_range).iv(rd)
                    pk = ("pin",) + k
                    good = riv[1] is not None and riv[1] < rng[1]
                    site_ok[pk] = site_ok.get(pk, True) and good
                    site_ev[pk] = (e, riv, rng, f"cell interval {fmt_iv(riv)} at the decrement does not exclude the limit")
            for k, ok in site_ok.items():
                e, iv, rng, why = site_ev[k]
                rid = "C16.pinned-not-decremented" if k[0] == "pin" else "C16.cell-store-bounded"
                gk = (rid, f.qualname, id(e.node))
                if gk in seen_sites and tier != "thorough":
                    continue
                seen_sites[gk] = ok
                what = f"{ctx}.{f.src_name}: {nshow(e.cont)}[*] = {nshow(e.value)} in {fmt_iv(iv)}"
                if ok:
                    rep.ok(rid, what, {"interval": fmt_iv(iv), "range": fmt_iv(rng), "loc": e.where()})
                else:
                    rep.bad(rid, f"{ctx}.{f.src_name}", f"{nshow(e.cont)}[*] = {nshow(e.value)}",
                            f"store into counter cell is not bounded: {why}", e.where())
            # --- a counter array that is replaced keeps its typecode: the range proofs above (and the export format) are per typecode
            for p in ps:
                for e in p.events:
                    if e.kind == "setfield" and e.base == SELF and e.name in counter_fields:
                        v_ = strip_epochs(e.value)
                        arrs = [n for n in ([v_] if v_[0] == "newb" else [x for x in (v_[2] if v_[0] == "nary" else ()) if isinstance(x, tuple) and x and x[0] == "newb"]) if n[1] == "array" and n[3] and n[3][0][0] == "c"]
                        for a_ in arrs:
                            k = ("tc", f.qualname, id(e.node))
                            if a_[3][0][1] not in types[e.name] and k not in seen_sites:
                                seen_sites[k] = False
                                rep.bad("C16.cell-store-bounded", f"{ctx}.{f.src_name}", f"{e.name} = array({a_[3][0][1]!r}, ...)",
                                        f"{f.src_name} replaces the counter array by an array({a_[3][0][1]!r}), allocated as {sorted(types[e.name])}: the cells no longer saturate at the "
                                        "limits of the documented counter width, and the export writes cells of another size", e.where())
            # --- a counter is pinned at the END of its range, nowhere else: every large constant a mutator stores into a cell or into
            # the total is one of the two limits of that storage (a clamp at 2**31-1 for the 64-bit total, or at limit-1, "saturates"
            # at a value the documented format does not call for)
            BIG = 2**31 - 2
            for p in ps:
                for e in p.events:
                    lim = None
                    if e.kind == "setelem" and outer_field(e.cont) in counter_fields:
                        cn_ = class_of_root(prog, ctx, e.cont)
                        if cn_ is not None and prog.cls(cn_).is_subclass_of(base):
                            lim = crange(e.cont)
                    elif e.kind == "setfield" and e.base == SELF and e.name == tot_field:
                        lim = tot_slot
                    if lim is None:
                        continue
                    def pins(v):
                        """the constants the stored value can be pinned at: the value itself, or the bounds of the min / max (or conditional) it ends in"""
                        if v[0] == "c":
                            return [v[1]] if isinstance(v[1], int) and not isinstance(v[1], bool) else []
                        if v[0] == "call" and v[1] in (("g", "min"), ("g", "max")):
                            return [c_ for a_ in v[2] for c_ in pins(a_)]
                        if v[0] == "phi":
                            return pins(v[2]) + pins(v[3])
                        return []
                    big = [c_ for c_ in pins(strip_epochs(e.value)) if abs(c_) >= BIG]
                    k = ("sat", f.qualname, id(e.node))
                    off = [c_ for c_ in big if c_ not in lim]
                    if off and k not in seen_sites:
                        seen_sites[k] = False
                        what_ = "the element total" if e.kind == "setfield" else f"a cell of {outer_field(e.cont)}"
                        rep.bad("C16.saturation-limit", f"{ctx}.{f.src_name}", f"{what_} pinned at {off[0]}",
                                f"{what_} is clamped / set to {off[0]}, which is not a limit of its storage {fmt_iv(lim)}: the counter saturates at a value of its own", e.where())
                    elif big and k not in seen_sites:
                        seen_sites[k] = True
                        rep.ok("C16.saturation-limit", f"{ctx}.{f.src_name}: pinned at {sorted(set(big))}")
            # --- totals at normal exits
            if f.src_name in LOADERS and f.src_name != "clear":
                continue
            tot_ok = None
            bad_info = None
            for p in ps:
                if not p.exit or p.exit[0] != "return":
                    continue
                v = p.fields.get((SELF, tot_field))
                if v is None:
                    continue
                ivs = Intervals(all_conds(p), params, crange, field_range)
                iv = ivs.iv(v)
                lo_needed = tot_slot[0] if base == "CountMinSketch" else None
                ok = iv[1] is not None and iv[1] <= tot_slot[1]
                if lo_needed is not None:
                    ok = ok and iv[0] is not None and iv[0] >= lo_needed
                elif (iv[0] is None or iv[0] < 0):
                    # unsigned total: it is packed into an unsigned footer slot, so it must be pinned at 0 (max(total - x, 0)); a bare
                    # decrement can take the estimate a union left there below 0, after which the structure cannot be exported
                    ok = False
                tot_ok = ok if tot_ok is None else (tot_ok and ok)
                if not ok and bad_info is None:
                    bad_info = (v, iv, p)
                elif ok and bad_info is None:
                    good_info = (v, iv)
            if tot_ok is None:
                continue
            if tot_ok:
                rep.ok("C16.total-bounded", f"{ctx}.{f.src_name}: total = {nshow(good_info[0])} in {fmt_iv(good_info[1])}")
            else:
                v, iv, p = bad_info
                loc = f.where(p.exit[2]) if p.exit[2] is not None else f.where()
                rep.bad("C16.total-bounded", f"{ctx}.{f.src_name}", f"self.{tot_field} = {nshow(v)}",
                        f"element total left in {fmt_iv(iv)}, outside the footer slot range {fmt_iv(tot_slot)}", loc)


# ----------------------------------------------------------------------------- self-test variants
import ast as _ast
from ..selftest import Mutant, del_stmt, insert_stmt, replace_expr, replace_stmt, seq, swap_cmp

FILES = ["blooms/countingbloom.py", "countminsketch/countminsketch.py"]
_CB, _CM = "blooms/countingbloom.py", "countminsketch/countminsketch.py"
MUTANTS = [
    Mutant("D17 re-introduced: counting remove_alt lowers the cell by the unclamped amount", _CB,
           replace_stmt("CountingBloomFilter", "remove_alt", "self._bloom[k] -= min(to_remove, self._bloom[k])", "self._bloom[k] -= to_remove"), rule="C16.cell"),
    Mutant("D18 re-introduced: counting remove_alt lets the total go below 0", _CB,
           replace_stmt("CountingBloomFilter", "remove_alt", "self.elements_added = max(self.elements_added - to_remove, 0)", "self.elements_added -= to_remove"), rule="C16.total"),
    Mutant("counting remove_alt clamps the cell with max(cell - amount, 0) (same meaning)", _CB,
           replace_stmt("CountingBloomFilter", "remove_alt", "self._bloom[k] -= min(to_remove, self._bloom[k])", "self._bloom[k] = max(self._bloom[k] - to_remove, 0)"), expect="silent"),
    Mutant("count-min remove: total pinned one above the lower limit", _CM, replace_stmt("CountMinSketch", "remove_alt", "self.__elements_added = INT64_T_MIN", "self.__elements_added = INT64_T_MIN + 1"), rule="C16.saturation-limit"),
    Mutant("count-min add: cell pinned at 2**31 - 2", _CM, replace_stmt("CountMinSketch", "add_alt", "self._bins[idx] = INT32_T_MAX", "self._bins[idx] = INT32_T_MAX - 1"), rule="C16."),
    Mutant("D3 re-introduced: clamp test on a snapshot taken before the loop", _CB,
           seq(insert_stmt("CountingBloomFilter", "add_alt", "snap = [self._bloom[k] + num_els for k in indices]", before="for i, k in"),
               replace_expr("CountingBloomFilter", "add_alt", "v > UINT32_T_MAX", "snap[i] > UINT32_T_MAX")), rule="C16.cell"),
    Mutant("counting add_alt: clamp deleted", _CB, del_stmt("CountingBloomFilter", "add_alt", "if v > UINT32_T_MAX"), rule="C16.cell"),
    Mutant("D4 re-introduced in union", _CB, replace_expr("CountingBloomFilter", "union", "min(tmp, UINT32_T_MAX)", "tmp"), rule="C16.cell"),
    Mutant("D4 re-introduced in intersection", _CB, replace_expr("CountingBloomFilter", "intersection", "min(tmp, UINT32_T_MAX)", "tmp"), rule="C16.cell"),
    Mutant("counting remove_alt: guard < -> <=", _CB, swap_cmp("CountingBloomFilter", "remove_alt", _ast.Lt, _ast.LtE), rule="C16.pinned"),
    Mutant("counting add_alt: total not clamped", _CB,
           replace_expr("CountingBloomFilter", "add_alt", "min(self.elements_added + num_els, UINT64_T_MAX)", "self.elements_added + num_els"), rule="C16.total"),
    Mutant("count-min add_alt: clamp branch stores the raw value", _CM,
           replace_stmt("CountMinSketch", "add_alt", "self._bins[idx] = INT32_T_MAX", "self._bins[idx] = val"), rule="C16.cell"),
    Mutant("count-min remove_alt: lower clamp test > -> >= on the wrong constant", _CM,
           replace_expr("CountMinSketch", "remove_alt", "val > INT32_T_MIN", "val > INT64_T_MIN"), rule="C16.cell"),
    Mutant("count-min join: upper clamp dropped", _CM,
           replace_expr("CountMinSketch", "join", "tmp_els > INT32_T_MAX", "tmp_els > INT64_T_MAX"), rule="C16.cell"),
    Mutant("count-min add_alt: total clamp deleted", _CM, del_stmt("CountMinSketch", "add_alt", "if self.elements_added > INT64_T_MAX"), rule="C16.total"),
    Mutant("count-min join: total lower clamp deleted", _CM,
           replace_expr("CountMinSketch", "join", "self.elements_added < INT64_T_MIN", "self.elements_added < INT64_T_MIN - 1"), rule="C16.total"),
    Mutant("clamp test v > LIMIT -> v >= LIMIT (behaviour preserving)", _CB,
           replace_expr("CountingBloomFilter", "add_alt", "v > UINT32_T_MAX", "v >= UINT32_T_MAX"), expect="silent"),
    Mutant("count-min clamp val > MAX -> val >= MAX (behaviour preserving)", _CM,
           replace_expr("CountMinSketch", "add_alt", "val > INT32_T_MAX", "val >= INT32_T_MAX"), expect="silent"),
]
