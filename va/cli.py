"""./check <ID> [--tier quick|thorough] [--replay path] [--root dir]"""
from __future__ import annotations

import argparse
import importlib
import json
import os
import sys
import traceback

from .model import AnalysisError, Program
from .report import Reporter, finish


def run_property(pid: str, prog: Program, tier: str, seed: int = 0):
    mod = importlib.import_module(f"va.rules.{pid}")
    rep = Reporter(pid, tier, prog, seed)
    err = None
    from . import common
    common.ANALYSED.clear()
    try:
        mod.check(prog, rep, tier)
        seen_q = {q for (_, q) in common.ANALYSED}
        own_functions, own_paths = {q for q in rep.functions if q not in seen_q}, rep.paths  # what the rule module recorded itself (walkers of its own)
        rep.functions = {f"{q} [{c}]" if c else q for (c, q) in common.ANALYSED} | own_functions
        rep.contexts |= {c for (c, q) in common.ANALYSED if c}
        rep.paths = sum(common.ANALYSED.values()) + (own_paths if own_functions else 0)
        rep.check_floors()
    except AnalysisError as e:
        err = str(e)
    except RecursionError:
        err = "recursion limit in analysis"
    except Exception as e:  # any crash of the machinery is an analysis error, never a violation
        err = f"internal error {type(e).__name__}: {e} :: " + traceback.format_exc(limit=4).replace("\n", " | ")
    return rep, err


def main(argv=None) -> int:
    if argv is None:
        argv = sys.argv[1:]
    if argv and argv[0] == "--self-check":
        prog = Program.from_dir("/repo")
        print(f"va: parsed {len(prog.modules)} modules, {len(prog.classes)} classes")
        return 0
    ap = argparse.ArgumentParser()
    ap.add_argument("pid")
    ap.add_argument("--tier", default=os.environ.get("VERIF_TIER", "quick"), choices=["quick", "thorough"])
    ap.add_argument("--replay")
    ap.add_argument("--root", default=os.environ.get("VERIF_ROOT", "/repo"))
    ap.add_argument("--no-write", action="store_true")
    a = ap.parse_args(argv)
    seed = int(os.environ.get("VERIF_SEED", "0") or 0)
    try:
        prog = Program.from_dir(a.root)
    except AnalysisError as e:
        rep = Reporter(a.pid, a.tier, Program({}, a.root), seed)
        return finish(rep, str(e), write=not a.no_write)
    rep, err = run_property(a.pid, prog, a.tier, seed)
    if a.tier == "thorough" and err is None:
        try:
            from . import selftest
            selftest.run(a.pid, prog, rep, seed)
        except AnalysisError as e:
            err = str(e)
        except Exception as e:
            err = f"self-test crashed: {type(e).__name__}: {e} :: " + traceback.format_exc(limit=4).replace("\n", " | ")
    if a.replay:
        with open(a.replay) as fh:
            rec = json.load(fh)
        hit = [v for v in rep.violations if v.key == rec.get("key")]
        if err:
            print(f"ANALYSIS-ERROR property={a.pid} {err}")
            return 2
        if hit:
            v = hit[0]
            print(f"  {v.loc}: [{v.rule}] {v.where}: {v.message}")
            print(f"VIOLATION property={a.pid} replay={a.replay}")
            return 1
        print(f"replay: {rec.get('key')} no longer derivable on {a.root}")
        return 0
    return finish(rep, err, write=not a.no_write)


if __name__ == "__main__":
    try:
        rc = main()
    except SystemExit:
        raise
    except BaseException as e:  # a crash of the machinery is an analysis error (exit 2), never a verdict
        import traceback
        tb = " | ".join(traceback.format_exc().strip().splitlines()[-6:])
        print(f"ANALYSIS-ERROR internal error outside a rule: {type(e).__name__}: {e} :: {tb}")
        rc = 2
    sys.exit(rc)
