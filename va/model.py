"""E1 - program model of /repo/probables, built from source text only (stdlib ast).

Nothing from the repository is imported or executed.  The model resolves what the
other engines need: modules, classes, single-inheritance MRO, methods (stored under
their *mangled* names), properties (alias getters/setters), class constants, module
constants and import aliases.
"""
from __future__ import annotations

import ast
import hashlib
import os
import struct
from dataclasses import dataclass, field
from typing import Dict, List, Optional, Tuple


class AnalysisError(Exception):
    """The analysis cannot decide (vanished anchor, unknown idiom, ...): exit 2."""


PKG = "probables"


def mangle(clsname: Optional[str], name: str) -> str:
    if clsname and name.startswith("__") and not name.endswith("__"):
        return "_" + clsname.lstrip("_") + name
    return name


@dataclass
class FuncInfo:
    name: str  # mangled name inside a class, plain otherwise
    src_name: str
    qualname: str
    module: "ModuleInfo"
    cls: Optional["ClassInfo"]
    node: ast.FunctionDef
    kind: str = "method"  # method | classmethod | staticmethod | function | nested
    prop: Optional[str] = None  # 'get' | 'set'
    decorators: Tuple[str, ...] = ()
    nested: Dict[str, "FuncInfo"] = field(default_factory=dict)

    @property
    def params(self) -> List[str]:
        a = self.node.args
        return [x.arg for x in a.posonlyargs + a.args]

    @property
    def defaults(self) -> Dict[str, ast.expr]:
        a = self.node.args
        pos = a.posonlyargs + a.args
        out = {}
        for p, d in zip(pos[len(pos) - len(a.defaults):], a.defaults):
            out[p.arg] = d
        for p, d in zip(a.kwonlyargs, a.kw_defaults):
            if d is not None:
                out[p.arg] = d
        return out

    def body(self) -> List[ast.stmt]:
        b = self.node.body
        if b and isinstance(b[0], ast.Expr) and isinstance(b[0].value, ast.Constant) and isinstance(b[0].value.value, str):
            return b[1:]
        return b

    def where(self, node: Optional[ast.AST] = None) -> str:
        n = node if node is not None and hasattr(node, "lineno") else self.node
        return f"{self.module.relpath}:{n.lineno}"

    def __repr__(self):
        return f"<Func {self.qualname}>"


@dataclass
class ClassInfo:
    name: str
    module: "ModuleInfo"
    node: ast.ClassDef
    base_names: List[str]
    methods: Dict[str, FuncInfo] = field(default_factory=dict)
    getters: Dict[str, FuncInfo] = field(default_factory=dict)
    setters: Dict[str, FuncInfo] = field(default_factory=dict)
    consts: Dict[str, ast.expr] = field(default_factory=dict)  # class-level assignments (mangled names)
    program: "Program" = None  # type: ignore

    def mro(self) -> List["ClassInfo"]:
        out = [self]
        cur = self
        seen = {self.name}
        while cur.base_names:
            nxt = None
            for b in cur.base_names:
                if b in self.program.classes:
                    nxt = self.program.classes[b]
                    break
            if nxt is None or nxt.name in seen:
                break
            out.append(nxt)
            seen.add(nxt.name)
            cur = nxt
        return out

    def is_subclass_of(self, other: str) -> bool:
        return any(c.name == other for c in self.mro())

    def find_method(self, name: str, after: Optional[str] = None) -> Optional[FuncInfo]:
        chain = self.mro()
        if after is not None:
            names = [c.name for c in chain]
            if after in names:
                chain = chain[names.index(after) + 1:]
        for c in chain:
            if name in c.methods:
                return c.methods[name]
        return None

    def find_getter(self, name: str) -> Optional[FuncInfo]:
        for c in self.mro():
            if name in c.getters:
                return c.getters[name]
            if name in c.methods or name in c.consts:
                return None
        return None

    def find_setter(self, name: str) -> Optional[FuncInfo]:
        for c in self.mro():
            if name in c.setters:
                return c.setters[name]
            if name in c.getters:  # property without setter shadows
                return None
        return None

    def find_const(self, name: str) -> Optional[Tuple["ClassInfo", ast.expr]]:
        for c in self.mro():
            if name in c.consts:
                return c, c.consts[name]
        return None

    def all_method_names(self) -> List[str]:
        seen = []
        for c in self.mro():
            for n in c.methods:
                if n not in seen:
                    seen.append(n)
        return seen

    def all_property_names(self) -> List[str]:
        seen = []
        for c in self.mro():
            for n in c.getters:
                if n not in seen:
                    seen.append(n)
        return seen


@dataclass
class ModuleInfo:
    name: str
    relpath: str
    source: str
    tree: ast.Module
    digest: str
    imports: Dict[str, Tuple[str, str]] = field(default_factory=dict)  # local -> (module, name)
    mod_imports: Dict[str, str] = field(default_factory=dict)  # local -> module
    functions: Dict[str, FuncInfo] = field(default_factory=dict)
    consts: Dict[str, ast.expr] = field(default_factory=dict)
    classes: Dict[str, ClassInfo] = field(default_factory=dict)


def _decorator_names(node) -> Tuple[str, ...]:
    out = []
    for d in node.decorator_list:
        try:
            out.append(ast.unparse(d))
        except Exception:  # pragma: no cover
            out.append("?")
    return tuple(out)


class Program:
    """The whole package as parsed source."""

    def __init__(self, sources: Dict[str, str], label: str = "/repo"):
        self.label = label
        self.sources = sources
        self.modules: Dict[str, ModuleInfo] = {}
        self.classes: Dict[str, ClassInfo] = {}
        self.functions: Dict[str, FuncInfo] = {}  # bare name -> module-level function (unique in package)
        for rel, src in sorted(sources.items()):
            self._add_module(rel, src)
        for c in self.classes.values():
            c.program = self

    # ------------------------------------------------------------------ loading
    @classmethod
    def from_dir(cls, root: str, label: Optional[str] = None) -> "Program":
        srcs = {}
        pkg = os.path.join(root, PKG)
        if not os.path.isdir(pkg):
            raise AnalysisError(f"package directory {pkg} not found")
        for dp, dn, fn in os.walk(pkg):
            dn[:] = sorted(d for d in dn if d != "__pycache__")
            for f in sorted(fn):
                if f.endswith(".py"):
                    p = os.path.join(dp, f)
                    with open(p, encoding="utf-8") as fh:
                        srcs[os.path.relpath(p, root)] = fh.read()
        return cls(srcs, label or root)

    def with_source(self, relpath: str, new_source: str, label: str = "variant") -> "Program":
        s = dict(self.sources)
        s[relpath] = new_source
        return Program(s, label)

    def _add_module(self, rel: str, src: str) -> None:
        try:
            tree = ast.parse(src, filename=rel)
        except SyntaxError as e:
            raise AnalysisError(f"cannot parse {rel}: {e}")
        modname = rel[:-3].replace(os.sep, ".")
        if modname.endswith(".__init__"):
            modname = modname[: -len(".__init__")]
        m = ModuleInfo(modname, rel, src, tree, hashlib.sha256(src.encode()).hexdigest()[:16])
        self.modules[modname] = m
        for st in tree.body:
            if isinstance(st, ast.ImportFrom) and st.module:
                for a in st.names:
                    m.imports[a.asname or a.name] = (st.module, a.name)
            elif isinstance(st, ast.Import):
                for a in st.names:
                    m.mod_imports[a.asname or a.name] = a.name
            elif isinstance(st, ast.FunctionDef):
                fi = self._mk_func(st, m, None)
                fi.kind = "function"
                m.functions[st.name] = fi
                if rel.endswith("__init__.py"):
                    continue
                self.functions.setdefault(st.name, fi)
            elif isinstance(st, ast.ClassDef):
                self._add_class(st, m)
            elif isinstance(st, ast.Assign) and len(st.targets) == 1 and isinstance(st.targets[0], ast.Name):
                m.consts[st.targets[0].id] = st.value
            elif isinstance(st, ast.AnnAssign) and isinstance(st.target, ast.Name) and st.value is not None:
                m.consts[st.target.id] = st.value

    def _mk_func(self, node: ast.FunctionDef, m: ModuleInfo, cls: Optional[ClassInfo]) -> FuncInfo:
        name = mangle(cls.name if cls else None, node.name)
        q = (cls.name + "." if cls else m.name + ".") + node.name
        fi = FuncInfo(name, node.name, q, m, cls, node, decorators=_decorator_names(node))
        for sub in ast.walk(node):
            if isinstance(sub, ast.FunctionDef) and sub is not node:
                nf = FuncInfo(sub.name, sub.name, q + ".<locals>." + sub.name, m, cls, sub, kind="nested",
                              decorators=_decorator_names(sub))
                fi.nested[sub.name] = nf
        return fi

    def _add_class(self, node: ast.ClassDef, m: ModuleInfo) -> None:
        bases = []
        for b in node.bases:
            if isinstance(b, ast.Name):
                bases.append(b.id)
            elif isinstance(b, ast.Attribute):
                bases.append(b.attr)
        ci = ClassInfo(node.name, m, node, bases)
        if node.name in self.classes:
            raise AnalysisError(f"duplicate class name {node.name}")
        self.classes[node.name] = ci
        m.classes[node.name] = ci
        for st in node.body:
            if isinstance(st, ast.FunctionDef):
                fi = self._mk_func(st, m, ci)
                decs = fi.decorators
                if "property" in decs:
                    fi.prop = "get"
                    ci.getters[fi.name] = fi
                    continue
                if any(d.endswith(".setter") for d in decs):
                    fi.prop = "set"
                    fi.qualname += ".setter"
                    ci.setters[fi.name] = fi
                    continue
                if "classmethod" in decs:
                    fi.kind = "classmethod"
                elif "staticmethod" in decs:
                    fi.kind = "staticmethod"
                ci.methods[fi.name] = fi
            elif isinstance(st, ast.Assign) and len(st.targets) == 1 and isinstance(st.targets[0], ast.Name):
                ci.consts[mangle(ci.name, st.targets[0].id)] = st.value
            elif isinstance(st, ast.AnnAssign) and isinstance(st.target, ast.Name) and st.value is not None:
                ci.consts[mangle(ci.name, st.target.id)] = st.value

    # ------------------------------------------------------------------ queries
    def cls(self, name: str) -> ClassInfo:
        if name not in self.classes:
            raise AnalysisError(f"anchor vanished: class {name} not found in {self.label}")
        return self.classes[name]

    def method(self, clsname: str, name: str, own: bool = False) -> FuncInfo:
        """method `name` (source spelling; mangled lexically in clsname) visible in class clsname"""
        c = self.cls(clsname)
        if own:
            f = c.methods.get(mangle(clsname, name))
        else:
            f = c.find_method(mangle(clsname, name))
            if f is None and name.startswith("__") and not name.endswith("__"):
                for k in c.mro():
                    f = k.methods.get(mangle(k.name, name))
                    if f:
                        break
        if f is None:
            raise AnalysisError(f"anchor vanished: method {clsname}.{name} not found in {self.label}")
        return f

    def has_method(self, clsname: str, name: str) -> bool:
        try:
            self.method(clsname, name)
            return True
        except AnalysisError:
            return False

    def function(self, name: str) -> FuncInfo:
        if name not in self.functions:
            raise AnalysisError(f"anchor vanished: function {name} not found in {self.label}")
        return self.functions[name]

    def module_of(self, relsuffix: str) -> ModuleInfo:
        for m in self.modules.values():
            if m.relpath.endswith(relsuffix):
                return m
        raise AnalysisError(f"anchor vanished: module {relsuffix}")

    def resolve_global(self, m: ModuleInfo, name: str, depth: int = 0):
        """resolve a bare name used in module m -> ('class', ClassInfo) | ('func', FuncInfo) |
        ('const', ast.expr, ModuleInfo) | ('ext', module, name) | None"""
        if depth > 6:
            return None
        if name in m.classes:
            return ("class", m.classes[name])
        if name in m.functions:
            return ("func", m.functions[name])
        if name in m.consts:
            return ("const", m.consts[name], m)
        if name in m.imports:
            mod, nm = m.imports[name]
            if mod in self.modules:
                return self.resolve_global(self.modules[mod], nm, depth + 1)
            return ("ext", mod, nm)
        if name in m.mod_imports:
            return ("extmod", m.mod_imports[name])
        return None

    def digests(self) -> Dict[str, str]:
        return {m.relpath: m.digest for m in self.modules.values()}

    def concrete_classes(self) -> List[str]:
        return [c for c in self.classes if not self.classes[c].is_subclass_of("Exception")
                and not self.classes[c].is_subclass_of("ProbablesBaseException")]


def struct_size(fmt: str) -> int:
    return struct.calcsize(fmt)
