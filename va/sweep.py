"""Generic single-point mutation sweep (development aid and thorough-tier information, NOT a check).

  python -m va.sweep gen                 -> list the mutants of the current tree
  python -m va.sweep static [out.jsonl]  -> run every claimed check (quick, in memory) against every mutant
  python -m va.sweep tests in.jsonl out.jsonl -> for mutants no check reported: does the repository's own test suite pass? (scratch copies under /tmp)

The static part never executes repository code.  The `tests` part is a throw-away survey used to aim the rules; its
output is never evidence for a property.
"""
from __future__ import annotations

import ast
import copy
import importlib
import json
import multiprocessing as mp
import os
import shutil
import subprocess
import sys
import tempfile

from .common import clear_caches
from .model import Program

CMP_ALT = {ast.Lt: [ast.LtE, ast.GtE], ast.LtE: [ast.Lt, ast.Gt], ast.Gt: [ast.GtE, ast.LtE], ast.GtE: [ast.Gt, ast.Lt],
           ast.Eq: [ast.NotEq], ast.NotEq: [ast.Eq], ast.Is: [ast.IsNot], ast.IsNot: [ast.Is], ast.In: [ast.NotIn], ast.NotIn: [ast.In]}
BIN_ALT = {ast.Add: ast.Sub, ast.Sub: ast.Add, ast.Mult: ast.FloorDiv, ast.FloorDiv: ast.Mult, ast.Div: ast.Mult, ast.Mod: ast.FloorDiv,
           ast.BitOr: ast.BitXor, ast.BitAnd: ast.BitOr, ast.BitXor: ast.BitAnd, ast.LShift: ast.RShift, ast.RShift: ast.LShift, ast.Pow: ast.Mult}


def func_ranges(tree):
    out = []
    for n in tree.body:
        if isinstance(n, ast.ClassDef):
            for m in n.body:
                if isinstance(m, ast.FunctionDef):
                    out.append((f"{n.name}.{m.name}", m))
        elif isinstance(n, ast.FunctionDef):
            out.append((n.name, n))
    return out


def mutants_of(src: str):
    """yields (func, lineno, operator, original-text, mutated-source)"""
    tree = ast.parse(src)
    for qual, fn in func_ranges(tree):
        nodes = list(ast.walk(fn))
        sites = []
        for n in nodes:
            if isinstance(n, ast.Compare):
                for i, op in enumerate(n.ops):
                    for alt in CMP_ALT.get(type(op), []):
                        sites.append(("cmp", n, ("ops", i, alt)))
            elif isinstance(n, ast.BinOp) and type(n.op) in BIN_ALT:
                sites.append(("binop", n, BIN_ALT[type(n.op)]))
            elif isinstance(n, ast.AugAssign) and type(n.op) in BIN_ALT:
                sites.append(("augop", n, BIN_ALT[type(n.op)]))
            elif isinstance(n, ast.Constant) and isinstance(n.value, int) and not isinstance(n.value, bool):
                sites.append(("const+1", n, None))
            elif isinstance(n, ast.If):
                sites.append(("negif", n, None))
            elif isinstance(n, ast.Call) and isinstance(n.func, ast.Name) and n.func.id == "range" and n.args:
                sites.append(("range-1", n, None))
        for b in _stmt_lists(fn):
            for st in b:
                if isinstance(st, ast.Expr) and isinstance(st.value, ast.Constant) and isinstance(st.value.value, str):
                    continue
                if isinstance(st, (ast.FunctionDef, ast.ClassDef, ast.Pass)):
                    continue
                sites.append(("delstmt", st, b))
        for kind, node, arg in sites:
            try:
                orig = ast.unparse(node)[:100].replace("\n", " ")
            except Exception:
                orig = "?"
            # apply on a deep copy located by position
            t2 = copy.deepcopy(tree)
            target = None
            for m in ast.walk(t2):
                if type(m) is type(node) and getattr(m, "lineno", None) == getattr(node, "lineno", None) and \
                        getattr(m, "col_offset", None) == getattr(node, "col_offset", None) and getattr(m, "end_col_offset", None) == getattr(node, "end_col_offset", None):
                    target = m
                    break
            if target is None:
                continue
            ok = _apply(kind, target, arg, t2)
            if not ok:
                continue
            try:
                new_src = ast.unparse(ast.fix_missing_locations(t2))
                compile(new_src, "<mutant>", "exec")
            except Exception:
                continue
            yield qual, getattr(node, "lineno", 0), kind + (":" + arg[2].__name__ if kind == "cmp" else ""), orig, new_src


def _stmt_lists(fn):
    for n in ast.walk(fn):
        for attr in ("body", "orelse", "finalbody"):
            b = getattr(n, attr, None)
            if isinstance(b, list) and b and isinstance(b[0], ast.stmt):
                yield b


def _apply(kind, node, arg, tree) -> bool:
    if kind == "cmp":
        _, i, alt = arg
        node.ops[i] = alt()
        return True
    if kind in ("binop", "augop"):
        node.op = arg()
        return True
    if kind == "const+1":
        node.value = node.value + 1
        return True
    if kind == "negif":
        node.test = ast.UnaryOp(ast.Not(), node.test)
        return True
    if kind == "range-1":
        node.args[-1] = ast.BinOp(node.args[-1], ast.Sub(), ast.Constant(1))
        return True
    if kind == "delstmt":
        for b in _stmt_lists(tree):
            for i, st in enumerate(b):
                if st is node:
                    if len(b) == 1:
                        b[i] = ast.Pass()
                    else:
                        del b[i]
                    return True
        return False
    return False


def all_mutants(prog: Program):
    out = []
    for rel, src in sorted(prog.sources.items()):
        if rel.endswith("__init__.py") or rel.endswith("exceptions.py") or rel.endswith("constants.py"):
            continue
        for qual, line, kind, orig, new_src in mutants_of(src):
            out.append({"file": rel, "func": qual, "line": line, "op": kind, "orig": orig, "src": new_src})
    return out


_G = {}


def claimed():
    with open(os.path.join(os.path.dirname(os.path.dirname(os.path.abspath(__file__))), "MANIFEST.json")) as fh:
        return [c["property_id"] for c in json.load(fh)["checks"]]


def _static_job(i):
    from .cli import run_property
    m = _G["mutants"][i]
    prog = _G["prog"]
    p2 = prog.with_source(m["file"], m["src"], label="mutant")
    fired, undecided = [], []
    for pid in _G["pids"]:
        mod = importlib.import_module(f"va.rules.{pid}")
        files = getattr(mod, "FILES", None)
        if files and not any(m["file"].endswith(s) for s in files):
            continue
        clear_caches()
        rep, err = run_property(pid, p2, "quick")
        new = [v for v in rep.violations if v.key not in _G["base"].get(pid, set())]
        if new:
            fired.append((pid, new[0].rule))
        elif err:
            undecided.append((pid, err[:120]))
    clear_caches()
    r = {k: m[k] for k in ("file", "func", "line", "op", "orig")}
    r["fired"] = fired
    r["undecided"] = undecided
    r["i"] = i
    return r


def run_static(out_path, root="/repo"):
    from .cli import run_property
    prog = Program.from_dir(root)
    muts = all_mutants(prog)
    pids = claimed()
    base = {}
    for pid in pids:
        clear_caches()
        rep, err = run_property(pid, prog, "quick")
        base[pid] = {v.key for v in rep.violations}
    _G.update(prog=prog, mutants=muts, pids=pids, base=base)
    ctx = mp.get_context("fork")
    with ctx.Pool(int(os.environ.get("VERIF_JOBS", "16"))) as pool, open(out_path, "w") as fh:
        for r in pool.imap_unordered(_static_job, range(len(muts)), chunksize=4):
            fh.write(json.dumps(r) + "\n")
            fh.flush()
    print(f"{len(muts)} mutants evaluated -> {out_path}")


def _test_job(args):
    i, root = args
    m = _G["mutants"][i]
    d = tempfile.mkdtemp(prefix="mut_", dir="/tmp")
    try:
        shutil.copytree(os.path.join(root, "probables"), os.path.join(d, "probables"))
        shutil.copytree(os.path.join(root, "tests"), os.path.join(d, "tests"))
        for f in ("pyproject.toml", "setup.cfg", "setup.py", "conftest.py"):
            if os.path.exists(os.path.join(root, f)):
                shutil.copy(os.path.join(root, f), d)
        with open(os.path.join(d, m["file"]), "w") as fh:
            fh.write(m["src"])
        try:
            r = subprocess.run(["/venv/bin/python", "-m", "pytest", "-x", "-q", "-p", "no:cacheprovider", "--timeout=60"], cwd=d,
                               capture_output=True, text=True, timeout=300)
            passed = r.returncode == 0
        except subprocess.TimeoutExpired:
            passed = False
        return i, passed
    finally:
        shutil.rmtree(d, ignore_errors=True)


def run_tests(in_path, out_path, root="/repo"):
    prog = Program.from_dir(root)
    muts = all_mutants(prog)
    rows = [json.loads(l) for l in open(in_path)]
    todo = [r["i"] for r in rows if not r["fired"]]
    _G.update(mutants=muts)
    ctx = mp.get_context("fork")
    res = {}
    with ctx.Pool(int(os.environ.get("VERIF_JOBS", "16"))) as pool:
        for i, passed in pool.imap_unordered(_test_job, [(i, root) for i in todo], chunksize=2):
            res[i] = passed
    with open(out_path, "w") as fh:
        for r in rows:
            if r["i"] in res:
                r["tests_pass"] = res[r["i"]]
            fh.write(json.dumps(r) + "\n")
    surv = [r for r in rows if r.get("tests_pass")]
    print(f"{len(todo)} unreported mutants run against the suite; {len(surv)} pass it (undetected by tests and by the static checks)")


if __name__ == "__main__":
    cmd = sys.argv[1] if len(sys.argv) > 1 else "gen"
    if cmd == "gen":
        ms = all_mutants(Program.from_dir("/repo"))
        print(len(ms), "mutants")
        from collections import Counter
        print(Counter(m["op"].split(":")[0] for m in ms))
    elif cmd == "static":
        run_static(sys.argv[2] if len(sys.argv) > 2 else "/tmp/sweep_static.jsonl")
    elif cmd == "tests":
        run_tests(sys.argv[2], sys.argv[3])
