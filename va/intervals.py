"""E5 - integer intervals over expression DAGs, refined by path conditions; E8 ordering sets.

Bounds are Python ints or None (= infinite).  Cells are re-read at every use: a read
expression carries the epoch of its container, so a bound learnt about an earlier read
never transfers to a later one.
"""
from __future__ import annotations

import struct
from typing import Callable, Dict, List, Optional, Tuple

from .expr import C, bounded_step, is_const, is_int_const, is_num_const, rowform

Iv = Tuple[Optional[int], Optional[int]]
TOP: Iv = (None, None)

TYPE_RANGE = {
    "B": (0, 255), "b": (-128, 127), "H": (0, 65535), "h": (-32768, 32767),
    "I": (0, 2**32 - 1), "i": (-2**31, 2**31 - 1), "L": (0, 2**64 - 1), "l": (-2**63, 2**63 - 1),
    "Q": (0, 2**64 - 1), "q": (-2**63, 2**63 - 1),
}


def join(a: Iv, b: Iv) -> Iv:
    lo = None if a[0] is None or b[0] is None else min(a[0], b[0])
    hi = None if a[1] is None or b[1] is None else max(a[1], b[1])
    return (lo, hi)


def meet(a: Iv, b: Iv) -> Iv:
    lo = a[0] if b[0] is None else (b[0] if a[0] is None else max(a[0], b[0]))
    hi = a[1] if b[1] is None else (b[1] if a[1] is None else min(a[1], b[1]))
    return (lo, hi)


def within(a: Iv, b: Iv) -> bool:
    if b[0] is not None and (a[0] is None or a[0] < b[0]):
        return False
    if b[1] is not None and (a[1] is None or a[1] > b[1]):
        return False
    return True


def fmt_iv(a: Iv) -> str:
    def f(x):
        if x is None:
            return "inf"
        for name, v in (("2**31-1", 2**31 - 1), ("-2**31", -2**31), ("2**32-1", 2**32 - 1), ("2**63-1", 2**63 - 1),
                        ("-2**63", -2**63), ("2**64-1", 2**64 - 1)):
            if x == v:
                return name
        return str(x)
    return f"[{'-' if a[0] is None else ''}{f(a[0])}, {f(a[1])}]"


def _add(a: Iv, b: Iv) -> Iv:
    return (None if a[0] is None or b[0] is None else a[0] + b[0], None if a[1] is None or b[1] is None else a[1] + b[1])


def _neg(a: Iv) -> Iv:
    return (None if a[1] is None else -a[1], None if a[0] is None else -a[0])


def _mul(a: Iv, b: Iv) -> Iv:
    if a == (0, 0) or b == (0, 0):
        return (0, 0)
    # nonneg * nonneg handles infinities simply
    if a[0] is not None and a[0] >= 0 and b[0] is not None and b[0] >= 0:
        return (a[0] * b[0], None if a[1] is None or b[1] is None else a[1] * b[1])
    if None in a or None in b:
        return TOP
    ps = [a[0] * b[0], a[0] * b[1], a[1] * b[0], a[1] * b[1]]
    return (min(ps), max(ps))


def struct_slot_range(fmt: str, i: int) -> Iv:
    chars = [c for c in fmt if c.isalpha()]
    if i < len(chars) and chars[i] in TYPE_RANGE:
        return TYPE_RANGE[chars[i]]
    return TOP


class Intervals:
    def __init__(self, conds: List[tuple], params: Optional[Dict[str, Iv]] = None,
                 cell_range: Optional[Callable[[tuple], Optional[Iv]]] = None,
                 field_range: Optional[Callable[[tuple, str], Optional[Iv]]] = None):
        self.conds = conds = [rowform(c) for c in conds]
        self._rowformed: set = set()
        self.params = params or {}
        self.cell_range = cell_range or (lambda cont: None)
        self.field_range = field_range or (lambda base, name: None)
        self._memo: Dict[tuple, Iv] = {}
        self._busy: set = set()
        self._cmp_index: Dict[tuple, List[Tuple[str, tuple]]] = {}
        for c in conds:
            self._index(c)

    def _index(self, c):
        if not isinstance(c, tuple):
            return
        if c[0] == "and":
            for x in c[1]:
                self._index(x)
        elif (c[0] == "cmp" and c[1] == "in" or c[0] == "un" and c[1] == "not" and c[2][0] == "cmp" and c[2][1] == "notin") \
                and (c if c[0] == "cmp" else c[2])[3][0] in ("tup", "list", "set"):
            # x in (k1, k2, ...) with integer constants: x lies between the smallest and the largest of them
            m = c if c[0] == "cmp" else c[2]
            ks = m[3][1]
            if ks and all(k[0] == "c" and isinstance(k[1], int) and not isinstance(k[1], bool) for k in ks):
                self._cmp_index.setdefault(m[2], []).append((">=", C(min(k[1] for k in ks))))
                self._cmp_index.setdefault(m[2], []).append(("<=", C(max(k[1] for k in ks))))
        elif c[0] == "un" and c[1] == "not" and c[2][0] not in ("cmp", "and", "or", "un", "c"):
            self._cmp_index.setdefault(c[2], []).append(("==", C(0)))  # `not x` for a number: x == 0
        elif c[0] not in ("cmp", "and", "or", "un", "c", "loop0"):
            self._cmp_index.setdefault(c, []).append(("!=", C(0)))  # a number used as a condition: x != 0
        elif c[0] == "cmp" and c[1] in ("<", "<=", ">", ">=", "==", "!="):
            flip = {"<": ">", "<=": ">=", ">": "<", ">=": "<=", "==": "==", "!=": "!="}
            self._cmp_index.setdefault(c[2], []).append((c[1], c[3]))
            self._cmp_index.setdefault(c[3], []).append((flip[c[1]], c[2]))

    def iv(self, e) -> Iv:
        if e not in self._rowformed:
            # positional indexing into a comprehension / zip / enumerate is read as the element it stands for;
            # a step cut short at a bound is read as the saturating update it is
            r = bounded_step(rowform(e))
            self._rowformed.add(r)
            if r != e:
                return self.iv(r)
        if e in self._memo:
            return self._memo[e]
        if e in self._busy:
            return TOP
        self._busy.add(e)
        try:
            r = self._raw(e)
            r = self._refine(e, r)
        finally:
            self._busy.discard(e)
        self._memo[e] = r
        return r

    def _refine(self, e, r: Iv) -> Iv:
        for op, other in self._cmp_index.get(e, ()):
            if is_const(e):
                break
            o = self.iv(other) if not is_num_const(other) else ((other[1], other[1]) if isinstance(other[1], int) else self._float_iv(other[1]))
            if op == "<" and o[1] is not None:
                r = meet(r, (None, o[1] - 1))
            elif op == "<=" and o[1] is not None:
                r = meet(r, (None, o[1]))
            elif op == ">" and o[0] is not None:
                r = meet(r, (o[0] + 1, None))
            elif op == ">=" and o[0] is not None:
                r = meet(r, (o[0], None))
            elif op == "==":
                r = meet(r, o)
            elif op == "!=" and o[0] is not None and o[0] == o[1]:
                if r[0] is not None and r[0] == o[0]:
                    r = (r[0] + 1, r[1])
                if r[1] is not None and r[1] == o[0]:
                    r = (r[0], r[1] - 1)
        return r

    @staticmethod
    def _float_iv(v: float) -> Iv:
        import math
        if v != v or v in (float("inf"), float("-inf")):
            return TOP
        return (math.floor(v), math.ceil(v))

    def elem_iv(self, dom) -> Iv:
        """interval of an element of an iterable expression"""
        k = dom[0]
        if k == "call" and dom[1] == ("g", "range"):
            a = dom[2]
            if len(a) == 1:
                hi = self.iv(a[0])[1]
                return (0, None if hi is None else hi - 1)
            if len(a) >= 2:
                lo = self.iv(a[0])[0]
                hi = self.iv(a[1])[1]
                return (lo, None if hi is None else hi - 1)
        if k == "call" and dom[1] in (("g", "sorted"), ("g", "list"), ("g", "reversed"), ("g", "tuple")) and dom[2]:
            return self.elem_iv(dom[2][0])
        if k == "comp":
            if dom[1] == "dict":
                return TOP
            return self.iv(dom[2])
        if k in ("lst", "tup", "set"):
            r = None
            for x in dom[1]:
                i = self.iv(x)
                r = i if r is None else join(r, i)
            return r or TOP
        if k in ("f", "sub", "it", "slice"):
            c = self.cell_range(dom if k != "slice" else dom[1])
            if c is not None:
                return c
        if k == "newb" and dom[1] == "array" and len(dom[3]) >= 1 and is_const(dom[3][0]):
            tr = TYPE_RANGE.get(dom[3][0][1], TOP)
            if len(dom[3]) == 2 and dom[3][1][0] in ("lst", "tup") and dom[3][1][1]:
                return meet(self.elem_iv(dom[3][1]), tr)
            return tr
        if k == "nary" and dom[1] == "*":
            # array(tc,[0]) * n
            for x in dom[2]:
                if x[0] == "newb":
                    return self.elem_iv(x)
        return TOP

    def _raw(self, e) -> Iv:
        k = e[0]
        if k == "c":
            v = e[1]
            if isinstance(v, bool):
                return (int(v), int(v))
            if isinstance(v, int):
                return (v, v)
            if isinstance(v, float):
                return self._float_iv(v)
            return TOP
        if k == "p":
            return self.params.get(e[1], TOP)
        if k == "nary":
            op, items = e[1], e[2]
            ivs = [self.iv(x) for x in items]
            if op == "+":
                r = (0, 0)
                for i in ivs:
                    r = _add(r, i)
                return r
            if op == "*":
                r = (1, 1)
                for i in ivs:
                    r = _mul(r, i)
                return r
            if op == "&":
                nn = [i for i in ivs if i[0] is not None and i[0] >= 0]
                if nn:
                    his = [i[1] for i in nn if i[1] is not None]
                    return (0, min(his) if his else None)
                return TOP
            if op in ("|", "^"):
                if all(i[0] is not None and i[0] >= 0 for i in ivs):
                    if all(i[1] is not None for i in ivs):
                        bits = max(i[1].bit_length() for i in ivs)
                        lo = max(i[0] for i in ivs) if op == "|" else 0
                        return (lo, (1 << bits) - 1)
                    return (0, None)
                return TOP
            return TOP
        if k == "bin":
            op = e[1]
            a, b = self.iv(e[2]), self.iv(e[3])
            if op == "-":
                return _add(a, _neg(b))
            if op == "+":
                return _add(a, b)
            if op == "*":
                return _mul(a, b)
            if op == "//":
                if b[0] is not None and b[0] > 0:
                    lo = None if a[0] is None else (a[0] // b[0] if a[0] < 0 else (a[0] // b[1] if b[1] is not None else 0))
                    hi = None if a[1] is None else (a[1] // b[0] if a[1] >= 0 else (a[1] // b[1] if b[1] is not None else 0))
                    return (lo, hi)
                return TOP
            if op == "%":
                if b[0] is not None and b[0] > 0:
                    hi = None if b[1] is None else b[1] - 1
                    if a[0] is not None and a[0] >= 0 and a[1] is not None and (hi is None or a[1] < hi):
                        hi = a[1]
                    return (0, hi)
                return TOP
            if op == "<<":
                if a[0] is not None and a[0] >= 0 and b[0] is not None and b[0] >= 0:
                    hi = None if a[1] is None or b[1] is None or b[1] > 4096 else a[1] << b[1]
                    return (a[0] << b[0], hi)
                return TOP
            if op == ">>":
                if b[0] is not None and b[0] >= 0 and a[0] is not None and a[0] >= 0:
                    return (0 if b[1] is None else a[0] >> b[1], None if a[1] is None else a[1] >> b[0])
                return TOP
            if op == "**":
                if is_int_const(e[2]) and e[2][1] >= 0 and b[0] is not None and b[0] >= 0:
                    base = e[2][1]
                    return (base ** b[0], None if b[1] is None or b[1] > 4096 else base ** b[1])
                return TOP
            return TOP
        if k == "un":
            a = self.iv(e[2])
            if e[1] == "-":
                return _neg(a)
            if e[1] == "~":
                n = _neg(a)
                return _add(n, (-1, -1))
            if e[1] == "not":
                return (0, 1)
            return TOP
        if k in ("cmp", "and", "or"):
            return (0, 1) if k == "cmp" else TOP
        if k == "phi":
            # conditional expression: each arm is evaluated under its own branch condition
            from .expr import _norm_node
            neg = ("un", "not", e[1])
            neg = _norm_node(neg) or neg
            a = type(self)(self.conds + [e[1]], self.params, self.cell_range, self.field_range).iv(e[2])
            b = type(self)(self.conds + [neg], self.params, self.cell_range, self.field_range).iv(e[3])
            return join(a, b)
        if k == "it":
            return self.elem_iv(e[2])
        if k == "ix":
            return (0, None)
        if k == "sub":
            cont = e[1]
            c = self.cell_range(cont)
            if c is not None:
                return c
            return self.elem_iv(cont)
        if k == "unp":
            return struct_slot_range(e[1], e[2])
        if k == "f":
            r = self.field_range(e[1], e[2])
            return r if r is not None else TOP
        if k == "call":
            fn, args = e[1], e[2]
            if fn in (("g", "min"), ("g", "max")):
                if len(args) == 1:
                    ivs = [self.elem_iv(args[0])]
                else:
                    ivs = [self.iv(a) for a in args]
                if fn[1] == "min":
                    los = [i[0] for i in ivs]
                    his = [i[1] for i in ivs if i[1] is not None]
                    return (None if any(x is None for x in los) else min(los), min(his) if his else None)
                his = [i[1] for i in ivs]
                los = [i[0] for i in ivs if i[0] is not None]
                return (max(los) if los else None, None if any(x is None for x in his) else max(his))
            if fn == ("g", "len"):
                return (0, None)
            if fn == ("g", "abs") and len(args) == 1:
                a = self.iv(args[0])
                if a[0] is not None and a[0] >= 0:
                    return a
                return (0, None)
            if fn in (("g", "int"), ("g", "round"), ("ext", "math", "ceil"), ("ext", "math", "floor")) and len(args) == 1:
                return self.iv(args[0])
            if fn == ("g", "bool"):
                return (0, 1)
            if fn == ("g", "sum"):
                return TOP
            return TOP
        return TOP


# ----------------------------------------------------------------------------- orderings (E8)
LT, EQ, GT = "lt", "eq", "gt"
ALL = frozenset((LT, EQ, GT))
OPSET = {"<": {LT}, "<=": {LT, EQ}, "==": {EQ}, "!=": {LT, GT}, ">=": {EQ, GT}, ">": {GT}}


def _offset(e) -> Tuple[tuple, int]:
    """split e into (base, k) with e == base + k for integer constant k (nested offsets add up: (x - 1) + 1 is x + 0)"""
    if e[0] == "nary" and e[1] == "+":
        consts = [x for x in e[2] if is_int_const(x)]
        rest = [x for x in e[2] if not is_int_const(x)]
        if len(consts) == 1 and len(rest) >= 1:
            base = rest[0] if len(rest) == 1 else ("nary", "+", tuple(rest))
            b2, k2 = _offset(base) if len(rest) == 1 else (base, 0)
            return b2, consts[0][1] + k2
    if e[0] == "bin" and e[1] == "-" and is_int_const(e[3]):
        b2, k2 = _offset(e[2])
        return b2, k2 - e[3][1]
    if is_int_const(e):
        return C(0), e[1]
    return e, 0


def atom_orderings(atom, a, b) -> Optional[frozenset]:
    """orderings of the integer pair (a, b) admitted by a true comparison atom, or None if the atom
    does not compare a with b.  Constant offsets are resolved exactly: a > b - 1  ==  a >= b."""
    if atom[0] != "cmp" or atom[1] not in OPSET:
        return None
    x, kx = _offset(atom[2])
    y, ky = _offset(atom[3])
    op = atom[1]
    a0, ka = _offset(a)
    b0, kb = _offset(b)
    flip = {"<": ">", "<=": ">=", ">": "<", ">=": "<=", "==": "==", "!=": "!="}
    if (x, y) == (b0, a0) and a0 != b0:
        x, kx, y, ky = y, ky, x, kx
        op = flip[op]
    elif (x, y) != (a0, b0):
        return None
    # atom:  (a0 + kx) op (b0 + ky)   ; question about (a0 + ka) vs (b0 + kb)
    # let d = (a0+ka) - (b0+kb); atom says  d + (kx - ka) - (ky - kb)  op  0  i.e.  d op c  with c = (ky-kb)-(kx-ka)
    c = (ky - kb) - (kx - ka)
    res = set()
    # d ranges over integers; ordering lt: d<0, eq: d==0, gt: d>0
    def holds(d):
        return {"<": d < c, "<=": d <= c, "==": d == c, "!=": d != c, ">=": d >= c, ">": d > c}[op]
    # an ordering is admitted if some integer d in its class satisfies the atom
    if any(holds(d) for d in (-1, -2, c - 1, c, c + 1) if d < 0):
        res.add(LT)
    if holds(0):
        res.add(EQ)
    if any(holds(d) for d in (1, 2, c - 1, c, c + 1) if d > 0):
        res.add(GT)
    return frozenset(res)


def atom_covers_fully(atom, a, b) -> Optional[Dict[str, bool]]:
    """for each ordering class: does the atom hold for *every* pair in the class?"""
    if atom[0] != "cmp" or atom[1] not in OPSET:
        return None
    adm = atom_orderings(atom, a, b)
    if adm is None:
        return None
    neg = ("cmp", {"<": ">=", "<=": ">", ">": "<=", ">=": "<", "==": "!=", "!=": "=="}[atom[1]], atom[2], atom[3])
    nadm = atom_orderings(neg, a, b)
    return {o: (o in adm and o not in nadm) for o in ALL}


def path_orderings(conds: List[tuple], a, b) -> frozenset:
    """orderings of (a, b) compatible with all (true) atoms of a path condition"""
    res = set(ALL)
    for c in conds:
        items = c[1] if c[0] == "and" else (c,)
        for at in items:
            o = atom_orderings(at, a, b)
            if o is not None:
                res &= o
    return frozenset(res)
