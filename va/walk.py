"""E2+E4 walker: syntax-directed enumeration of the paths of a function with gated
value reconstruction.  No repository code is executed and no solver is involved: a
path is a list of branch decisions over the syntax tree, values are expression DAGs
over inputs (va.expr), loops are walked once with a *generic* iteration (variables and
fields assigned in the body are havocked), calls are inlined up to a bound.
"""
from __future__ import annotations

import ast
from dataclasses import dataclass, field
from typing import Dict, List, Optional, Tuple

from .expr import C, FALSE, NONE, SELF, TRUE, _norm_node, is_const, is_num_const, mapx, norm, root_of, show, strip_epochs
from .model import AnalysisError, ClassInfo, FuncInfo, ModuleInfo, Program, mangle

BINOPS = {ast.Add: "+", ast.Sub: "-", ast.Mult: "*", ast.Div: "/", ast.FloorDiv: "//", ast.Mod: "%",
          ast.LShift: "<<", ast.RShift: ">>", ast.BitAnd: "&", ast.BitOr: "|", ast.BitXor: "^", ast.Pow: "**",
          ast.MatMult: "@"}
CMPOPS = {ast.Lt: "<", ast.LtE: "<=", ast.Gt: ">", ast.GtE: ">=", ast.Eq: "==", ast.NotEq: "!=", ast.Is: "is",
          ast.IsNot: "isnot", ast.In: "in", ast.NotIn: "notin"}

# builtin container methods (trusted table, DESIGN.md E3)
MUTATING = {"append", "extend", "pop", "remove", "clear", "insert", "sort", "fromlist", "frombytes", "update",
            "setdefault", "popitem", "reverse", "__setitem__", "__delitem__", "add", "discard", "fromfile"}
IO_MUTATING = {"write", "seek", "flush", "close", "truncate", "resize", "writelines", "move", "write_byte"}
READONLY = {"tofile", "tobytes", "index", "count", "get", "keys", "items", "values", "read", "getvalue", "fileno",
            "copy", "lower", "upper", "encode", "decode", "digest", "hexdigest", "format", "join", "startswith",
            "endswith", "exists", "expanduser", "resolve", "open", "find", "rfind", "tolist", "bit_length", "strip",
            "split", "readline", "tell", "is_file", "size", "closed", "unpack", "unpack_from", "pack", "hex", "buffer_info", "fromhex", "isdigit", "replace", "zfill", "rjust", "ljust", "title", "name", "stem", "parent", "with_suffix", "is_dir", "stat", "as_posix", "isascii", "isalpha", "isalnum", "isspace", "islower", "isupper", "casefold", "removeprefix", "removesuffix", "to_bytes", "is_integer", "hexdigest"}
FILE_CTORS = {"open", "BytesIO", "MMap", "mmap"}
IO_TYPES = {"IOBase", "mmap"}
BYTES_TYPES = {"bytes", "bytearray", "memoryview"}


@dataclass
class Event:
    kind: str  # setfield setelem call new return raise yield accum with_enter with_exit
    node: ast.AST
    func: FuncInfo
    loops: Tuple[str, ...]
    ncond: int
    depth: int
    d: dict

    def __getattr__(self, k):
        try:
            return self.__dict__["d"][k]
        except KeyError:
            raise AttributeError(k)

    def where(self) -> str:
        return self.func.where(self.node)

    def brief(self) -> str:
        k = self.kind
        if k == "setfield":
            return f"{show(self.base)}.{self.name} = {show(self.value)}"
        if k == "setelem":
            return f"{show(self.cont)}[{show(self.index)}] = {show(self.value)}"
        if k == "call":
            return f"call {self.name}({', '.join(show(a) for a in self.args)})"
        if k == "new":
            return f"new {self.cls}"
        if k in ("return", "raise", "yield"):
            return f"{k} {show(self.value)}"
        return k


def _calls_own_method(node) -> bool:
    for x in ast.walk(node):
        if isinstance(x, ast.Call) and isinstance(x.func, ast.Attribute):
            v = x.func.value
            if (isinstance(v, ast.Name) and v.id == "self") or (isinstance(v, ast.Call) and isinstance(v.func, ast.Name) and v.func.id == "super"):
                return True
    return False


def _unroll_any_all(test, st):
    """any(f(x) for x in (a, b)) used as a condition is `f(a) or f(b)` (all: and), with the same left-to-right short circuit: a
    comprehension over a short literal sequence is unrolled exactly, like a `for` over one"""
    if not (isinstance(test, ast.Call) and isinstance(test.func, ast.Name) and test.func.id in ("any", "all") and test.func.id not in st.env
            and len(test.args) == 1 and not test.keywords and isinstance(test.args[0], (ast.GeneratorExp, ast.ListComp))):
        return None
    g = test.args[0]
    if len(g.generators) != 1:
        return None
    c = g.generators[0]
    if c.ifs or c.is_async or not isinstance(c.target, ast.Name) or not isinstance(c.iter, (ast.Tuple, ast.List)) or not 0 < len(c.iter.elts) <= 4 \
            or any(isinstance(e, ast.Starred) for e in c.iter.elts):
        return None
    import copy

    class _Sub(ast.NodeTransformer):
        def __init__(self, name, repl):
            self.name, self.repl = name, repl

        def visit_Name(self, node):
            if node.id == self.name and isinstance(node.ctx, ast.Load):
                return copy.deepcopy(self.repl)
            return node
    vals = [_Sub(c.target.id, e).visit(copy.deepcopy(g.elt)) for e in c.iter.elts]
    if len(vals) == 1:
        return ast.copy_location(vals[0], test)
    b = ast.BoolOp(op=ast.Or() if test.func.id == "any" else ast.And(), values=vals)
    ast.copy_location(b, test)
    for v in vals:
        ast.fix_missing_locations(v)
    return b


@dataclass
class Frame:
    func: FuncInfo
    K: Optional[ClassInfo]  # class used to resolve self.* (dynamic class of self_expr)
    self_expr: tuple
    site: str = ""


@dataclass
class Cond:
    atom: tuple
    truth: bool
    node: ast.AST
    func: FuncInfo
    loops: Tuple[str, ...] = ()


class State:
    __slots__ = ("env", "fields", "epochs", "conds", "events", "loops", "exit", "stack", "notes", "gepoch", "last")

    def __init__(self):
        self.env: Dict[str, tuple] = {}
        self.fields: Dict[tuple, tuple] = {}
        self.epochs: Dict[tuple, int] = {}
        self.conds: List[Cond] = []
        self.events: List[Event] = []
        self.loops: Tuple[str, ...] = ()
        self.exit = None
        self.stack: List[Frame] = []
        self.notes: List[str] = []
        self.gepoch = 0
        self.last: Dict[tuple, tuple] = {}  # container -> (its epoch right after the append, the appended value)

    def copy(self) -> "State":
        s = State()
        s.env = dict(self.env)
        s.fields = dict(self.fields)
        s.epochs = dict(self.epochs)
        s.conds = list(self.conds)
        s.events = list(self.events)
        s.loops = self.loops
        s.exit = self.exit
        s.stack = list(self.stack)
        s.notes = list(self.notes)
        s.gepoch = self.gepoch
        s.last = dict(self.last)
        return s

    @property
    def frame(self) -> Frame:
        return self.stack[-1]

    def cond_exprs(self) -> List[tuple]:
        """path condition as a list of normalised atoms that are all true"""
        out = []
        for c in self.conds:
            out.append(c.atom if c.truth else _norm_node(("un", "not", c.atom)) or ("un", "not", c.atom))
        return out


class PathBudget(AnalysisError):
    pass


def _assigned_names(stmts) -> set:
    out = set()
    for st in stmts:
        for n in ast.walk(st):
            if isinstance(n, ast.Name) and isinstance(n.ctx, (ast.Store, ast.Del)):
                out.add(n.id)
    return out


def _is_sequence_value(v) -> bool:
    """v is certainly a list / array / bytes-like value (used to recognise in-place extension)"""
    k = v[0]
    if k in ("lst", "slc"):
        return True
    if k == "slice":
        return _is_sequence_value(v[1]) or v[1][0] == "f"
    if k == "newb":
        return v[1] in ("list", "array", "bytearray")
    if k == "comp":
        return v[1] == "list"
    if k in ("nary", "bin") and v[1] == "*":
        return any(isinstance(x, tuple) and x and _is_sequence_value(x) for x in (v[2] if k == "nary" else v[2:]))
    if k == "call" and v[1] in (("g", "list"), ("g", "bytearray"), ("g", "array"), ("g", "bytes")):
        return True
    if k == "pack" or (k == "call" and v[1][0] == "m" and v[1][2] in ("tobytes", "getvalue", "encode", "pack", "tolist")):
        return True
    if k == "bin" and v[1] == "+":
        return _is_sequence_value(v[2]) or _is_sequence_value(v[3])
    return False


def _is_bytes_value(v) -> bool:
    """v is certainly an immutable bytes value (`x += v` then rebinds x, it extends nothing in place)"""
    k = v[0]
    if k == "pack" or (k == "call" and (v[1] == ("g", "bytes") or (v[1][0] == "m" and v[1][2] in ("tobytes", "getvalue", "encode", "pack")))):
        return True
    if k == "bin" and v[1] == "+":
        return _is_bytes_value(v[2]) or _is_bytes_value(v[3])
    return False


class Walker:
    def __init__(self, prog: Program, ctx: Optional[str] = None, inline: str = "light", max_depth: int = 8,
                 param_types: Optional[Dict[str, str]] = None, max_states: int = 4000,
                 no_inline: Tuple[str, ...] = (), force_inline: Tuple[str, ...] = (), opaque=None):
        self.prog = prog
        self.ctx = prog.cls(ctx) if ctx else None
        self.inline = inline
        self.max_depth = max_depth
        self.param_types = param_types or {}
        self.max_states = max_states
        self.no_inline = set(no_inline)
        self.force_inline = set(force_inline)
        self._qual_index: Dict[str, Optional[FuncInfo]] = {}
        self.opaque = opaque  # in deep mode: qualified names that are never looked through (the anchor table)
        self.memo_transparent = False  # set by a rule that separately checks memoised functions (pure, immutable result)
        self._site = 0
        self._simple_cache: Dict[int, bool] = {}
        self._writes_cache: Dict[Tuple[str, str], set] = {}

    # ------------------------------------------------------------------ entry
    def run(self, func: FuncInfo, self_expr=SELF, args: Optional[Dict[str, tuple]] = None) -> List[State]:
        st = State()
        K = self.ctx if func.cls is not None else None
        if func.cls is not None and K is None:
            K = func.cls
        st.stack.append(Frame(func, K, self_expr if func.kind != "classmethod" else ("cls", K.name if K else "?")))
        self._bind_params(func, st, args or {}, symbolic=True)
        for k, v in (args or {}).items():
            if k not in st.env:
                st.env[k] = v  # free variables of a nested function (closure bindings)
        out = self.block(func.body(), [st])
        for s in out:
            if s.exit is None:
                s.exit = ("return", NONE, None)
        return out

    def _bind_params(self, func: FuncInfo, st: State, given: Dict[str, tuple], symbolic: bool):
        a = func.node.args
        names = [x.arg for x in a.posonlyargs + a.args]
        if func.cls is not None and func.kind in ("method", "classmethod") and names:
            st.env[names[0]] = st.frame.self_expr
            names = names[1:]
        if func.prop and func.cls is not None:
            pass
        for n in names + [x.arg for x in a.kwonlyargs]:
            if n in given:
                st.env[n] = given[n]
            elif symbolic:
                st.env[n] = ("p", n)
            else:
                d = func.defaults.get(n)
                if d is not None:
                    r = self.ev(d, st)
                    st.env[n] = r[0][1]
                else:
                    st.env[n] = ("p", n)
        if a.vararg:
            st.env[a.vararg.arg] = given.get("*", ("p", "*" + a.vararg.arg))
        if a.kwarg:
            st.env[a.kwarg.arg] = ("p", "**" + a.kwarg.arg)

    # ------------------------------------------------------------------ helpers
    def site(self, st: State, node: ast.AST) -> str:
        f = st.frame.func
        return f"{f.src_name}@{getattr(node, 'lineno', 0)}:{getattr(node, 'col_offset', 0)}"

    def emit(self, st: State, kind: str, node: ast.AST, **d) -> Event:
        e = Event(kind, node, st.frame.func, st.loops, len(st.conds), len(st.stack), d)
        if st.exit is None:
            # a state that already left (an inlined callee raised while this statement's expression was evaluated) does nothing more
            st.events.append(e)
        return e

    def typeof(self, e: tuple, st: State) -> Optional[ClassInfo]:
        if e == SELF:
            for fr in reversed(st.stack):
                if fr.self_expr == SELF:
                    return fr.K
            return self.ctx
        for fr in reversed(st.stack):
            if fr.self_expr == e and fr.K is not None:
                return fr.K
        k = e[0]
        if k == "new":
            return self.prog.classes.get(e[1])
        if k == "ret":
            g = self._func_by_any_qual(e[1].split("@")[0])
            if g is not None:
                t = func_ret_class(self.prog, g)
                return self.prog.classes.get(t) if t else None
            return None
        if k == "p":
            t = self.param_types.get(e[1])
            if t == "<ctx>":
                return self.ctx
            return self.prog.classes.get(t) if t else None
        if k in ("sub", "it"):
            base = e[1] if k == "sub" else e[2]
            t = self._elem_class(base, st)
            return t
        if k == "call" and e[1] == ("g", "next") and e[2] and e[2][0][0] == "comp":
            return self.typeof(e[2][0][2], st)  # next(<generator>, default): an element of the generator (or the default)
        if k == "f":
            owner = self.typeof(e[1], st)
            if owner is not None:
                t = field_class(self.prog, owner, e[2])
                if t:
                    return self.prog.classes.get(t)
        return None

    def _elem_class(self, cont: tuple, st: State) -> Optional[ClassInfo]:
        depth = 1
        while cont[0] in ("sub", "it", "slice"):
            if cont[0] == "slice":
                cont = cont[1]  # a slice of a list holds the same kind of elements
                continue
            cont = cont[1] if cont[0] == "sub" else cont[2]
            depth += 1
        if cont[0] == "f":
            owner = self.typeof(cont[1], st)
            if owner is not None:
                t = field_elem_class(self.prog, owner, cont[2], depth)
                if t:
                    return self.prog.classes.get(t)
        return None

    def lexical_cls(self, st: State) -> Optional[str]:
        c = st.frame.func.cls
        return c.name if c else None

    def key_of(self, cont: tuple) -> tuple:
        r = cont
        last_field = None
        while isinstance(r, tuple) and r and r[0] in ("f", "sub", "slice", "it"):
            if r[0] == "f":
                last_field = r[2]
                r = r[1]
            elif r[0] == "it":
                r = r[2]
            else:
                r = r[1]
        if last_field is not None:
            # outermost field in the access path names the storage
            f = cont
            name = None
            while isinstance(f, tuple) and f and f[0] in ("f", "sub", "slice", "it"):
                if f[0] == "f":
                    name = f[2]
                f = f[2] if f[0] == "it" else f[1]
            return ("F", name)
        if r and r[0] in ("newb", "new"):
            return ("N", r[2])
        return ("X", show(r))

    def bump(self, st: State, cont: tuple):
        k = self.key_of(cont)
        st.gepoch += 1
        st.epochs[k] = st.gepoch

    def bump_all(self, st: State):
        st.gepoch += 1
        st.epochs = {("ALL",): st.gepoch}
        st.fields = {k: v for k, v in st.fields.items() if root_of(k[0])[0] in ("new", "newb")}

    def epoch(self, st: State, cont: tuple) -> int:
        return max(st.epochs.get(self.key_of(cont), 0), st.epochs.get(("ALL",), 0))

    # ------------------------------------------------------------------ statements
    def block(self, stmts, states: List[State]) -> List[State]:
        for stn in stmts:
            nxt = []
            for s in states:
                if s.exit is not None:
                    nxt.append(s)
                else:
                    nxt.extend(self.stmt(stn, s))
            states = nxt
            if len(states) > self.max_states:
                raise PathBudget(f"path budget exceeded ({len(states)} states) in {states[0].stack[0].func.qualname}")
        return states

    def stmt(self, n: ast.stmt, st: State) -> List[State]:
        m = getattr(self, "s_" + type(n).__name__, None)
        if m is None:
            raise AnalysisError(f"unsupported statement {type(n).__name__} at {st.frame.func.where(n)}")
        return m(n, st)

    def s_Pass(self, n, st):
        return [st]

    def s_Global(self, n, st):
        raise AnalysisError(f"unsupported statement global at {st.frame.func.where(n)}")

    s_Nonlocal = s_Global

    def s_Import(self, n, st):
        return [st]

    s_ImportFrom = s_Import

    def s_FunctionDef(self, n, st):
        f = st.frame.func
        nf = f.nested.get(n.name)
        st.env[n.name] = ("func", nf.qualname if nf else n.name)
        return [st]

    def s_Expr(self, n, st):
        if isinstance(n.value, ast.Constant):
            return [st]
        return [s for s, _ in self.ev(n.value, st)]

    def s_Return(self, n, st):
        if n.value is None:
            self.emit(st, "return", n, value=NONE)
            st.exit = ("return", NONE, n)
            return [st]
        out = []
        for s, v in self.ev(n.value, st):
            if s.exit is None:
                self.emit(s, "return", n, value=v)
                s.exit = ("return", v, n)
            out.append(s)
        return out

    def s_Raise(self, n, st):
        if n.exc is None:
            self.emit(st, "raise", n, value=("unk", "reraise"))
            st.exit = ("raise", ("unk", "reraise"), n)
            return [st]
        out = []
        # evaluate the exception *type* only; message construction is irrelevant and may contain f-strings
        exc = n.exc
        factory = None
        if isinstance(exc, ast.Call) and isinstance(exc.func, ast.Name) and exc.func.id not in st.env:
            # raise make_error(...): a module-level function of the package that builds the exception - what is raised is what it returns
            g = self.prog.functions.get(exc.func.id) if hasattr(self.prog, "functions") else None
            if g is not None and g.cls is None:
                rets = [x.value for x in ast.walk(g.node) if isinstance(x, ast.Return) and x.value is not None]
                if len(rets) == 1 and isinstance(rets[0], ast.Call) and isinstance(rets[0].func, ast.Name):
                    factory = rets[0].func.id
        if isinstance(exc, ast.Call):
            nm = factory or ast.unparse(exc.func)
            pairs = self.ev_seq(exc.args, st)
            for s, vals in pairs:
                v = ("call", ("g", nm), tuple(vals), ())
                if s.exit is None:
                    self.emit(s, "raise", n, value=v, exc=nm)
                    s.exit = ("raise", v, n)
                out.append(s)
        else:
            nm = ast.unparse(exc)
            v = ("call", ("g", nm), (), ())
            self.emit(st, "raise", n, value=v, exc=nm)
            st.exit = ("raise", v, n)
            out.append(st)
        return out

    def s_Break(self, n, st):
        st.exit = ("break", None, n)
        return [st]

    def s_Continue(self, n, st):
        st.exit = ("continue", None, n)
        return [st]

    def s_Assert(self, n, st):
        out = []
        for s, truth in self.split(n.test, st):
            if not truth:
                self.emit(s, "raise", n, value=("call", ("g", "AssertionError"), (), ()), exc="AssertionError")
                s.exit = ("raise", ("call", ("g", "AssertionError"), (), ()), n)
            out.append(s)
        return out

    def s_If(self, n, st):
        out = []
        for s, truth in self.split(n.test, st):
            out.extend(self.block(n.body if truth else n.orelse, [s]))
        return out

    def s_Assign(self, n, st):
        out = []
        for s, v in self.ev(n.value, st):
            cur = [s]
            for t in n.targets:
                nxt = []
                for s2 in cur:
                    nxt.extend(self.assign(t, v, s2, n))
                cur = nxt
            out.extend(cur)
        return out

    def s_AnnAssign(self, n, st):
        if n.value is None:
            return [st]
        out = []
        for s, v in self.ev(n.value, st):
            out.extend(self.assign(n.target, v, s, n))
        return out

    def s_AugAssign(self, n, st):
        op = BINOPS[type(n.op)]
        out = []
        # read target, evaluate value, store
        load = _as_load(n.target)
        for s, cur in self.ev(load, st):
            for s2, v in self.ev(n.value, s):
                val = self.mk_bin(op, cur, v)
                if op == "+" and _is_sequence_value(v) and not _is_bytes_value(v) and cur[0] not in ("c", "lst", "tup", "pack"):
                    # `x += <sequence>`: x is a sequence too, and list / array / bytearray extend IN PLACE - whatever x aliases changes
                    self.emit(s2, "call", n, name="__iadd__", target=None, recv=cur, args=[v], kwargs={}, inlined=False, mutates=True, result=cur)
                    self.bump(s2, cur)
                out.extend(self.assign(n.target, val, s2, n, aug=op, addend=v))
        return out

    def s_Delete(self, n, st):
        out = [st]
        for t in n.targets:
            if isinstance(t, ast.Subscript):
                nxt = []
                for s in out:
                    for s2, vals in self.ev_seq([t.value, t.slice], s):
                        self.emit(s2, "call", n, name="__delitem__", target=None, recv=vals[0], args=[vals[1]], kwargs={},
                                  inlined=False, mutates=True, result=NONE)
                        self.bump(s2, vals[0])
                        nxt.append(s2)
                out = nxt
            elif isinstance(t, ast.Name):
                for s in out:
                    s.env.pop(t.id, None)
            else:
                raise AnalysisError(f"unsupported del target at {st.frame.func.where(n)}")
        return out

    def s_With(self, n, st):
        cur = [st]
        entered = []
        for item in n.items:
            nxt = []
            for s in cur:
                for s2, v in self.ev(item.context_expr, s):
                    self.emit(s2, "with_enter", n, value=v)
                    if item.optional_vars is not None:
                        nxt.extend(self.assign(item.optional_vars, v, s2, n))
                    else:
                        nxt.append(s2)
                    entered.append(v)
            cur = nxt
        out = self.block(n.body, cur)
        for s in out:
            self.emit(s, "with_exit", n, value=entered[0] if entered else NONE)
        return out

    def s_Try(self, n, st):
        # over-approximation: handlers start from the state before the body
        before = st.copy()
        out = self.block(n.body, [st])
        res = []
        for s in out:
            if s.exit is None:
                res.extend(self.block(n.orelse, [s]))
            else:
                res.append(s)
        for h in n.handlers:
            s = before.copy()
            s.notes.append(f"try/except approximated at {st.frame.func.where(n)}")
            self.bump_all(s)
            if h.name:
                s.env[h.name] = ("unk", "exception")
            res.extend(self.block(h.body, [s]))
        if n.finalbody:
            fin = []
            for s in res:
                ex = s.exit
                s.exit = None
                for s2 in self.block(n.finalbody, [s]):
                    if s2.exit is None:
                        s2.exit = ex
                    fin.append(s2)
            res = fin
        return res

    # loops -------------------------------------------------------------
    def _havoc(self, st: State, body, lid: str, tag: str):
        for name in sorted(_assigned_names(body)):
            if name in st.env:
                if tag == "" and body:
                    # what a loop-carried variable holds when the loop is entered (its value in the first iteration)
                    self.emit(st, "loopinit", body[0], name=name, lid=lid, value=st.env[name])
                st.env[name] = ("hv", name, lid + tag)
        # a list the body grows or shrinks: what its last element is at the top of an iteration is not what it was before the loop
        if st.last and any(isinstance(n, ast.Call) and isinstance(n.func, ast.Attribute) and n.func.attr in MUTATING for stn in body for n in ast.walk(stn)) or \
                any(isinstance(n, ast.AugAssign) for stn in body for n in ast.walk(stn)):
            st.last.clear()
        for stn in body:
            for n in ast.walk(stn):
                if isinstance(n, ast.Call) and isinstance(n.func, ast.Attribute) and n.func.attr in MUTATING and isinstance(n.func.value, ast.Name) \
                        and n.func.value.id in st.env and isinstance(st.env[n.func.value.id], tuple) and st.env[n.func.value.id][0] in ("lst", "newb", "comp"):
                    self.bump(st, st.env[n.func.value.id])  # a local container the body changes
        # fields and containers written in the body (syntactically or through callees)
        keys = self._body_writes(body, st)
        if ("ALL",) in keys:
            self.bump_all(st)
            if tag == "" and body:
                self.emit(st, "loophavoc", body[0], name=lid, lid=lid, fields={"*": st.gepoch})
            return
        for k in keys:
            st.gepoch += 1
            st.epochs[k] = st.gepoch
        if tag == "" and body and keys:
            # which fields the body may write, and the read epoch from which on a read sees the loop's own writes: a value read
            # before the loop (a hoisted local) has a smaller one
            self.emit(st, "loophavoc", body[0], name=lid, lid=lid, fields={k[1]: st.epochs[k] for k in keys if k[0] == "F"})
        if keys:
            names = {k[1] for k in keys if k[0] == "F"}
            for fk in list(st.fields):
                if fk[1] in names and root_of(fk[0])[0] not in ("new", "newb"):
                    del st.fields[fk]

    def _body_writes(self, body, st: State) -> set:
        keys = set()
        lex = self.lexical_cls(st)
        K = st.frame.K
        for stn in body:
            for n in ast.walk(stn):
                tgt = None
                if isinstance(n, (ast.Assign, ast.AugAssign, ast.AnnAssign)):
                    tgts = n.targets if isinstance(n, ast.Assign) else [n.target]
                    for t in tgts:
                        for x in ast.walk(t):
                            if isinstance(x, ast.Attribute) and isinstance(x.ctx, ast.Store):
                                if isinstance(x.value, ast.Name) and x.value.id == "self":
                                    keys.add(("F", self._field_alias(K, mangle(lex, x.attr))))
                                else:
                                    # a store through another object: its own field of that name, not self's property of that name
                                    keys.add(("F", mangle(lex, x.attr)))
                                    keys.add(("F", "_" + x.attr.lstrip("_")))
                            elif isinstance(x, ast.Subscript) and isinstance(x.ctx, ast.Store):
                                fn = _outer_attr(x.value)
                                if fn:
                                    keys.add(("F", self._field_alias(K, mangle(lex, fn))))
                                else:
                                    keys.add(("LOCAL", ast.unparse(x.value)))
                elif isinstance(n, ast.Call) and isinstance(n.func, ast.Attribute):
                    a = n.func
                    recv_self = isinstance(a.value, ast.Name) and a.value.id in ("self",)
                    is_super = isinstance(a.value, ast.Call) and isinstance(a.value.func, ast.Name) and a.value.func.id == "super"
                    if (recv_self or is_super) and K is not None:
                        f = K.find_method(mangle(lex, a.attr))
                        if f is not None:
                            keys |= self.may_write(f, K)
                            continue
                    if a.attr in MUTATING or a.attr in IO_MUTATING:
                        fn = _outer_attr(a.value)
                        if fn:
                            keys.add(("F", self._field_alias(K, mangle(lex, fn))))
                    elif a.attr not in READONLY:
                        fn = _outer_attr(a.value)
                        if fn:
                            keys.add(("F", self._field_alias(K, mangle(lex, fn))))
        return keys

    def _field_alias(self, K: Optional[ClassInfo], name: str) -> str:
        if K is None:
            return name
        g = K.find_getter(name)
        if g is not None:
            al = getter_alias(g)
            if al:
                return al
        return name

    def may_write(self, f: FuncInfo, K: ClassInfo, _seen=None) -> set:
        """syntactic over-approximation of storage keys a method may write (transitively, self-calls)"""
        ck = (f.qualname, K.name)
        if ck in self._writes_cache:
            return self._writes_cache[ck]
        seen = _seen or set()
        if ck in seen:
            return set()
        seen.add(ck)
        keys = set()
        lex = f.cls.name if f.cls else None
        for n in ast.walk(f.node):
            if isinstance(n, ast.Attribute) and isinstance(n.ctx, ast.Store):
                keys.add(("F", self._field_alias(K, mangle(lex, n.attr))))
            elif isinstance(n, ast.Subscript) and isinstance(n.ctx, ast.Store):
                fn = _outer_attr(n.value)
                if fn:
                    keys.add(("F", self._field_alias(K, mangle(lex, fn))))
            elif isinstance(n, ast.Call) and isinstance(n.func, ast.Attribute):
                a = n.func
                recv_self = isinstance(a.value, ast.Name) and a.value.id in ("self", "cls")
                is_super = isinstance(a.value, ast.Call) and isinstance(a.value.func, ast.Name) and a.value.func.id == "super"
                if recv_self or is_super:
                    g = K.find_method(mangle(lex, a.attr), after=lex if is_super else None)
                    if g is not None:
                        keys |= self.may_write(g, K, seen)
                        continue
                fn = _outer_attr(a.value)
                if fn and a.attr not in READONLY:
                    keys.add(("F", self._field_alias(K, mangle(lex, fn))))
        if _seen is None:
            self._writes_cache[ck] = keys
        return keys

    def s_For(self, n, st):
        out = []
        lid = self.site(st, n)
        for s0, dom in self.ev(n.iter, st):
            if s0.exit is not None:
                out.append(s0)
                continue
            if dom[0] in ("tup", "lst") and 0 < len(dom[1]) <= 4 and not n.orelse:
                # a loop over a short literal sequence is unrolled exactly: no generic iteration, no havoc
                cur = [s0]
                for el in dom[1]:
                    nxt = []
                    for s in cur:
                        if s.exit is not None:
                            nxt.append(s)
                            continue
                        for s1 in self.assign(n.target, el, s, n):
                            for s2 in self.block(n.body, [s1]):
                                if s2.exit is not None and s2.exit[0] == "continue":
                                    s2.exit = None
                                nxt.append(s2)
                    cur = nxt
                for s in cur:
                    if s.exit is not None and s.exit[0] == "break":
                        s.exit = None
                        self.emit(s, "loopbreak", n, lid=lid)
                    out.append(s)
                continue
            # (a) zero iterations
            sa = s0.copy()
            sa.conds.append(Cond(("loop0", lid, dom), True, n, sa.frame.func, sa.loops))
            out.extend(self.block(n.orelse, [sa]) if n.orelse else [sa])
            # (b) one generic iteration
            sb = s0
            self._havoc(sb, n.body, lid, "")
            sb.loops = sb.loops + (lid,)
            for sb2 in self.bind_loop_target(n.target, dom, lid, sb, n):
                for s in self.block(n.body, [sb2]):
                    s.loops = s.loops[:-1] if s.loops and s.loops[-1] == lid else s.loops
                    if s.exit is None or s.exit[0] == "continue":
                        s.exit = None
                        self._havoc(s, n.body, lid, "+")
                        _rehavoc_target(s, n.target, lid)
                        out.extend(self.block(n.orelse, [s]) if n.orelse else [s])
                    elif s.exit[0] == "break":
                        s.exit = None
                        self.emit(s, "loopbreak", n, lid=lid)  # the loop was left early: later elements were not visited
                        out.append(s)
                    else:
                        out.append(s)
        return out

    def bind_loop_target(self, target, dom, lid, st, node) -> List[State]:
        return self.assign(target, self.elem_of(lid, dom), st, node)

    def elem_of(self, lid, dom):
        """the element a loop over `dom` binds in its generic iteration; enumerate / zip give structured elements whose
        parts share the loop id (same position in every zipped sequence)"""
        if dom[0] == "call" and dom[1] == ("g", "enumerate") and len(dom[2]) >= 1 and not dom[3]:
            xs = dom[2][0]
            ix = ("ix", lid, xs)
            if len(dom[2]) == 2:
                ix = self.mk_bin("+", ix, dom[2][1])
            return ("tup", (ix, self.elem_of(lid, xs)))
        if dom[0] == "call" and dom[1] == ("g", "zip") and len(dom[2]) >= 1 and not dom[3]:
            return ("tup", tuple(self.elem_of(lid, x) for x in dom[2]))
        if dom[0] == "comp" and dom[1] == "list" and len(dom[3]) == 1 and not dom[3][0][3] and dom[2][0] == "new":
            return dom[2]  # a list of freshly constructed objects: its generic element is that (abstract) object
        return ("it", lid, dom)

    def s_While(self, n, st):
        out = []
        lid = self.site(st, n)
        # (a) condition false at entry
        first = self.split(n.test, st.copy())
        for s, truth in first:
            if not truth:
                out.extend(self.block(n.orelse, [s]) if n.orelse else [s])
        if first and all(not truth for _, truth in first):
            return out  # the test is already decided false by what the path knows: the body never runs
        # (b) generic iteration
        sb = st
        self._havoc(sb, n.body + [ast.Expr(n.test)], lid, "")
        sb.loops = sb.loops + (lid,)
        for s, truth in self.split(n.test, sb):
            if not truth:
                continue
            for s2 in self.block(n.body, [s]):
                s2.loops = s2.loops[:-1] if s2.loops and s2.loops[-1] == lid else s2.loops
                if s2.exit is None or s2.exit[0] == "continue":
                    s2.exit = None
                    self._havoc(s2, n.body, lid, "+")
                    for s3, t3 in self.split(n.test, s2):
                        if not t3:
                            out.extend(self.block(n.orelse, [s3]) if n.orelse else [s3])
                        elif isinstance(n.test, ast.Constant):
                            # `while True`: this iteration is followed by another one; keep it as a prefix path so that its
                            # events (stores, bindings of loop-carried variables) stay visible to whole-function analyses
                            s3.exit = ("loop", NONE, n)
                            out.append(s3)
                elif s2.exit[0] == "break":
                    s2.exit = None
                    out.append(s2)
                else:
                    out.append(s2)
        return out

    # ------------------------------------------------------------------ assignment
    def assign(self, t, v, st: State, node, aug=None, addend=None) -> List[State]:
        if st.exit is not None:
            return [st]
        if isinstance(t, ast.Name):
            prev = st.env.get(t.id)
            if st.loops and prev is not None and prev != v:
                # accumulation  x = x (op) e  in either spelling (x += e  or  x = x + e)
                if v[0] == "nary" and v[1] in ("+", "*", "|", "&", "^") and prev in v[2]:
                    rest = [x for x in v[2] if x != prev] if v[2].count(prev) == 1 else None
                    if rest:
                        self.emit(st, "accum", node, name=t.id, op=v[1], addend=rest[0] if len(rest) == 1 else ("nary", v[1], tuple(rest)), prev=prev)
                elif v[0] == "bin" and v[2] == prev and v[1] in ("-", "//", "%", "<<", ">>"):
                    self.emit(st, "accum", node, name=t.id, op=v[1], addend=v[3], prev=prev)
            st.env[t.id] = v
            self.emit(st, "bind", node, name=t.id, value=v)
            return [st]
        if isinstance(t, (ast.Tuple, ast.List)):
            cur = [st]
            for i, el in enumerate(t.elts):
                if isinstance(el, ast.Starred):
                    raise AnalysisError(f"starred assignment unsupported at {st.frame.func.where(node)}")
                vi = self.index_value(v, C(i), st)
                cur = [s2 for s in cur for s2 in self.assign(el, vi, s, node)]
            return cur
        if isinstance(t, ast.Attribute):
            out = []
            for s, base in self.ev(t.value, st):
                out.extend(self.set_attr(base, t.attr, v, s, node, aug=aug, addend=addend))
            return out
        if isinstance(t, ast.Subscript):
            out = []
            for s, vals in self.ev_seq([t.value, t.slice], st):
                cont, idx = vals
                cls = self.typeof(cont, s)
                if cls is not None:
                    f = cls.find_method("__setitem__")
                    if f is not None:
                        for s2, _ in self.call_func(f, cont, [idx, v], {}, s, node, name="__setitem__"):
                            out.append(s2)
                        continue
                self.emit(s, "setelem", node, cont=cont, index=idx, value=v, aug=aug, addend=addend)
                self.bump(s, cont)
                if cont[0] != "slc" and idx[0] != "slc":
                    # store-to-load forwarding: until the container changes again, reading this very position gives what was stored
                    s.last[(self.key_of(cont), strip_epochs(cont), strip_epochs(idx))] = (self.epoch(s, cont), v)
                out.append(s)
            return out
        raise AnalysisError(f"unsupported assignment target {type(t).__name__} at {st.frame.func.where(node)}")

    def set_attr(self, base, attr, v, st: State, node, aug=None, addend=None) -> List[State]:
        cls = self.typeof(base, st)
        name = mangle(self.lexical_cls(st), attr)
        if cls is not None:
            setter = cls.find_setter(name)
            if setter is not None:
                al = setter_alias(setter)
                if al:
                    name = al
                else:
                    return [s for s, _ in self.call_func(setter, base, [v], {}, st, node, name=attr, force=True)]
            elif cls.find_getter(name) is not None:
                st.notes.append(f"assignment to read-only property {attr} at {st.frame.func.where(node)}")
        self.emit(st, "setfield", node, base=base, name=name, value=v, aug=aug, addend=addend)
        st.fields[(base, name)] = v
        st.gepoch += 1
        st.epochs[("F", name)] = st.gepoch
        return [st]

    # ------------------------------------------------------------------ conditions
    def split(self, test, st: State) -> List[Tuple[State, bool]]:
        unrolled = _unroll_any_all(test, st)
        if unrolled is not None:
            test = unrolled
        if isinstance(test, ast.BoolOp):
            is_and = isinstance(test.op, ast.And)
            results = []
            pending = [st]
            for i, v in enumerate(test.values):
                nxt = []
                for s in pending:
                    for s2, truth in self.split(v, s):
                        if truth == is_and:
                            nxt.append(s2)
                        else:
                            results.append((s2, truth))
                pending = nxt
            for s in pending:
                results.append((s, is_and))
            return results
        if isinstance(test, ast.UnaryOp) and isinstance(test.op, ast.Not):
            return [(s, not t) for s, t in self.split(test.operand, st)]
        out = []
        for s, v in self.ev(test, st):
            out.extend(self.split_value(v, s, test))
        return out

    def split_value(self, v, s: State, test) -> List[Tuple[State, bool]]:
        """branch on an already evaluated value; a stored boolean combination (x = a or b; if x:) is decided operand by operand,
        exactly like the same combination written in the test"""
        if v[0] in ("or", "and") and len(v) == 2 and (isinstance(test, ast.Name) or _tuple_compare(test)):
            is_and = v[0] == "and"
            results = []
            pending = [s]
            for x in v[1]:
                nxt = []
                for s1 in pending:
                    for s2, truth in self.split_value(x, s1, test):
                        if truth == is_and:
                            nxt.append(s2)
                        else:
                            results.append((s2, truth))
                pending = nxt
            results.extend((s1, is_and) for s1 in pending)
            return results
        if v[0] == "un" and v[1] == "not" and isinstance(test, ast.Name):
            return [(s2, not t) for s2, t in self.split_value(v[2], s, test)]
        if s.exit is not None:
            return [(s, True)]
        v = self.decide(v, s)
        if is_const(v):
            return [(s, bool(v[1]))]
        if v[0] == "un" and v[1] == "not":
            return [(s2, not t) for s2, t in self.split_value(v[2], s, test)]  # conditions are recorded on the positive atom
        for c in s.conds:
            if c.atom == v and not _loop_stale(c, s):
                return [(s, c.truth)]
        s_t = s.copy()
        s_t.conds.append(Cond(v, True, test, s.frame.func, s.loops))
        s.conds.append(Cond(v, False, test, s.frame.func, s.loops))
        return [(s_t, True), (s, False)]

    def _hv_nonnull(self, x, st: State) -> bool:
        """a loop-carried variable is an object when its value at loop entry and every value bound to it in the loop are objects"""
        name, lid = x[1], x[2].rstrip("+")
        vals = [e.value for e in st.events if (e.kind == "loopinit" and e.name == name and e.lid == lid)
                or (e.kind == "bind" and e.name == name and e.loops and e.loops[-1] == lid)]
        if not any(e.kind == "loopinit" and e.name == name and e.lid == lid for e in st.events):
            return False

        def obj(v):
            return v[0] in ("new", "newb", "lst", "tup", "fileobj") or (v[0] in ("it", "sub") and self.typeof(v, st) is not None) \
                or (v[0] == "hv" and v[1] == name)
        return bool(vals) and all(obj(v) for v in vals)

    def decide(self, v, st: State):
        """fold what the tags decide: isinstance on file objects, None tests on known values"""
        if v[0] == "call" and v[1] == ("g", "isinstance") and len(v[2]) == 2:
            x, ty = v[2]
            names = set()
            for t in (ty[1] if ty[0] == "tup" else (ty,)):
                if t[0] in ("ext", "g", "cls"):
                    names.add(t[-1])
                else:
                    names.add(show(t))
            if x[0] == "fileobj":
                kind = x[2]
                if kind in ("open", "BytesIO") and "IOBase" in names:
                    return TRUE
                if kind in ("MMap", "mmap") and "mmap" in names:
                    return TRUE
                return v
            if x[0] in ("call", "ret") and "resolve_path" in show(x[1])[:40]:
                if names <= (IO_TYPES | BYTES_TYPES | {"str", "int", "float", "Number"}):
                    return FALSE
            if x[0] == "new":
                c = self.prog.classes.get(x[1])
                if c is not None:
                    return C(any(c.is_subclass_of(nm) for nm in names))
            if x[0] == "c" and x[1] is None:
                return FALSE
            if x[0] == "c" and isinstance(x[1], str):
                return C("str" in names)
        if v[0] == "cmp" and v[1] in ("is", "isnot") and v[3] == NONE:
            x = v[2]
            nonnull = x[0] in ("new", "newb", "fileobj", "lst", "tup", "struct", "func", "cls", "bm", "pack", "comp", "nary", "bin", "unp", "fstr") \
                or (x[0] == "c" and x[1] is not None)
            if x == NONE:
                return C(v[1] == "is")
            if x[0] == "call" and x[1][0] == "g" and x[1][1] in ("int", "float", "str", "bytes", "len", "bool", "list", "tuple", "sorted", "bytearray"):
                nonnull = True
            if not nonnull and x[0] in ("it", "sub") and self.typeof(x, st) is not None:
                nonnull = True  # an element of a collection that only ever receives constructed objects
            if not nonnull and x[0] == "hv":
                nonnull = self._hv_nonnull(x, st)
            if not nonnull and x[0] == "p" and st.stack:
                # a parameter annotated with a plain scalar type is not None (typing contract of the analysed entry point)
                fa = st.stack[0].func.node.args
                for a_ in fa.posonlyargs + fa.args + fa.kwonlyargs:
                    if a_.arg == x[1] and isinstance(a_.annotation, ast.Name) and a_.annotation.id in ("int", "float", "str", "bool", "bytes"):
                        nonnull = True
            if nonnull or (is_const(x) and x[1] is not None):
                return C(v[1] == "isnot")
        return v

    # ------------------------------------------------------------------ expressions
    def ev_seq(self, nodes, st: State) -> List[Tuple[State, list]]:
        cur = [(st, [])]
        for n in nodes:
            nxt = []
            for s, vals in cur:
                for s2, v in self.ev(n, s):
                    nxt.append((s2, vals + [v]))
            cur = nxt
        return cur

    def ev(self, n: ast.expr, st: State) -> List[Tuple[State, tuple]]:
        m = getattr(self, "e_" + type(n).__name__, None)
        if m is None:
            return [(st, ("unk", type(n).__name__))]
        return m(n, st)

    def e_Constant(self, n, st):
        return [(st, C(n.value))]

    def e_Name(self, n, st):
        if n.id in st.env:
            return [(st, st.env[n.id])]
        return [(st, self.global_name(n.id, st))]

    def global_name(self, name: str, st: State):
        m = st.frame.func.module
        # class-body names are visible only during static evaluation of class constants
        r = self.prog.resolve_global(m, name)
        if r is None:
            return ("g", name)
        if r[0] == "class":
            return ("cls", r[1].name)
        if r[0] == "func":
            return ("func", r[1].qualname)
        if r[0] == "const":
            return self.static_eval(r[1], r[2], None)
        if r[0] == "ext":
            return ("ext", r[1], r[2])
        if r[0] == "extmod":
            return ("extmod", r[1])
        return ("g", name)

    def static_eval(self, node: ast.expr, module: ModuleInfo, cls: Optional[ClassInfo]):
        st = State()
        dummy = FuncInfo("<static>", "<static>", (cls.name if cls else module.name) + ".<static>", module, cls,
                         ast.FunctionDef(name="<static>", args=ast.arguments(posonlyargs=[], args=[], kwonlyargs=[],
                                                                              kw_defaults=[], defaults=[]),
                                         body=[], decorator_list=[], lineno=getattr(node, "lineno", 0), col_offset=0))
        st.stack.append(Frame(dummy, cls, ("cls", cls.name) if cls else ("mod", module.name)))
        if cls is not None:
            for k, v in cls.consts.items():
                # unmangled spelling visible in class body
                pass
            st.env = _ClassEnv(self, cls, module)
        r = self.ev(node, st)
        return r[0][1]

    def e_Attribute(self, n, st):
        out = []
        for s, base in self.ev(n.value, st):
            out.extend(self.get_attr(base, n.attr, s, n))
        return out

    def get_attr(self, base, attr, st: State, node) -> List[Tuple[State, tuple]]:
        k = base[0]
        if k == "struct":
            if attr == "size":
                import struct as _s
                try:
                    return [(st, C(_s.calcsize(base[1])))]
                except Exception:
                    return [(st, ("unk", f"calcsize({base[1]!r})"))]
            if attr == "format":
                return [(st, C(base[1]))]
            return [(st, ("bm", base, attr))]
        if k == "extmod":
            return [(st, ("ext", base[1], attr))]
        if k == "ext":
            return [(st, ("ext", base[1] + "." + base[2], attr))]
        if k == "super":
            K = st.frame.K
            lex = self.lexical_cls(st)
            name = mangle(lex, attr)
            f = K.find_method(name, after=lex) if K else None
            if f is not None:
                return [(st, ("bm", st.frame.self_expr, f.name, f.cls.name))]
            return [(st, ("bm", ("super",), attr))]
        name = mangle(self.lexical_cls(st), attr)
        cls = None
        if k == "cls":
            cls = self.prog.classes.get(base[1])
        else:
            cls = self.typeof(base, st)
        if cls is not None:
            if k != "cls":
                g = cls.find_getter(name)
                if g is not None:
                    al = getter_alias(g)
                    if al:
                        return [(st, self.read_field(base, al, st))]
                    return self.call_func(g, base, [], {}, st, node, name=attr, force=True)
            f = cls.find_method(name)
            if f is not None:
                return [(st, ("bm", base, f.name, f.cls.name))]
            cc = cls.find_const(name)
            if cc is not None:
                return [(st, self.static_eval(cc[1], cc[0].module, cc[0]))]
            if k == "cls":
                return [(st, ("f", base, name, 0))]
            return [(st, self.read_field(base, name, st))]
        if k in ("self", "new") or (k == "p" and base[1] in self.param_types):
            return [(st, self.read_field(base, name, st))]
        return [(st, self.read_field(base, name, st))]

    def read_field(self, base, name, st: State):
        v = st.fields.get((base, name))
        if v is not None:
            return v
        prov = getattr(self, "alias_provider", None)
        if prov is not None:
            K = self.typeof(base, st)
            if K is not None:
                F = prov(K.name).get(name)
                if F is not None:
                    return self.index_value(self.read_field(base, F, st), C(-1), st)  # a proved alias of the list's last element
        return ("f", base, name, max(st.epochs.get(("F", name), 0), st.epochs.get(("ALL",), 0)))

    def e_Subscript(self, n, st):
        out = []
        if isinstance(n.slice, ast.Slice):
            sl = n.slice
            parts = [n.value] + [x if x is not None else ast.Constant(None) for x in (sl.lower, sl.upper, sl.step)]
            for s, vals in self.ev_seq(parts, st):
                out.append((s, ("slice", vals[0], vals[1], vals[2], vals[3])))
            return out
        for s, vals in self.ev_seq([n.value, n.slice], st):
            cont, idx = vals
            cls = self.typeof(cont, s)
            if cls is not None:
                f = cls.find_method("__getitem__")
                if f is not None:
                    out.extend(self.call_func(f, cont, [idx], {}, s, n, name="__getitem__"))
                    continue
            out.append((s, self.index_value(cont, idx, s)))
        return out

    def e_Slice(self, n, st):
        parts = [x if x is not None else ast.Constant(None) for x in (n.lower, n.upper, n.step)]
        return [(s, ("slc", v[0], v[1], v[2])) for s, v in self.ev_seq(parts, st)]

    def index_value(self, cont, idx, st: State):
        if cont[0] in ("tup", "lst") and is_const(idx) and isinstance(idx[1], int) and -len(cont[1]) <= idx[1] < len(cont[1]) \
                and (cont[0] == "tup" or self.epoch(st, cont) == 0):
            return cont[1][idx[1]]
        if cont[0] == "unpall" and is_const(idx) and isinstance(idx[1], int):
            return ("unp", cont[1], idx[1], cont[2])
        if cont[0] == "it" and cont[2][0] == "iterunp" and is_const(idx) and isinstance(idx[1], int):
            return ("unp", cont[2][1], idx[1], ("chunk", cont[2][2], cont[1]))  # for a, b in S.iter_unpack(buf)
        if cont[0] == "comp" and cont[1] == "list" and len(cont[3]) == 1 and not cont[3][0][3] and cont[2][0] == "new":
            return cont[2]  # any element of a list of freshly constructed objects is that (abstract) object
        tv = self._table_lookup(cont, idx, st)
        if tv is not None:
            return tv
        if idx == C(-1):
            hit = st.last.get((self.key_of(cont), strip_epochs(cont)))
            if hit is not None and hit[0] == self.epoch(st, cont):
                return hit[1]
        hit = st.last.get((self.key_of(cont), strip_epochs(cont), strip_epochs(idx)))
        if hit is not None and hit[0] == self.epoch(st, cont):
            return hit[1]
        if idx[0] == "ix" and idx[2] == cont:
            return ("it", idx[1], cont)
        return ("sub", cont, idx, self.epoch(st, cont))

    def _table_lookup(self, cont, idx, st: State):
        """T[i] for a table T = tuple / list of (E(k) for k in range(N)) with constant N and an index known, from the conditions of the path,
        to lie in [0, N): the entry is E(i).  (An index that may be negative counts from the end and is left alone.)"""
        t = cont
        while t[0] == "call" and t[1] in (("g", "tuple"), ("g", "list")) and len(t[2]) == 1 and not t[3]:
            t = t[2][0]
        if not (t[0] == "comp" and t[1] in ("list", "gen") and len(t[3]) == 1 and not t[3][0][3]):
            return None
        lid, dom = t[3][0][1], strip_epochs(t[3][0][2])
        if not (dom[0] == "call" and dom[1] == ("g", "range") and len(dom[2]) == 1 and is_const(dom[2][0]) and isinstance(dom[2][0][1], int) and 0 < dom[2][0][1] <= 65536):
            return None
        n = dom[2][0][1]
        if is_const(idx):
            ok = isinstance(idx[1], int) and not isinstance(idx[1], bool) and 0 <= idx[1] < n
        else:
            from .intervals import EQ, GT, LT, path_orderings
            atoms = []
            for c in st.conds:
                if c.atom[0] == "loop0" or _loop_stale(c, st):
                    continue
                a = strip_epochs(c.atom)
                if not c.truth:
                    a = _norm_node(("un", "not", a)) or ("un", "not", a)
                atoms.append(a)
            i0 = strip_epochs(idx)
            ok = path_orderings(atoms, i0, C(0)) <= {EQ, GT} and path_orderings(atoms, i0, C(n)) <= {LT}
        if not ok:
            return None
        var = ("it", lid, t[3][0][2])
        from .expr import renorm
        return renorm(mapx(t[2], lambda x: idx if strip_epochs(x) == strip_epochs(var) else None))

    def mk_bin(self, op, a, b):
        if op == "+" and a[0] == "tup" and b[0] == "tup":
            return ("tup", tuple(a[1]) + tuple(b[1]))  # tuple concatenation (not commutative: decided before normalisation)
        n = ("bin", op, a, b)
        if op == "+" and (_is_sequence_value(a) or _is_sequence_value(b)):
            return n  # sequence concatenation keeps its operand order
        return _norm_node(n) or n

    def e_BinOp(self, n, st):
        op = BINOPS.get(type(n.op), "?")
        return [(s, self.mk_bin(op, v[0], v[1])) for s, v in self.ev_seq([n.left, n.right], st)]

    def e_UnaryOp(self, n, st):
        op = {ast.USub: "-", ast.Invert: "~", ast.Not: "not", ast.UAdd: "+"}[type(n.op)]
        out = []
        for s, v in self.ev(n.operand, st):
            if op == "+":
                out.append((s, v))
            else:
                x = ("un", op, v)
                out.append((s, _norm_node(x) or x))
        return out

    def e_BoolOp(self, n, st):
        k = "and" if isinstance(n.op, ast.And) else "or"
        out = []
        for s, vals in self.ev_seq(n.values, st):
            vals = [self.decide(v, s) for v in vals]
            if k == "or" and len(vals) == 2 and is_num_const(vals[1]) and not isinstance(vals[1][1], bool):
                # `x or 1` used as a value: x when x is truthy, else the default
                out.append((s, ("phi", vals[0], vals[0], vals[1])))
                continue
            x = (k, tuple(vals))
            out.append((s, _norm_node(x) or x))
        return out

    def e_Compare(self, n, st):
        out = []
        for s, vals in self.ev_seq([n.left] + list(n.comparators), st):
            parts = []
            for i, op in enumerate(n.ops):
                a, b, o = vals[i], vals[i + 1], CMPOPS[type(op)]
                if o in ("==", "!=") and a[0] == "tup" and b[0] == "tup" and len(a[1]) == len(b[1]) and a[1]:
                    # (a1, a2) == (b1, b2)  is  a1 == b1 and a2 == b2 ;  != is the disjunction of the component tests
                    comps = []
                    for u, w in zip(a[1], b[1]):
                        c = ("cmp", o, u, w)
                        comps.append(self.decide(_norm_node(c) or c, s))
                    x = ("and" if o == "==" else "or", tuple(comps))
                    parts.append(_norm_node(x) or x)
                    continue
                if o in ("in", "notin") and b[0] in ("tup", "lst", "set") and 0 < len(b[1]) <= 4 and all(is_const(m) for m in b[1]):
                    # x in (k1, k2)  is  x == k1 or x == k2  for a short literal collection of constants
                    comps = []
                    for m in b[1]:
                        c = ("cmp", "==" if o == "in" else "!=", a, m)
                        comps.append(self.decide(_norm_node(c) or c, s))
                    x = ("or" if o == "in" else "and", tuple(comps)) if len(comps) > 1 else comps[0]
                    parts.append((_norm_node(x) or x) if len(comps) > 1 else x)
                    continue
                x = ("cmp", o, a, b)
                x = _norm_node(x) or x
                parts.append(self.decide(x, s))
            if len(parts) == 1:
                out.append((s, parts[0]))
            else:
                x = ("and", tuple(parts))
                out.append((s, _norm_node(x) or x))
        return out

    def e_IfExp(self, n, st):
        out = []
        if _calls_own_method(n.body) or _calls_own_method(n.orelse):
            # a branch that calls a method of the object (it may change state, and it is an event of the path) is taken or not taken:
            # the conditional expression is a fork, exactly like the statement form
            for s, truth in self.split(n.test, st):
                if s.exit is not None:
                    out.append((s, NONE))
                    continue
                out.extend(self.ev(n.body if truth else n.orelse, s))
            return out
        for s, c in self.ev(n.test, st):
            c = self.decide(c, s)
            if is_const(c):
                out.extend(self.ev(n.body if c[1] else n.orelse, s))
                continue
            for s2, vals in self.ev_seq([n.body, n.orelse], s):
                x = ("phi", c, vals[0], vals[1])
                out.append((s2, _norm_node(x) or x))
        return out

    def e_Tuple(self, n, st):
        return [(s, ("tup", tuple(v))) for s, v in self.ev_seq(n.elts, st)]

    def e_List(self, n, st):
        if not n.elts:
            return [(st, ("newb", "list", self.site(st, n), ()))]
        return [(s, ("lst", tuple(v))) for s, v in self.ev_seq(n.elts, st)]

    def e_Set(self, n, st):
        return [(s, ("set", tuple(v))) for s, v in self.ev_seq(n.elts, st)]

    def e_Dict(self, n, st):
        if not n.keys:
            return [(st, ("newb", "dict", self.site(st, n), ()))]
        out = []
        ks = [k if k is not None else ast.Constant(None) for k in n.keys]
        for s, v in self.ev_seq(ks + list(n.values), st):
            h = len(ks)
            out.append((s, ("dct", tuple(zip(v[:h], v[h:])))))
        return out

    def e_JoinedStr(self, n, st):
        nodes = [v.value for v in n.values if isinstance(v, ast.FormattedValue)]
        # the literal text, conversions and format specs, so that f"{x:x}" and f"{x}" are different values
        tmpl = "".join(v.value.replace("{", "{{").replace("}", "}}") if isinstance(v, ast.Constant) and isinstance(v.value, str) else
                       "{" + ("!" + chr(v.conversion) if getattr(v, "conversion", -1) not in (-1, None) else "") +
                       (":" + ast.unparse(v.format_spec)[2:-1] if getattr(v, "format_spec", None) is not None else "") + "}"
                       for v in n.values)
        return [(s, ("fstr", tuple(v), tmpl)) for s, v in self.ev_seq(nodes, st)]

    def e_FormattedValue(self, n, st):
        return self.ev(n.value, st)

    def e_Starred(self, n, st):
        return [(s, ("star", v)) for s, v in self.ev(n.value, st)]

    def e_Lambda(self, n, st):
        return [(st, ("unk", "lambda"))]

    def e_Yield(self, n, st):
        if n.value is None:
            self.emit(st, "yield", n, value=NONE)
            return [(st, NONE)]
        out = []
        for s, v in self.ev(n.value, st):
            self.emit(s, "yield", n, value=v)
            out.append((s, NONE))
        return out

    def e_NamedExpr(self, n, st):
        out = []
        for s, v in self.ev(n.value, st):
            s.env[n.target.id] = v
            out.append((s, v))
        return out

    def _comp(self, n, st, kind, first=None):
        # comprehension: evaluated in a copy of the environment; single state only
        if first is None:
            # the outermost iterable is evaluated once, before the comprehension starts: code that forks there (a looked-through helper
            # with a loop or several returns) forks the whole comprehension
            r0 = [x for x in self.ev(n.generators[0].iter, st) if x[0].exit is None]
            if len(r0) != 1:
                out = []
                for s_i, dom_i in r0:
                    out.extend(self._comp(n, s_i, kind, first=(dom_i,)))
                return out
            return self._comp(n, r0[0][0], kind, first=(r0[0][1],))
        saved = dict(st.env)
        gens = []
        loops_before = st.loops
        cur = st
        for gi, g in enumerate(n.generators):
            r = [(cur, first[0])] if gi == 0 else self.ev(g.iter, cur)
            if len(r) != 1:
                raise AnalysisError(f"forking comprehension domain at {st.frame.func.where(n)}")
            cur, dom = r[0]
            lid = self.site(cur, g.iter) + "c"
            cur.loops = cur.loops + (lid,)
            ss = self.bind_loop_target(g.target, dom, lid, cur, n)
            cur = ss[0]
            conds = []
            for c in g.ifs:
                rc = self.ev(c, cur)
                if len(rc) != 1:
                    raise AnalysisError(f"forking comprehension condition at {st.frame.func.where(n)}")
                cur, cv = rc[0]
                conds.append(cv)
                # the element (and the inner generators) run only where the filter holds: a per-iteration fact, tagged with the loop
                cur.conds.append(Cond(cv, True, c, cur.frame.func, cur.loops))
            gens.append(("gen", lid, dom, tuple(conds)))
        # the element expression runs once per iteration: what it writes (through calls) is unknown at the start of the generic one
        body = [ast.Expr(n.key), ast.Expr(n.value)] if isinstance(n, ast.DictComp) else [ast.Expr(n.elt)]
        hlid = gens[-1][1]
        self._havoc(cur, body, hlid, "")
        if isinstance(n, ast.DictComp):
            r = self.ev_seq([n.key, n.value], cur)
            cur, kv = r[0]
            elt = ("tup", tuple(kv))
        else:
            n0 = len(cur.conds)
            r = [x for x in self.ev(n.elt, cur) if x[0].exit is None]
            if len(r) == 1:
                cur, elt = r[0]
            else:
                # the element is computed by branching code (a helper with several returns, looked through): one conditional value
                elt = self._merge_forks(r, n0, 0, st.frame.func.where(n))
                cur = r[0][0]
                del cur.conds[n0:]
        self._havoc(cur, body, hlid, "+")
        cur.loops = loops_before
        cur.env = saved
        return [(cur, ("comp", kind, elt, tuple(gens)))]

    def _merge_forks(self, rs, n0, depth, where):
        if not rs:
            raise AnalysisError(f"comprehension element cannot be evaluated at {where}")
        if len(rs) == 1:
            return rs[0][1]
        if any(len(x[0].conds) <= n0 + depth for x in rs):
            raise AnalysisError(f"forking comprehension element at {where}")
        atom = rs[0][0].conds[n0 + depth].atom
        if any(x[0].conds[n0 + depth].atom != atom for x in rs):
            raise AnalysisError(f"forking comprehension element at {where}")
        t = [x for x in rs if x[0].conds[n0 + depth].truth]
        f = [x for x in rs if not x[0].conds[n0 + depth].truth]
        if not t or not f:
            return self._merge_forks(t or f, n0, depth + 1, where)
        x = ("phi", atom, self._merge_forks(t, n0, depth + 1, where), self._merge_forks(f, n0, depth + 1, where))
        return _norm_node(x) or x

    def e_ListComp(self, n, st):
        return self._comp(n, st, "list")

    def e_GeneratorExp(self, n, st):
        return self._comp(n, st, "gen")

    def e_SetComp(self, n, st):
        return self._comp(n, st, "set")

    def e_DictComp(self, n, st):
        return self._comp(n, st, "dict")

    # calls --------------------------------------------------------------
    def _map_of_helper(self, n, st):
        """map(self.helper, xs) with a helper that the anchor policy looks through (a method that is not a function of the pinned tree) is the
        generator (self.helper(x) for x in xs): the helper's body is seen once per element, as if the loop were written out.  map over an
        anchored method (map(self.check_bit, ...)) stays a call to map, which the rules read as such"""
        if not (self.inline == "deep" and self.opaque is not None and isinstance(n.func, ast.Name) and n.func.id == "map" and "map" not in st.env
                and len(n.args) == 2 and not n.keywords and isinstance(n.args[0], ast.Attribute) and isinstance(n.args[0].value, ast.Name)
                and n.args[0].value.id == "self" and not isinstance(n.args[1], ast.Starred)):
            return None
        fr = st.frame
        K = fr.K
        lex = fr.func.cls.name if fr.func.cls is not None else None
        f = K.find_method(mangle(lex, n.args[0].attr)) if K is not None else None
        if f is None or f.prop or f.qualname in self.opaque or f.qualname in _SIMPLE_TODAY or f.qualname in self.no_inline or f.src_name in self.no_inline \
                or _is_generator(f):
            return None
        var = ast.Name(id="_map_elem", ctx=ast.Load())
        call = ast.Call(func=n.args[0], args=[var], keywords=[])
        gen = ast.GeneratorExp(elt=call, generators=[ast.comprehension(target=ast.Name(id="_map_elem", ctx=ast.Store()), iter=n.args[1], ifs=[], is_async=0)])
        for x in (var, call, gen, gen.generators[0].target):
            ast.copy_location(x, n)
        return gen

    def _spread_star(self, args, star, pnames, kwargs, f, st):
        """f(a, *xs, b): the one starred sequence fills, position by position (xs[0], xs[1], ...), the parameters from its place on that have
        no default and are not given by keyword; positional arguments after it bind to the parameters that follow (what
        `p1, p2 = xs` would bind when the call is well-formed)"""
        i = next(k for k, v in enumerate(args) if v is star)
        after = len(args) - i - 1
        need = [pn for pn in pnames[i:] if pn not in kwargs and f.defaults.get(pn) is None]
        k = len(need)
        over = i + k + after - len(pnames)
        if over > 0:
            k = max(0, k - over)  # the trailing arguments take the last of those parameters
        return list(args[:i]) + [("sub", star[1], C(j), self.epoch(st, star[1])) for j in range(k)] + list(args[i + 1:])

    def e_Call(self, n, st):
        # super()
        if isinstance(n.func, ast.Name) and n.func.id == "super" and not n.args and "super" not in st.env:
            return [(st, ("super",))]
        g = self._map_of_helper(n, st)
        if g is not None:
            return self._comp(g, st, "gen")
        out = []
        argnodes = list(n.args)
        kwnodes = [k.value for k in n.keywords]
        kwnames = [k.arg for k in n.keywords]
        if isinstance(n.func, ast.Attribute):
            # method call syntax: resolve through the receiver's class when known, else a generic method call
            for s, base in self.ev(n.func.value, st):
                known = base[0] in ("struct", "extmod", "ext", "super", "cls") or self.typeof(base, s) is not None
                for s2, vals in self.ev_seq(argnodes + kwnodes, s):
                    args = vals[:len(argnodes)]
                    kwargs = _expand_kwdict(dict(zip(kwnames, vals[len(argnodes):])))
                    if not known:
                        out.extend(self.generic_mcall(base, n.func.attr, args, kwargs, s2, n))
                        continue
                    for s3, fn in self.get_attr(base, n.func.attr, s2, n.func):
                        if fn[0] == "f" and base[0] in ("ext", "extmod"):
                            out.extend(self.do_call(fn, args, kwargs, s3, n))
                        else:
                            out.extend(self.do_call(fn, args, kwargs, s3, n))
            return out
        for s, vals in self.ev_seq([n.func] + argnodes + kwnodes, st):
            fn = vals[0]
            args = vals[1:1 + len(argnodes)]
            kwargs = _expand_kwdict(dict(zip(kwnames, vals[1 + len(argnodes):])))
            out.extend(self.do_call(fn, args, kwargs, s, n))
        return out

    def do_call(self, fn, args, kwargs, st: State, node) -> List[Tuple[State, tuple]]:
        if st.exit is not None:
            return [(st, ("unk", "raised"))]
        k = fn[0]
        site = self.site(st, node)
        if k == "bm":
            recv, name = fn[1], fn[2]
            if recv[0] == "struct":
                if name == "pack":
                    v = ("pack", recv[1], tuple(args))
                elif name in ("unpack", "unpack_from"):
                    v = ("unpall", recv[1], self._unpack_source(name, recv[1], args, kwargs))
                elif name == "iter_unpack" and len(args) == 1:
                    v = ("iterunp", recv[1], args[0], site)  # consecutive records of the buffer, one per next() / iteration
                else:
                    v = ("call", ("m", recv, name), tuple(args), ())
                return [(st, v)]
            if len(fn) == 4:
                owner = self.prog.classes[fn[3]]
                f = owner.methods.get(name)
                if f is not None:
                    if recv[0] == "cls" and f.kind == "method":
                        # unbound call C.m(obj, ...)
                        return self.call_func(f, args[0], args[1:], kwargs, st, node, name=f.src_name)
                    return self.call_func(f, recv, args, kwargs, st, node, name=f.src_name)
            return self.generic_mcall(recv, name, args, kwargs, st, node)
        if k == "cls":
            cname = fn[1]
            if cname == "MMap":
                v = ("fileobj", site, "MMap", tuple(args))
                self.emit(st, "call", node, name="MMap", target=None, recv=None, args=args, kwargs=kwargs, inlined=False,
                          mutates=False, result=v)
                return [(st, v)]
            return self.construct(self.prog.classes[cname], args, kwargs, st, node)
        if k == "func":
            f = self._func_by_qual(fn[1], st)
            if f is not None:
                return self.call_func(f, None, args, kwargs, st, node, name=f.src_name)
        if k in ("g", "ext"):
            name = fn[-1]
            if name == "Struct" and args and is_const(args[0]) and isinstance(args[0][1], str):
                return [(st, ("struct", args[0][1]))]
            if name in ("open", "BytesIO", "mmap") and (k == "g" or name != "open"):
                v = ("fileobj", site, name, tuple(args))
                self.emit(st, "call", node, name=name, target=None, recv=None, args=args, kwargs=kwargs, inlined=False,
                          mutates=False, result=v)
                return [(st, v)]
            if name == "array" and k == "ext":
                v = ("newb", "array", site, tuple(args))
                return [(st, v)]
            if name in ("unpack", "unpack_from") and k == "ext" and fn[1] == "struct" and args and is_const(args[0]):
                return [(st, ("unpall", args[0][1], self._unpack_source(name, args[0][1], args[1:], kwargs)))]
            if name == "pack" and k == "ext" and fn[1] == "struct" and args and is_const(args[0]):
                return [(st, ("pack", args[0][1], tuple(args[1:])))]
            if name == "next" and k == "g" and args and args[0][0] == "iterunp":
                # the next record of a struct.iter_unpack walk: some chunk of the buffer, all of its slots read from the same chunk
                return [(st, ("unpall", args[0][1], ("chunk", args[0][2], site)))]
            if name == "list" and k == "g" and not args:
                return [(st, ("newb", "list", site, ()))]
            if name == "dict" and k == "g" and not args:
                return [(st, ("newb", "dict", site, ()))]
            if name == "wraps":
                return [(st, ("g", "identity_decorator"))]
            if name == "divmod" and k == "g" and len(args) == 2 and not kwargs:
                return [(st, ("tup", (self.mk_bin("//", args[0], args[1]), self.mk_bin("%", args[0], args[1]))))]
            v = ("call", fn, tuple(args), tuple(sorted(kwargs.items())))
            v = _norm_node(v) or v
            self.emit(st, "call", node, name=name, target=None, recv=None, args=args, kwargs=kwargs, inlined=False,
                      mutates=False, result=v, fn=fn)
            return [(st, v)]
        if k == "f" or k in ("p", "hv", "sub", "it", "phi"):
            # call through a value: a function-pointer slot or a parameter
            v = ("call", ("v", fn), tuple(args), tuple(sorted(kwargs.items())))
            self.emit(st, "call", node, name="<slot>", target=None, recv=None, args=args, kwargs=kwargs, inlined=False,
                      mutates=False, result=v, fn=fn, slot=fn)
            return [(st, v)]
        v = ("call", ("v", fn), tuple(args), tuple(sorted(kwargs.items())))
        self.emit(st, "call", node, name="<unknown>", target=None, recv=None, args=args, kwargs=kwargs, inlined=False,
                  mutates=False, result=v, fn=fn)
        return [(st, v)]

    def _unpack_source(self, name, fmt, args, kwargs):
        """the bytes a struct unpack reads: unpack(buf) reads buf; unpack_from(buf, off) reads buf[off : off + size]"""
        if not args:
            return NONE
        buf = args[0]
        off = args[1] if len(args) > 1 else (kwargs or {}).get("offset")
        if name == "unpack_from" and off is not None and off != C(0):
            import struct as _s
            try:
                size = C(_s.calcsize(fmt))
            except Exception:
                return ("unk", "unpack_from")
            return ("slice", buf, off, self.mk_bin("+", off, size), NONE)
        return buf

    def _func_by_any_qual(self, qual: str) -> Optional[FuncInfo]:
        if qual not in self._qual_index:
            hit = None
            for m in self.prog.modules.values():
                for f in m.functions.values():
                    if f.qualname == qual:
                        hit = f
            for c in self.prog.classes.values():
                for f in c.methods.values():
                    if f.qualname == qual:
                        hit = f
            self._qual_index[qual] = hit
        return self._qual_index[qual]

    def _func_by_qual(self, qual: str, st: State) -> Optional[FuncInfo]:
        for m in self.prog.modules.values():
            for f in m.functions.values():
                if f.qualname == qual:
                    return f
                for nf in f.nested.values():
                    if nf.qualname == qual:
                        return nf
        return None

    def generic_mcall(self, recv, name, args, kwargs, st: State, node):
        if st.exit is not None:
            return [(st, ("unk", "raised"))]
        mut = name in MUTATING or name in IO_MUTATING or name not in READONLY
        v = ("call", ("m", recv, name), tuple(args), tuple(sorted(kwargs.items())))
        self.emit(st, "call", node, name=name, target=None, recv=recv, args=args, kwargs=kwargs, inlined=False,
                  mutates=mut, result=v, io=name in IO_MUTATING)
        if mut:
            self.bump(st, recv)
            if name == "append" and len(args) == 1 and not kwargs:
                # xs.append(v); xs[-1]  reads v back for as long as nothing else touches xs (same epoch)
                st.last[(self.key_of(recv), strip_epochs(recv))] = (self.epoch(st, recv), args[0])
        return [(st, v)]

    def construct(self, cls: ClassInfo, args, kwargs, st: State, node):
        if st.exit is not None:
            return [(st, ("unk", "raised"))]
        site = self.site(st, node)
        obj = ("new", cls.name, site)
        init = cls.find_method("__init__")
        self.emit(st, "new", node, cls=cls.name, args=args, kwargs=kwargs, obj=obj)
        if init is None or cls.is_subclass_of("Exception"):
            return [(st, obj)]
        if self.inline == "deep" and len(st.stack) < self.max_depth and init.qualname not in self.no_inline and "__init__" not in self.no_inline \
                and not (self.opaque is not None and init.qualname in self.opaque and init.qualname not in self.force_inline):
            res = self._inline(init, cls, obj, args, kwargs, st, node, "__init__")
            return [(s, obj) for s, _ in res]
        bound = self._bind_args(init, args, kwargs, skip_self=True)
        self.emit(st, "call", node, name="__init__", target=init, recv=obj, args=args, kwargs=kwargs, inlined=False,
                  mutates=False, result=obj, bound=bound, K=cls.name)
        return [(st, obj)]

    def _bind_args(self, f: FuncInfo, args, kwargs, skip_self: bool) -> Dict[str, tuple]:
        names = f.params
        if skip_self and names:
            names = names[1:]
        bound = {}
        for nme, v in zip(names, args):
            bound[nme] = v
        for kk, v in kwargs.items():
            if kk is not None:
                bound[kk] = v
        return bound

    def is_simple(self, f: FuncInfo) -> bool:
        k = id(f.node)
        if k not in self._simple_cache:
            b = f.body()
            ok = len(b) == 1 and isinstance(b[0], ast.Return) and b[0].value is not None
            if ok:
                for x in ast.walk(b[0].value):
                    if isinstance(x, (ast.ListComp, ast.GeneratorExp, ast.SetComp, ast.DictComp, ast.Yield)):
                        ok = ok  # comprehensions are fine
            if f.prop == "set" and len(b) == 1:
                ok = True
            self._simple_cache[k] = ok
        return self._simple_cache[k]

    def call_func(self, f: FuncInfo, recv, args, kwargs, st: State, node, name="", force=False):
        if st.exit is not None:
            return [(st, ("unk", "raised"))]
        if any(a[0] == "star" for a in args):
            # f(*xs): a literal sequence is spread; a trailing *xs of anything else fills the remaining parameters that have no
            # default, position by position (xs[0], xs[1], ...) - for inlined and for opaque callees alike
            spread = []
            for a in args:
                if a[0] == "star" and a[1][0] in ("tup", "lst"):
                    spread.extend(a[1][1])
                else:
                    spread.append(a)
            args = spread
            stars = [a for a in args if a[0] == "star"]
            pn = [x.arg for x in f.node.args.posonlyargs + f.node.args.args]
            if f.cls is not None and f.kind in ("method", "classmethod") and pn:
                pn = pn[1:]
            if len(stars) == 1 and not f.node.args.vararg:
                args = self._spread_star(args, stars[0], pn, kwargs, f, st)
        K = None
        if f.cls is not None:
            if recv is not None and recv[0] == "cls":
                K = self.prog.classes.get(recv[1])
            elif recv is not None:
                K = self.typeof(recv, st) or f.cls
            else:
                K = f.cls
        depth_ok = len(st.stack) < self.max_depth
        rec = sum(1 for fr in st.stack if fr.func is f)
        want = False
        if f.qualname in self.no_inline or f.src_name in self.no_inline:
            want = False
        elif f.qualname in self.force_inline or f.src_name in self.force_inline:
            want = rec < 2
        elif self.inline == "deep" and self.opaque is not None and f.qualname in self.opaque:
            want = force and rec < 1
        elif self.inline == "deep" and self.opaque is not None and f.qualname in _SIMPLE_TODAY and not self.is_simple(f) and not f.prop:
            want = force and rec < 1  # a former one-liner that grew several paths: kept as a call (see anchors.py)
        elif self.inline == "deep":
            want = rec < 2
        elif self.inline == "light":
            want = (force or self.is_simple(f)) and rec < 1
        if _is_generator(f):
            want = False
        opaque = [d for d in f.decorators if not _transparent_decorator(d) and not (self.memo_transparent and _memo_decorator(d))]
        if opaque:
            want = False  # a wrapping decorator (cache, retry, ...) changes what a call returns: never look through it
        if want and depth_ok:
            return self._inline(f, K, recv, args, kwargs, st, node, name)
        site = self.site(st, node)
        skip = f.cls is not None and f.kind in ("method", "classmethod")
        bound = self._bind_args(f, args, kwargs, skip_self=skip)
        v = ("ret", f.qualname + ("@" + "+".join(opaque) if opaque else ""), site, ((recv,) if (recv is not None and f.cls is not None and f.kind == "method") else ())
             + tuple(args) + tuple(v for _, v in sorted(kwargs.items())))
        self.emit(st, "call", node, name=f.src_name, target=f, recv=recv, args=args, kwargs=kwargs, inlined=False,
                  mutates=None, result=v, bound=bound, K=K.name if K else None)
        if f.cls is not None and K is not None and recv is not None and recv[0] != "cls":
            keys = self.may_write(f, K)
            if keys:
                if root_of(recv) == SELF or recv == st.frame.self_expr:
                    for kk in keys:
                        st.gepoch += 1
                        st.epochs[kk] = st.gepoch
                    names = {kk[1] for kk in keys}
                    for fk in list(st.fields):
                        if fk[1] in names and fk[0] == recv:
                            del st.fields[fk]
                else:
                    self.bump(st, recv)
                    for fk in list(st.fields):
                        if fk[0] == recv:
                            del st.fields[fk]
        return [(st, v)]

    def _inline(self, f: FuncInfo, K, recv, args, kwargs, st: State, node, name):
        self.emit(st, "call", node, name=f.src_name, target=f, recv=recv, args=args, kwargs=kwargs, inlined=True,
                  mutates=None, result=None, K=K.name if K else None,
                  bound=self._bind_args(f, args, kwargs, skip_self=f.cls is not None and f.kind in ("method", "classmethod")))
        saved_env = st.env
        saved_loops = st.loops
        fr_self = recv
        if f.kind == "classmethod":
            fr_self = ("cls", K.name) if K else ("cls", "?")
        elif f.kind == "staticmethod" or f.cls is None:
            fr_self = None
        st.stack.append(Frame(f, K, fr_self, self.site(st, node)))
        st.env = {}
        a = f.node.args
        pnames = [x.arg for x in a.posonlyargs + a.args]
        if f.cls is not None and f.kind in ("method", "classmethod") and pnames:
            st.env[pnames[0]] = fr_self
            pnames = pnames[1:]
        bound = {}
        extra = []
        # f(*xs): a literal sequence is spread; any other sequence fills the parameters that have no default, position by position
        # (xs[0], xs[1], ... - what `a, b, c = xs` would bind)
        spread = []
        for v in args:
            if v[0] == "star" and v[1][0] in ("tup", "lst"):
                spread.extend(v[1][1])
            else:
                spread.append(v)
        args = spread
        stars = [v for v in args if v[0] == "star"]
        if len(stars) == 1 and not a.vararg:
            args = self._spread_star(args, stars[0], pnames, kwargs, f, st)
        for i, v in enumerate(args):
            if v[0] == "star":
                extra.append(v)
                continue
            if i < len(pnames):
                bound[pnames[i]] = v
            else:
                extra.append(v)
        for kk, v in kwargs.items():
            if kk is not None:
                bound[kk] = v
        cur = [st]
        for p in pnames + [x.arg for x in a.kwonlyargs]:
            if p in bound:
                for s in cur:
                    s.env[p] = bound[p]
            else:
                d = f.defaults.get(p)
                nxt = []
                for s in cur:
                    if d is not None:
                        for s2, dv in self.ev(d, s):
                            s2.env[p] = dv
                            nxt.append(s2)
                    else:
                        s.env[p] = ("p", p)
                        nxt.append(s)
                cur = nxt
        for s in cur:
            if a.vararg:
                s.env[a.vararg.arg] = ("tup", tuple(extra))
            if a.kwarg:
                known = set(pnames) | {x.arg for x in a.kwonlyargs}
                s.env[a.kwarg.arg] = ("kwdict", tuple(sorted((k_, v_) for k_, v_ in bound.items() if k_ not in known)))
        out = []
        for s in self.block(f.body(), cur):
            ex = s.exit
            if ex is not None and ex[0] in ("raise", "loop"):
                out.append((s, ("unk", "raised")))
                continue
            rv = ex[1] if ex is not None and ex[0] == "return" else NONE
            s.exit = None
            s.stack.pop()
            s.env = dict(saved_env)
            s.loops = saved_loops
            out.append((s, rv))
        return out


from .anchors import SIMPLE as _SIMPLE_TODAY  # noqa: E402


def _expand_kwdict(kwargs: dict) -> dict:
    """f(..., **kw) where kw is the keyword dictionary a looked-through function received: pass its items on by name"""
    v = kwargs.get(None)
    if v is not None and v[0] == "kwdict":
        kwargs = {k: x for k, x in kwargs.items() if k is not None}
        for k, x in v[1]:
            kwargs.setdefault(k, x)
    return kwargs


def _tuple_compare(test) -> bool:
    """comparisons that the walker decomposes into a boolean combination of scalar comparisons"""
    if not isinstance(test, ast.Compare):
        return False
    if isinstance(test.left, ast.Tuple) and all(isinstance(c, ast.Tuple) for c in test.comparators):
        return True
    # membership in a short sequence of constants - written out, or held in a name (the evaluated comparison was decomposed only in that case)
    return len(test.ops) == 1 and isinstance(test.ops[0], (ast.In, ast.NotIn)) and (isinstance(test.comparators[0], ast.Name) or (
        isinstance(test.comparators[0], (ast.Tuple, ast.List, ast.Set)) and 0 < len(test.comparators[0].elts) <= 4))


def _memo_decorator(d: str) -> bool:
    return d.split("(")[0] in ("lru_cache", "functools.lru_cache", "cache", "functools.cache")


def _transparent_decorator(d: str) -> bool:
    return d in ("property", "classmethod", "staticmethod") or d.endswith(".setter") or d.endswith(".getter") \
        or d.startswith("wraps(") or d.startswith("functools.wraps(") or d in ("hash_with_depth_bytes", "hash_with_depth_int")


def _is_generator(f: FuncInfo) -> bool:
    for n in ast.walk(f.node):
        if isinstance(n, (ast.Yield, ast.YieldFrom)):
            return True
    return False


def _loop_stale(c: Cond, st: State) -> bool:
    return False


def _rehavoc_target(st: State, target, lid):
    for n in ast.walk(target):
        if isinstance(n, ast.Name) and n.id in st.env:
            st.env[n.id] = ("hv", n.id, lid + "+")


def _as_load(t):
    import copy
    c = copy.deepcopy(t)
    for n in ast.walk(c):
        if hasattr(n, "ctx"):
            n.ctx = ast.Load()
    return c


def _outer_attr(n) -> Optional[str]:
    """for self.a[i][j] / self.a / x.a.b -> the attribute closest to the root object"""
    name = None
    while isinstance(n, (ast.Attribute, ast.Subscript)):
        if isinstance(n, ast.Attribute):
            name = n.attr
        n = n.value
    if isinstance(n, ast.Name):
        return name
    return name


class _ClassEnv(dict):
    """environment for static evaluation inside a class body: class constants by source name"""

    def __init__(self, walker: Walker, cls: ClassInfo, module: ModuleInfo):
        super().__init__()
        self.w = walker
        self.cls = cls
        self.module = module
        self._busy = set()

    def __contains__(self, k):
        return mangle(self.cls.name, k) in self.cls.consts and k not in self._busy

    def __getitem__(self, k):
        self._busy.add(k)
        try:
            return self.w.static_eval(self.cls.consts[mangle(self.cls.name, k)], self.module, self.cls)
        finally:
            self._busy.discard(k)


# ----------------------------------------------------------------------------- property aliases, field types
def getter_alias(f: FuncInfo) -> Optional[str]:
    b = f.body()
    if len(b) == 1 and isinstance(b[0], ast.Return) and isinstance(b[0].value, ast.Attribute) \
            and isinstance(b[0].value.value, ast.Name) and b[0].value.value.id == "self":
        return mangle(f.cls.name if f.cls else None, b[0].value.attr)
    return None


def setter_alias(f: FuncInfo) -> Optional[str]:
    b = f.body()
    ps = f.params
    if len(b) == 1 and isinstance(b[0], ast.Assign) and len(b[0].targets) == 1 and len(ps) == 2:
        t = b[0].targets[0]
        v = b[0].value
        if isinstance(t, ast.Attribute) and isinstance(t.value, ast.Name) and t.value.id == "self" \
                and isinstance(v, ast.Name) and v.id == ps[1]:
            return mangle(f.cls.name if f.cls else None, t.attr)
    return None


_FIELD_CLASS_CACHE: Dict[int, dict] = {}


_RET_CLASS_CACHE: Dict[tuple, Optional[str]] = {}


def func_ret_class(prog: Program, f: FuncInfo, _busy=None) -> Optional[str]:
    """the program class every `return` of f constructs (directly, through a local, or through another such function), or the
    class its return annotation names"""
    key = (id(prog), f.qualname)
    if key in _RET_CLASS_CACHE:
        return _RET_CLASS_CACHE[key]
    _busy = _busy or set()
    if f.qualname in _busy:
        return None
    _busy = _busy | {f.qualname}
    out: Optional[str] = None
    rets = [n for n in ast.walk(f.node) if isinstance(n, ast.Return) and n.value is not None]
    local_new: Dict[str, str] = {}
    for n in ast.walk(f.node):
        if isinstance(n, ast.Assign) and len(n.targets) == 1 and isinstance(n.targets[0], ast.Name) and isinstance(n.value, ast.Call):
            cn = call_class(prog, f.cls, n.value, _busy)
            if cn:
                local_new[n.targets[0].id] = cn
    kinds = set()
    for r in rets:
        v = r.value
        if isinstance(v, ast.Call):
            kinds.add(call_class(prog, f.cls, v, _busy))
        elif isinstance(v, ast.Name):
            kinds.add(local_new.get(v.id))
        else:
            kinds.add(None)
    if rets and len(kinds) == 1 and None not in kinds:
        out = next(iter(kinds))
    if out is None and f.node.returns is not None:
        a = f.node.returns
        nm = a.id if isinstance(a, ast.Name) else a.value if isinstance(a, ast.Constant) and isinstance(a.value, str) else None
        if nm in prog.classes:
            out = nm
    _RET_CLASS_CACHE[key] = out
    return out


def call_class(prog: Program, cls: Optional[ClassInfo], call: ast.Call, _busy=None) -> Optional[str]:
    """class of the object a call expression yields: K(...), self.helper() / cls.helper() / helper() returning a K"""
    fn = call.func
    if isinstance(fn, ast.Name):
        if fn.id in prog.classes:
            return fn.id
        for m in prog.modules.values():
            g = m.functions.get(fn.id)
            if g is not None:
                return func_ret_class(prog, g, _busy)
        return None
    if isinstance(fn, ast.Attribute) and isinstance(fn.value, ast.Name) and fn.value.id in ("self", "cls") and cls is not None:
        g = cls.find_method(mangle(cls.name, fn.attr))
        if g is not None and g.kind != "property":
            return func_ret_class(prog, g, _busy)
    return None


def _field_tables(prog: Program) -> dict:
    k = id(prog)
    if k in _FIELD_CLASS_CACHE:
        return _FIELD_CLASS_CACHE[k]
    direct: Dict[Tuple[str, str], str] = {}
    elems: Dict[Tuple[str, str, int], str] = {}
    for c in prog.classes.values():
        for f in list(c.methods.values()) + list(c.setters.values()):
            local_new: Dict[str, str] = {}
            for n in ast.walk(f.node):
                if isinstance(n, ast.Assign) and len(n.targets) == 1 and isinstance(n.value, ast.Call):
                    cn = call_class(prog, c, n.value)
                    if cn is None:
                        continue
                    t = n.targets[0]
                    if isinstance(t, ast.Name):
                        local_new[t.id] = cn
                    elif isinstance(t, ast.Attribute) and isinstance(t.value, ast.Name) and t.value.id == "self":
                        direct[(c.name, mangle(c.name, t.attr))] = cn
                if isinstance(n, ast.AnnAssign) and isinstance(n.value, ast.Call) and isinstance(n.target, ast.Attribute):
                    cn = call_class(prog, c, n.value)
                    if cn is not None:
                        direct[(c.name, mangle(c.name, n.target.attr))] = cn
    for c in prog.classes.values():
        for f in list(c.methods.values()) + list(c.setters.values()):
            local_new = {}
            local_lists: Dict[str, str] = {}  # local name -> class of the elements of the list comprehension bound to it
            for n in ast.walk(f.node):
                if isinstance(n, ast.Assign) and len(n.targets) == 1 and isinstance(n.targets[0], ast.Name):
                    if isinstance(n.value, ast.Call):
                        cn = call_class(prog, c, n.value)
                        if cn is not None:
                            local_new[n.targets[0].id] = cn
                    elif isinstance(n.value, ast.ListComp) and isinstance(n.value.elt, ast.Call):
                        cn = call_class(prog, c, n.value.elt)
                        if cn is not None:
                            local_lists[n.targets[0].id] = cn
            for n in ast.walk(f.node):
                if isinstance(n, ast.Assign) and len(n.targets) == 1 and isinstance(n.targets[0], ast.Attribute) \
                        and isinstance(n.targets[0].value, ast.Name) and n.targets[0].value.id == "self":
                    # self.xs = [K(...) for ...]  /  xs = [K(...) for ...]; self.xs = xs : a list of K objects
                    cn = None
                    if isinstance(n.value, ast.ListComp) and isinstance(n.value.elt, ast.Call):
                        cn = call_class(prog, c, n.value.elt)
                    elif isinstance(n.value, ast.Name) and n.value.id in local_lists:
                        cn = local_lists[n.value.id]
                    if cn is not None:
                        elems.setdefault((c.name, mangle(c.name, n.targets[0].attr), 1), cn)
                if isinstance(n, ast.Call) and isinstance(n.func, ast.Attribute) and n.func.attr == "append" and n.args:
                    a = n.args[0]
                    cn = None
                    if isinstance(a, ast.Call):
                        cn = call_class(prog, c, a)
                    elif isinstance(a, ast.Name) and a.id in local_new:
                        cn = local_new[a.id]
                    elif isinstance(a, ast.Attribute) and isinstance(a.value, ast.Name) and a.value.id == "self":
                        cn = next((direct[(k.name, mangle(c.name, a.attr))] for k in c.mro() if (k.name, mangle(c.name, a.attr)) in direct), None)
                    if cn is None:
                        continue
                    depth = 1
                    r = n.func.value
                    while isinstance(r, ast.Subscript):
                        depth += 1
                        r = r.value
                    if isinstance(r, ast.Attribute) and isinstance(r.value, ast.Name) and r.value.id == "self":
                        nm = mangle(c.name, r.attr)
                        g = c.find_getter(nm) if c.program else None
                        if g is not None and getter_alias(g):
                            nm = getter_alias(g)
                        elems[(c.name, nm, depth)] = cn
    t = {"direct": direct, "elems": elems}
    _FIELD_CLASS_CACHE[k] = t
    return t


def field_class(prog: Program, owner: ClassInfo, name: str) -> Optional[str]:
    t = _field_tables(prog)["direct"]
    for c in owner.mro():
        if (c.name, name) in t:
            return t[(c.name, name)]
    return None


def field_elem_class(prog: Program, owner: ClassInfo, name: str, depth: int) -> Optional[str]:
    t = _field_tables(prog)["elems"]
    # most derived class that says something about this field wins (CountingCuckooFilter bins)
    for c in owner.mro():
        hit = [(k, v) for k, v in t.items() if k[0] == c.name and k[1] == name]
        if hit:
            for k, v in hit:
                if k[2] == depth:
                    return v
            return None
    return None
