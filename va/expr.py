"""E4 - expression DAGs (nested tuples) and their normal form.

Expressions mention only *inputs* (parameters, field reads, cell reads, loop symbols,
constants) - never local variable names - so renaming locals, adding or inlining
temporaries and reordering independent statements do not change them.
"""
from __future__ import annotations

import math
from typing import Any, Callable, Iterator

COMM = {"+", "*", "|", "&", "^"}
CMP_FLIP = {"<": ">", "<=": ">=", ">": "<", ">=": "<=", "==": "==", "!=": "!="}
CMP_NEG = {"<": ">=", "<=": ">", ">": "<=", ">=": "<", "==": "!=", "!=": "==", "is": "isnot", "isnot": "is",
           "in": "notin", "notin": "in"}


def C(v) -> tuple:
    return ("c", v)


SELF = ("self",)
NONE = C(None)
TRUE = C(True)
FALSE = C(False)


def is_const(e) -> bool:
    return isinstance(e, tuple) and len(e) == 2 and e[0] == "c"


def is_int_const(e) -> bool:
    return is_const(e) and isinstance(e[1], int) and not isinstance(e[1], bool)


def is_num_const(e) -> bool:
    return is_const(e) and isinstance(e[1], (int, float)) and not isinstance(e[1], bool)


def children(e) -> Iterator[Any]:
    if not isinstance(e, tuple):
        return
    for x in e[1:]:
        if isinstance(x, tuple):
            if x and isinstance(x[0], str):
                yield x
            else:
                for y in x:
                    if isinstance(y, tuple):
                        if y and isinstance(y[0], str):
                            yield y
                        else:
                            for z in y:
                                if isinstance(z, tuple) and z and isinstance(z[0], str):
                                    yield z


def walk(e) -> Iterator[tuple]:
    """all sub-expressions (pre-order); generic over nested tuples"""
    stack = [e]
    while stack:
        x = stack.pop()
        if isinstance(x, tuple):
            if x and isinstance(x[0], str):
                yield x
            for y in x:
                if isinstance(y, tuple):
                    stack.append(y)


def mapx(e, f: Callable[[tuple], Any]):
    """bottom-up rewrite: f is applied to every node after its children were rewritten"""
    if not isinstance(e, tuple):
        return e
    if e and isinstance(e[0], str):
        new = (e[0],) + tuple(mapx(x, f) for x in e[1:])
        r = f(new)
        return new if r is None else r
    return tuple(mapx(x, f) for x in e)


def contains(e, pred: Callable[[tuple], bool]) -> bool:
    return any(pred(x) for x in walk(e))


def strip_epochs(e):
    def f(n):
        if n[0] == "f" and len(n) == 4:
            return ("f", n[1], n[2], 0)
        if n[0] == "sub" and len(n) == 4:
            return ("sub", n[1], n[2], 0)
        return None
    return mapx(e, f)


def canon_loops(e):
    """rename loop ids (and allocation/call site ids) in order of first appearance so that expressions
    from two functions can be compared"""
    order = {}
    sites = {}
    for n in walk_ordered(e):
        if n[0] in ("it", "ix", "gen", "pos"):
            if n[1] not in order:
                order[n[1]] = f"L{len(order)}"
        elif n[0] == "hv":
            if n[2] not in order:
                order[n[2]] = f"L{len(order)}"
        elif n[0] in ("new", "newb", "ret") and isinstance(n[2], str):
            sites.setdefault(n[2], f"S{len(sites)}")
        elif n[0] == "fileobj":
            sites.setdefault(n[1], f"S{len(sites)}")

    def f(n):
        if n[0] in ("it", "ix", "gen", "pos"):
            return (n[0], order.get(n[1], n[1])) + n[2:]
        if n[0] == "hv":
            return ("hv", n[1], order.get(n[2], n[2]))
        if n[0] in ("new", "newb", "ret") and isinstance(n[2], str):
            return n[:2] + (sites.get(n[2], n[2]),) + n[3:]
        if n[0] == "fileobj":
            return ("fileobj", sites.get(n[1], n[1])) + n[2:]
        return None
    return mapx(e, f)


def canon(e):
    return norm(canon_loops(strip_epochs(e)))


# --------------------------------------------------------------------------- positional resolution
_SEQ_WRAP = {("g", "list"), ("g", "tuple"), ("g", "iter"), ("g", "enumerate")}


def posroot(d):
    """positional root of a sequence expression: sequences with the same root have the same length and aligned positions
    (a comprehension without filter over D, enumerate(D), list(D), zip(D, ...), range(len(D)) all walk the positions of D)"""
    while isinstance(d, tuple) and d:
        if d[0] == "comp" and d[1] in ("list", "gen") and len(d[3]) == 1 and not d[3][0][3]:
            d = d[3][0][2]
        elif d[0] == "call" and d[1] in _SEQ_WRAP and len(d[2]) >= 1:
            d = d[2][0]
        elif d[0] == "call" and d[1] == ("g", "zip") and d[2]:
            d = d[2][0]
        elif d[0] == "call" and d[1] == ("g", "map") and len(d[2]) == 2:
            d = d[2][1]
        elif d[0] == "call" and d[1] == ("g", "range") and len(d[2]) == 1 and d[2][0][0] == "call" and d[2][0][1] == ("g", "len") \
                and len(d[2][0][2]) == 1:
            d = d[2][0][2][0]
        else:
            break
    return strip_epochs(d)


def elem_at(d, lid):
    """the element of sequence d at the position of loop `lid`, with comprehensions applied to that position"""
    if d[0] == "comp" and d[1] in ("list", "gen") and len(d[3]) == 1 and not d[3][0][3]:
        inner = d[3][0][1]

        def sub(n):
            if n[0] == "it" and n[1] == inner:
                return elem_at(n[2], lid)
            if n[0] == "ix" and n[1] == inner:
                return ("ix", lid, posroot(n[2]))
            return None
        return mapx(d[2], sub)
    if d[0] == "call" and d[1] == ("g", "enumerate") and len(d[2]) == 1:
        return ("tup", (("ix", lid, posroot(d[2][0])), elem_at(d[2][0], lid)))
    if d[0] == "call" and d[1] == ("g", "zip") and d[2]:
        return ("tup", tuple(elem_at(x, lid) for x in d[2]))
    if d[0] == "call" and d[1] in (("g", "list"), ("g", "tuple"), ("g", "iter")) and len(d[2]) == 1:
        return elem_at(d[2][0], lid)
    if d[0] == "call" and d[1] == ("g", "range") and len(d[2]) == 1:
        return ("ix", lid, posroot(d))
    if d[0] == "call" and d[1] == ("g", "map") and len(d[2]) == 2 and d[2][0][0] in ("g", "ext"):
        return ("call", d[2][0], (elem_at(d[2][1], lid),), ())
    if d[0] == "phi":
        return ("phi", d[1], elem_at(d[2], lid), elem_at(d[3], lid))
    return ("it", lid, d)


def rowform(e):
    """resolve positional indexing: the element a loop variable / an index into a comprehension stands for is written in terms
    of the underlying sequence (bins[i] with bins = [f(h) for h in hs] and i the position of the same walk -> f(hs[i])).
    Only unmutated containers (read epoch 0) are resolved."""
    def prefix(d):
        """d = F[:U] (lower bound absent or 0, step absent or 1): (F, U)"""
        if d[0] == "slice" and len(d) == 5 and d[2] in (("c", None), ("c", 0)) and d[4] in (("c", None), ("c", 1)) and d[3] != ("c", None):
            return d[1], d[3]
        return None

    def f(n):
        if n[0] == "it":
            r = elem_at(n[2], n[1])
            if r[0] == "it" and prefix(r[2]) is not None:
                # walking F[:U] visits F[i] for i in range(U)
                fu = prefix(r[2])
                return ("sub", fu[0], ("it", r[1], ("call", ("g", "range"), (fu[1],), ())), 0)
            return None if r == n else rowform(r) if r[0] != "it" else r
        if n[0] == "ix":
            r = posroot(n[2])
            if prefix(r) is not None:
                return ("it", n[1], ("call", ("g", "range"), (prefix(r)[1],), ()))
            return ("ix", n[1], r)
        if n[0] == "sub" and len(n) == 4 and n[3] == 0 and n[2][0] == "ix" and n[1][0] in ("comp", "call"):
            if posroot(n[1]) == n[2][2]:
                r = elem_at(n[1], n[2][1])
                return rowform(r) if r[0] != "it" else r
        if n[0] == "sub" and len(n) == 4 and n[3] == 0 and n[2][0] != "ix":
            # table[i] with table = tuple(f(k) for k in range(N)) and i known non-negative: f(i) (an i >= N raises, it never yields a value)
            t = n[1]
            while t[0] == "call" and t[1] in (("g", "tuple"), ("g", "list")) and len(t[2]) == 1:
                t = t[2][0]
            i = n[2]
            nonneg = (is_int_const(i) and i[1] >= 0) or (i[0] == "bin" and i[1] == "%" and is_int_const(i[3]) and i[3][1] > 0)
            if nonneg and t[0] == "comp" and t[1] in ("list", "gen") and len(t[3]) == 1 and not t[3][0][3]:
                dom = t[3][0][2]
                if dom[0] == "call" and dom[1] == ("g", "range") and len(dom[2]) == 1:
                    lc = t[3][0][1]
                    return norm(mapx(t[2], lambda m: i if (m[0] in ("it", "ix") and m[1] == lc) else None))
        if n[0] == "sub" and n[1][0] == "tup" and is_const(n[2]) and isinstance(n[2][1], int) and 0 <= n[2][1] < len(n[1][1]):
            return n[1][1][n[2][1]]
        return None
    return mapx(e, f)


def renorm(e):
    """normal form again after a rewrite that replaced operands inside flattened sums / products (their order is by operand)"""
    def f(n):
        if n[0] == "nary" and n[1] in COMM:
            acc = n[2][0]
            for x in n[2][1:]:
                acc = ("bin", n[1], acc, x)
            return norm(acc)
        return None
    return mapx(e, f)


def posform(e):
    """after rowform: name the position of each loop by one symbol, so that `xs[i]` with i walking the positions and the element
    `x` bound by `for x in xs` / `for x, y in zip(xs, ys)` are the same expression  ('sub', xs, ('pos', loop))"""
    def f(n):
        if n[0] == "ix":
            return ("pos", n[1])
        if n[0] == "it":
            d = n[2]
            if d[0] == "call" and d[1] == ("g", "range") and len(d[2]) == 1:
                return ("pos", n[1])
            return ("sub", d, ("pos", n[1]), 0)
        return None
    return mapx(rowform(e), f)


def bounded_step(e):
    """x + min(n, K - x)  ->  min(x + n, K)     and     x - min(n, x - K)  ->  max(x - n, K)
    (a step that is cut short so that the result stops at the bound K; both spellings denote the same saturating update).
    Works on normalised expressions, anywhere inside e."""
    def f(n):
        if n[0] == "nary" and n[1] == "+" and len(n[2]) == 2:
            for m, x in (n[2], n[2][::-1]):
                if m[0] == "call" and m[1] == ("g", "min") and len(m[2]) == 2 and not m[3]:
                    for d, step in (m[2], m[2][::-1]):
                        if d[0] == "bin" and d[1] == "-" and d[3] == x:  # the very same read (same epoch): a stale copy of x does not bound x
                            return norm(("call", ("g", "min"), (norm(("bin", "+", x, step)), d[2]), ()))
        if n[0] == "bin" and n[1] == "-":
            x, m = n[2], n[3]
            if m[0] == "call" and m[1] == ("g", "min") and len(m[2]) == 2 and not m[3]:
                for d, step in (m[2], m[2][::-1]):
                    if d[0] == "bin" and d[1] == "-" and d[2] == x:
                        return norm(("call", ("g", "max"), (norm(("bin", "-", x, step)), d[3]), ()))
        return None
    return mapx(e, f)


def walk_ordered(e) -> Iterator[tuple]:
    if isinstance(e, tuple):
        if e and isinstance(e[0], str):
            yield e
        for y in e:
            if isinstance(y, tuple):
                yield from walk_ordered(y)


def _key(e) -> str:
    return repr(e)


def _fold_bin(op, a, b):
    try:
        if op == "+":
            return a + b
        if op == "-":
            return a - b
        if op == "*":
            return a * b
        if op == "//":
            return a // b
        if op == "/":
            return a / b
        if op == "%":
            return a % b
        if op == "**":
            if isinstance(b, int) and abs(b) > 4096:
                return None
            return a ** b
        if op == "<<" and isinstance(a, int) and isinstance(b, int) and 0 <= b < 4096:
            return a << b
        if op == ">>" and isinstance(a, int) and isinstance(b, int) and b >= 0:
            return a >> b
        if op == "&" and isinstance(a, int) and isinstance(b, int):
            return a & b
        if op == "|" and isinstance(a, int) and isinstance(b, int):
            return a | b
        if op == "^" and isinstance(a, int) and isinstance(b, int):
            return a ^ b
    except Exception:
        return None
    return None


def _pow2(v) -> int:
    """k if v == 2**k else -1"""
    if isinstance(v, int) and not isinstance(v, bool) and v > 0 and v & (v - 1) == 0:
        return v.bit_length() - 1
    return -1


def norm(e):
    """normal form (idempotent).  See DESIGN.md E4."""
    return mapx(e, _norm_node)


def _flatten(op, items):
    out = []
    for x in items:
        if x[0] == "nary" and x[1] == op:
            out.extend(x[2])
        else:
            out.append(x)
    return out


def _never_none(v) -> bool:
    """v is a number / bytes / freshly built object - never None"""
    k = v[0]
    if k == "c":
        return v[1] is not None
    if k in ("unp", "pack", "bin", "nary", "new", "newb", "lst", "tup", "fstr", "set", "dct"):
        return True
    if k == "un":
        return v[1] in ("-", "~")
    if k == "call":
        return v[1] in (("g", "int"), ("g", "float"), ("g", "len"), ("g", "str"), ("g", "bytes"), ("g", "bool"), ("g", "abs"), ("g", "round"),
                        ("ext", "math", "ceil"), ("ext", "math", "floor"), ("ext", "math", "log"), ("ext", "math", "log2")) or \
            (v[1][0] == "m" and v[1][2] in ("encode", "decode", "digest", "hexdigest", "lower", "upper", "strip", "tobytes", "to_bytes", "format", "join"))
    return False


INT_CELL_ARRAYS = {"_bloom", "_bins", "_filter", "_bitarray"}


def _norm_node(n):
    k = n[0]
    if k == "sub" and len(n) >= 3 and n[2][0] == "c" and isinstance(n[2][1], int) and not isinstance(n[2][1], bool):
        # a constant position of a tuple display (or of a choice between two tuple displays) is that component
        t, i = n[1], n[2][1]
        if t[0] == "tup" and -len(t[1]) <= i < len(t[1]):
            return t[1][i]
        if t[0] == "phi" and t[2][0] == "tup" and t[3][0] == "tup" and -len(t[2][1]) <= i < len(t[2][1]) and -len(t[3][1]) <= i < len(t[3][1]):
            return _norm_node(("phi", t[1], t[2][1][i], t[3][1][i])) or ("phi", t[1], t[2][1][i], t[3][1][i])
    if k == "bin":
        op, a, b = n[1], n[2], n[3]
        if is_num_const(a) and is_num_const(b):
            r = _fold_bin(op, a[1], b[1])
            if r is not None:
                return C(r)
        if op == ">>" and is_int_const(b) and b[1] >= 0:
            return _norm_node(("bin", "//", a, C(1 << b[1])))
        if op == "<<" and is_int_const(b) and 0 <= b[1] < 4096:
            return _norm_node(("bin", "*", a, C(1 << b[1])))
        if op == "&":
            for x, y in ((a, b), (b, a)):
                if is_int_const(y) and _pow2(y[1] + 1) >= 0:
                    return _norm_node(("bin", "%", x, C(y[1] + 1)))
        if op == "**" and is_int_const(a) and a[1] == 2:
            return _norm_node(("bin", "<<", C(1), b)) if not is_const(b) else n
        if op == "-" and is_num_const(b) and b[1] == 0:
            return a
        if op == "*" and ((is_num_const(a) and a[1] == -1) or (is_num_const(b) and b[1] == -1)):
            other = b if (is_num_const(a) and a[1] == -1) else a
            return _norm_node(("un", "-", other))
        if op == "*" and ((is_int_const(a) and a[1] == 1) or (is_int_const(b) and b[1] == 1)):
            return b if (is_int_const(a) and a[1] == 1) else a
        if op == "+" and ((is_int_const(a) and a[1] == 0) or (is_int_const(b) and b[1] == 0)):
            return b if (is_int_const(a) and a[1] == 0) else a
        if op in COMM:
            items = _flatten(op, [a, b])
            # fold constants among items
            consts = [x for x in items if is_num_const(x)]
            rest = [x for x in items if not is_num_const(x)]
            if len(consts) > 1:
                acc = consts[0][1]
                ok = True
                for c in consts[1:]:
                    r = _fold_bin(op, acc, c[1])
                    if r is None:
                        ok = False
                        break
                    acc = r
                if ok:
                    consts = [C(acc)]
            neg = False
            if op == "*":
                stripped = []
                for x in rest:
                    if x[0] == "un" and x[1] == "-":
                        neg = not neg
                        stripped.append(x[2])
                    else:
                        stripped.append(x)
                rest = _flatten(op, stripped)
                if consts and is_num_const(consts[0]) and len(consts) == 1 and consts[0][1] < 0:
                    consts = [C(-consts[0][1])]
                    neg = not neg
                if consts == [C(1)] and rest:
                    consts = []
            items = sorted(rest + consts, key=_key)
            res = items[0] if len(items) == 1 else ("nary", op, tuple(items))
            if neg:
                return _norm_node(("un", "-", res))
            return res
        return n
    if k == "un":
        op, a = n[1], n[2]
        if op == "-" and is_num_const(a):
            return C(-a[1])
        if op == "~" and is_int_const(a):
            return C(~a[1])
        if op == "-" and a[0] == "un" and a[1] == "-":
            return a[2]
        if op == "not":
            if is_const(a):
                return C(not a[1])
            if a[0] == "cmp" and a[1] in CMP_NEG:
                return _norm_node(("cmp", CMP_NEG[a[1]], a[2], a[3]))
            if a[0] == "un" and a[1] == "not":
                return a[2]
        return n
    if k == "cmp":
        op, a, b = n[1], n[2], n[3]
        if is_num_const(a) and is_num_const(b) and op in CMP_FLIP:
            return C({"<": a[1] < b[1], "<=": a[1] <= b[1], ">": a[1] > b[1], ">=": a[1] >= b[1],
                      "==": a[1] == b[1], "!=": a[1] != b[1]}[op])
        if op in ("is", "isnot") and b == ("c", None) and a[0] == "phi":
            # (x if c else None) is None  ==  not c, when x cannot be None (and the mirrored forms)
            ta, tb = a[2], a[3]
            if _never_none(ta) and tb == ("c", None):
                return ("un", "not", a[1]) if op == "is" else a[1]
            if ta == ("c", None) and _never_none(tb):
                return a[1] if op == "is" else ("un", "not", a[1])
        if op in ("is", "isnot") and is_const(b) and b[1] in (True, False) and not is_const(a):
            # `x is False` keeps its spelling (x may be non-bool); no rewrite
            return n
        # orient: constant on the right; otherwise lexicographic for symmetric ops
        if op in CMP_FLIP and is_const(a) and not is_const(b):
            return ("cmp", CMP_FLIP[op], b, a)
        if op in ("==", "!=") and not is_const(a) and not is_const(b) and _key(a) > _key(b):
            return ("cmp", op, b, a)
        return n
    if k in ("and", "or"):
        items = []
        for x in n[1]:
            if x[0] == k:
                items.extend(x[1])
            else:
                items.append(x)
        # short-circuit on decided operands: False and x -> False, True and x -> x (or: dually); the value of the last operand stands
        kept = []
        for i, x in enumerate(items):
            last = i == len(items) - 1
            if is_const(x) and isinstance(x[1], bool) or (is_const(x) and x[1] is None):
                truthy = bool(x[1])
                if (k == "and" and not truthy) or (k == "or" and truthy):
                    if not kept:
                        return x
                    kept.append(x)
                    break
                if not last:
                    continue  # a neutral operand in front of others
            kept.append(x)
        if len(kept) == 1:
            return kept[0]
        return (k, tuple(kept))
    if k == "call":
        fn, args = n[1], n[2]
        kw = n[3] if len(n) > 3 else ()
        if fn == ("g", "range") and not kw:
            if len(args) == 2 and args[0] == C(0):
                return ("call", fn, (args[1],), ())
            if len(args) == 3 and args[2] == C(1):
                return _norm_node(("call", fn, (args[0], args[1]), ()))
        if fn in (("g", "int"), ("g", "float")) and len(args) == 1 and not kw and is_num_const(args[0]):
            return C(int(args[0][1]) if fn[1] == "int" else float(args[0][1]))
        if fn in (("g", "int"), ("g", "float")) and len(args) == 1 and not kw:
            # conversions of a value that already has the target type are the identity
            a = args[0]
            slot = None
            if a[0] == "unp" and isinstance(a[1], str) and isinstance(a[2], int):
                chars = [c for c in a[1] if c.isalpha()]
                slot = chars[a[2]] if a[2] < len(chars) else None
            if fn[1] == "int" and a[0] == "sub" and a[1][0] == "f" and a[1][2] in INT_CELL_ARRAYS and a[2][0] != "slc":
                return a  # an element of one of the repo's integer cell arrays (array('B' / 'I' / 'i'), or a byte of the mapped file) is an int
            if fn[1] == "int" and ((a[0] == "call" and a[1] in (("g", "int"), ("g", "len"), ("ext", "math", "ceil"), ("ext", "math", "floor"), ("ext", "math", "trunc")))
                                   or (a[0] == "call" and a[1] == ("g", "round") and len(a[2]) == 1) or (slot is not None and slot in "bBhHiIlLqQnN")):
                return a
            if fn[1] == "float" and ((a[0] == "call" and a[1] in (("g", "float"), ("ext", "math", "log"), ("ext", "math", "log2"), ("ext", "math", "sqrt"), ("ext", "math", "exp"), ("ext", "math", "pow")))
                                     or (slot is not None and slot in "fde")):
                return a
        if fn in (("ext", "math", "log"),) and len(args) == 1 and is_num_const(args[0]) and args[0][1] > 0:
            return C(math.log(args[0][1]))
        if fn in (("g", "min"), ("g", "max")) and not kw and len(args) >= 2:
            return ("call", fn, tuple(sorted(args, key=_key)), ())
        return n
    if k == "phi":
        c, a, b = n[1], n[2], n[3]
        if is_const(c):
            return a if c[1] else b
        if c[0] == "cmp" and c[1] in ("is", "isnot") and c[3] == ("c", None) and _never_none(c[2]):
            return a if c[1] == "isnot" else b  # a value that cannot be None
        if a == b:
            return a
        return n
    return None


# ----------------------------------------------------------------------------- printing
def show(e, depth: int = 0) -> str:
    if depth > 12:
        return "..."
    if not isinstance(e, tuple) or not e:
        return repr(e)
    k = e[0]
    d = depth + 1
    if k == "c":
        v = e[1]
        if isinstance(v, int) and not isinstance(v, bool) and abs(v) > 65535:
            for name, val in (("2**31-1", 2**31 - 1), ("-2**31", -2**31), ("2**32-1", 2**32 - 1), ("2**63-1", 2**63 - 1),
                              ("-2**63", -2**63), ("2**64-1", 2**64 - 1), ("2**32", 2**32), ("2**64", 2**64)):
                if v == val:
                    return name
            return hex(v)
        return repr(v)
    if k == "self":
        return "self"
    if k == "p":
        return e[1]
    if k == "f":
        return f"{show(e[1], d)}.{e[2]}"
    if k == "sub":
        return f"{show(e[1], d)}[{show(e[2], d)}]"
    if k == "slice":
        return f"{show(e[1], d)}[{'' if e[2] == NONE else show(e[2], d)}:{'' if e[3] == NONE else show(e[3], d)}]"
    if k == "bin":
        return f"({show(e[2], d)} {e[1]} {show(e[3], d)})"
    if k == "nary":
        return "(" + f" {e[1]} ".join(show(x, d) for x in e[2]) + ")"
    if k == "un":
        return f"({e[1]} {show(e[2], d)})"
    if k == "cmp":
        return f"({show(e[2], d)} {e[1]} {show(e[3], d)})"
    if k in ("and", "or"):
        return "(" + f" {k} ".join(show(x, d) for x in e[1]) + ")"
    if k == "phi":
        return f"({show(e[2], d)} if {show(e[1], d)} else {show(e[3], d)})"
    if k == "call":
        fn = e[1]
        if fn[0] == "g":
            name = fn[1]
        elif fn[0] == "ext":
            name = f"{fn[1]}.{fn[2]}"
        elif fn[0] == "m":
            name = f"{show(fn[1], d)}.{fn[2]}"
        else:
            name = show(fn, d)
        args = [show(x, d) for x in e[2]] + [f"{kk}={show(v, d)}" for kk, v in (e[3] if len(e) > 3 else ())]
        return f"{name}({', '.join(args)})"
    if k == "it":
        return f"elem<{show(e[2], d)}>"
    if k == "ix":
        return f"index<{show(e[2], d)}>"
    if k == "hv":
        return f"loopvar({e[1]}#{e[2]})"
    if k in ("tup", "lst", "set"):
        o, c = {"tup": "()", "lst": "[]", "set": "{}"}[k]
        return o + ", ".join(show(x, d) for x in e[1]) + c
    if k == "comp":
        return f"[{show(e[2], d)} for {', '.join(show(g, d) for g in e[3])}]"
    if k == "gen":
        return f"_ in {show(e[2], d)}" + (f" if {' and '.join(show(c, d) for c in e[3])}" if e[3] else "")
    if k == "struct":
        return f"Struct({e[1]!r})"
    if k == "unp":
        return f"unpack({e[1]!r}, {show(e[3], d)})[{e[2]}]"
    if k == "unpall":
        return f"unpack({e[1]!r}, {show(e[2], d)})"
    if k == "pack":
        return f"pack({e[1]!r}, {', '.join(show(x, d) for x in e[2])})"
    if k == "new":
        return f"new {e[1]}@{e[2]}"
    if k == "newb":
        return f"{e[1]}@{e[2]}"
    if k == "ret":
        return f"{e[1]}({', '.join(show(x, d) for x in e[3])})"
    if k == "fileobj":
        return f"fileobj@{e[1]}"
    if k == "cls":
        return f"class {e[1]}"
    if k == "func":
        return f"function {e[1]}"
    if k == "bm":
        return f"{show(e[1], d)}.{e[2]}"
    if k == "unk":
        return f"?<{e[1]}>"
    if k == "fstr":
        return "f'" + (e[2] if len(e) > 2 else "") + "' % (" + ", ".join(show(x, d) if isinstance(x, tuple) else str(x) for x in e[1]) + ")"
    if k == "dct":
        return "{" + ", ".join(f"{show(a, d)}: {show(b, d)}" for a, b in e[1]) + "}"
    return repr(e)


def root_of(e):
    """the object an access path hangs off: self / param / new / newb / other"""
    while isinstance(e, tuple) and e and e[0] in ("f", "sub", "slice"):
        e = e[1]
    return e


# ----------------------------------------------------------------------------- tolerant comparison (formula conformance)
def first_diff(want, got, tol: float = 0.0, path: str = ""):
    """None if equal up to relative tolerance on float constants, else (path, kind, want, got);
    kind: 'const' | 'function' | 'operator' | 'operand' | 'shape'"""
    if want == got:
        return None
    if not isinstance(want, tuple) or not isinstance(got, tuple):
        return (path, "operand", want, got)
    if is_num_const(want) and is_num_const(got):
        a, b = float(want[1]), float(got[1])
        if a == b or abs(a - b) <= tol * max(abs(a), abs(b)):
            return None
        return (path, "const", want, got)
    # a missing / extra wrapping function is a positively identified deviation
    if want and want[0] == "call" and len(want[2]) == 1 and not (got and got[0] == "call" and got[1] == want[1]) \
            and first_diff(want[2][0], got, tol) is None:
        return (path, "function", want[1], "(missing)")
    if got and got[0] == "call" and len(got[2]) == 1 and not (want and want[0] == "call" and want[1] == got[1]) \
            and first_diff(want, got[2][0], tol) is None:
        return (path, "function", "(none)", got[1])
    if want and got and want[0] == "nary" and got[0] != "nary" and any(first_diff(a, got, tol) is None for a in want[2]):
        return (path, "operand", ("missing operand(s) of", want[1]), got)
    if not want or not got or want[0] != got[0]:
        return (path, "shape" if (want and got and want[0] in ("nary", "bin", "call", "un") and got[0] in ("nary", "bin", "call", "un")) else "operand", want, got)
    k = want[0]
    if k == "call":
        if want[1] != got[1]:
            return (path, "function", want[1], got[1])
        if len(want[2]) != len(got[2]):
            return (path, "shape", want, got)
        for i, (a, b) in enumerate(zip(want[2], got[2])):
            d = first_diff(a, b, tol, f"{path}/arg{i}")
            if d:
                return d
        if (want[3] if len(want) > 3 else ()) != (got[3] if len(got) > 3 else ()):
            return (path, "operand", want, got)
        return None
    if k == "nary":
        if want[1] != got[1]:
            return (path, "operator", want[1], got[1])
        if len(want[2]) != len(got[2]):
            short, long_ = (got[2], want[2]) if len(got[2]) < len(want[2]) else (want[2], got[2])
            rest_ = list(long_)
            allm = True
            for a in short:
                hit = [b for b in rest_ if first_diff(a, b, tol) is None]
                if hit:
                    rest_.remove(hit[0])
                else:
                    allm = False
            if allm:
                return (path, "operand", ("missing" if len(got[2]) < len(want[2]) else "extra"), tuple(rest_))
            return (path, "shape", want, got)
        # operands are sorted by repr; float constants may sort differently: match greedily
        rest = list(got[2])
        for a in want[2]:
            hit = None
            for b in rest:
                if first_diff(a, b, tol) is None:
                    hit = b
                    break
            if hit is None:
                # report against the structurally closest operand (same kind)
                cands = [b for b in rest if isinstance(b, tuple) and b[:1] == a[:1]]
                return first_diff(a, cands[0], tol, f"{path}/{k}{want[1]}") if len(cands) == 1 else (path, "operand", a, tuple(rest))
            rest.remove(hit)
        return None
    if k in ("bin", "un", "cmp"):
        if want[1] != got[1]:
            return (path, "operator", want[1], got[1])
    if len(want) != len(got):
        return (path, "shape", want, got)
    for i, (a, b) in enumerate(zip(want[1:], got[1:])):
        if isinstance(a, tuple) and isinstance(b, tuple) and a and b and isinstance(a[0], str):
            d = first_diff(a, b, tol, f"{path}/{k}{i}")
            if d:
                return d
        elif isinstance(a, tuple) and isinstance(b, tuple):
            if len(a) != len(b):
                return (path, "shape", want, got)
            for j, (x, y) in enumerate(zip(a, b)):
                d = first_diff(x, y, tol, f"{path}/{k}{i}.{j}") if isinstance(x, tuple) else (None if x == y else (path, "operand", x, y))
                if d:
                    return d
        elif a != b:
            return (path, "operand", a, b)
    return None
