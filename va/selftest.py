"""Both-ways self-test of the rules on in-memory variants of the *current* tree (thorough tier).

A variant is the current source of one module with one AST-located edit, re-parsed; nothing
is written to disk and nothing is executed.  must-fire variants break the property and
must be reported; must-stay-silent variants preserve behaviour and must not be.
The verdict on /repo never depends on this self-test; mismatches are printed and
recorded in the evidence.
"""
from __future__ import annotations

import ast
import copy
import importlib
from dataclasses import dataclass
from typing import Callable, List, Optional

from .common import clear_caches
from .model import AnalysisError, Program


# ----------------------------------------------------------------------------- locating constructs
def find_func(tree: ast.Module, cls: Optional[str], name: str) -> Optional[ast.FunctionDef]:
    body = tree.body
    if cls:
        for n in body:
            if isinstance(n, ast.ClassDef) and n.name == cls:
                body = n.body
                break
        else:
            return None
    hits = [n for n in body if isinstance(n, ast.FunctionDef) and n.name == name]
    if not hits:
        # nested function (hashes.py decorators)
        for n in body:
            if isinstance(n, ast.FunctionDef):
                for sub in ast.walk(n):
                    if isinstance(sub, ast.FunctionDef) and sub.name == name and sub is not n:
                        return sub
        return None
    # property getter preferred last? keep first non-setter
    for h in hits:
        if not any(isinstance(d, ast.Attribute) and d.attr == "setter" for d in h.decorator_list):
            return h
    return hits[0]


def _nodes(fn: ast.AST):
    return list(ast.walk(fn))


def _same(node, text: str) -> bool:
    try:
        return ast.unparse(node) == text
    except Exception:
        return False


def swap_binop(cls, func, old, new, nth=0):
    def edit(tree):
        fn = find_func(tree, cls, func)
        if fn is None:
            return False
        hits = [n for n in _nodes(fn) if isinstance(n, (ast.BinOp, ast.AugAssign)) and isinstance(n.op, old)]
        hits.sort(key=lambda n: (n.lineno, n.col_offset))
        if len(hits) <= nth:
            return False
        hits[nth].op = new()
        return True
    return edit


def swap_cmp(cls, func, old, new, nth=0):
    def edit(tree):
        fn = find_func(tree, cls, func)
        if fn is None:
            return False
        hits = []
        for n in _nodes(fn):
            if isinstance(n, ast.Compare):
                for i, op in enumerate(n.ops):
                    if isinstance(op, old):
                        hits.append((n.lineno, n.col_offset, i, n))
        hits.sort(key=lambda t: t[:3])
        if len(hits) <= nth:
            return False
        _, _, i, n = hits[nth]
        n.ops[i] = new()
        return True
    return edit


def replace_expr(cls, func, old_src: str, new_src: str, nth=0):
    def edit(tree):
        fn = find_func(tree, cls, func)
        if fn is None:
            return False
        new = ast.parse(new_src, mode="eval").body
        count = [0]
        done = [False]

        class T(ast.NodeTransformer):
            def generic_visit(self, node):
                if done[0]:
                    return node
                if isinstance(node, ast.expr) and _same(node, old_src):
                    if count[0] == nth:
                        done[0] = True
                        return ast.copy_location(copy.deepcopy(new), node)
                    count[0] += 1
                return super().generic_visit(node)
        T().visit(fn)
        return done[0]
    return edit


def _stmt_lists(fn):
    for n in ast.walk(fn):
        for attr in ("body", "orelse", "finalbody"):
            b = getattr(n, attr, None)
            if isinstance(b, list) and b and isinstance(b[0], ast.stmt):
                yield b


def del_stmt(cls, func, text: str, nth=0):
    """delete the nth statement whose unparse starts with `text`"""
    def edit(tree):
        fn = find_func(tree, cls, func)
        if fn is None:
            return False
        k = 0
        for b in _stmt_lists(fn):
            for i, st in enumerate(b):
                if ast.unparse(st).startswith(text):
                    if k == nth:
                        if len(b) == 1:
                            b[i] = ast.Pass()
                        else:
                            del b[i]
                        return True
                    k += 1
        return False
    return edit


def replace_stmt(cls, func, text: str, new_src: str, nth=0):
    def edit(tree):
        fn = find_func(tree, cls, func)
        if fn is None:
            return False
        k = 0
        for b in _stmt_lists(fn):
            for i, st in enumerate(b):
                if ast.unparse(st).startswith(text):
                    if k == nth:
                        b[i:i + 1] = ast.parse(new_src).body
                        return True
                    k += 1
        return False
    return edit


def insert_stmt(cls, func, new_src: str, after: Optional[str] = None, before: Optional[str] = None, at_end=False):
    def edit(tree):
        fn = find_func(tree, cls, func)
        if fn is None:
            return False
        new = ast.parse(new_src).body
        if after is None and before is None:
            if at_end:
                fn.body.extend(new)
            else:
                start = 1 if (fn.body and isinstance(fn.body[0], ast.Expr) and isinstance(fn.body[0].value, ast.Constant)) else 0
                fn.body[start:start] = new
            return True
        for b in _stmt_lists(fn):
            for i, st in enumerate(b):
                s = ast.unparse(st)
                if after is not None and s.startswith(after):
                    b[i + 1:i + 1] = new
                    return True
                if before is not None and s.startswith(before):
                    b[i:i] = new
                    return True
        return False
    return edit


def add_method(cls, src: str):
    def edit(tree):
        for n in tree.body:
            if isinstance(n, ast.ClassDef) and n.name == cls:
                n.body.extend(ast.parse(src).body)
                return True
        return False
    return edit


def replace_class_const(cls, name, new_src):
    def edit(tree):
        for n in tree.body:
            if isinstance(n, ast.ClassDef) and n.name == cls:
                for st in n.body:
                    if isinstance(st, ast.Assign) and len(st.targets) == 1 and isinstance(st.targets[0], ast.Name) and st.targets[0].id == name:
                        st.value = ast.parse(new_src, mode="eval").body
                        return True
        return False
    return edit


def seq(*edits):
    def edit(tree):
        return all(e(tree) for e in edits)
    return edit


# ----------------------------------------------------------------------------- behaviour-preserving transforms
def t_roundtrip(tree):
    return True


def t_reverse_methods(tree):
    for n in tree.body:
        if isinstance(n, ast.ClassDef):
            funcs = [s for s in n.body if isinstance(s, ast.FunctionDef)]
            # keep a property's getter before its setter: reverse groups by name order of first appearance
            names = []
            for f in funcs:
                if f.name not in names:
                    names.append(f.name)
            groups = {nm: [f for f in funcs if f.name == nm] for nm in names}
            rest = [s for s in n.body if not isinstance(s, ast.FunctionDef)]
            # class constants must stay before methods that use them only at call time: keep `rest` first
            n.body = rest + [f for nm in reversed(names) for f in groups[nm]]
    return True


def t_rename_locals(tree):
    """alpha-rename locals (not parameters, which may be passed by keyword)"""
    for fn in [n for n in ast.walk(tree) if isinstance(n, ast.FunctionDef)]:
        params = {a.arg for a in fn.args.posonlyargs + fn.args.args + fn.args.kwonlyargs}
        if fn.args.vararg:
            params.add(fn.args.vararg.arg)
        if fn.args.kwarg:
            params.add(fn.args.kwarg.arg)
        nested = [n for n in ast.walk(fn) if isinstance(n, ast.FunctionDef) and n is not fn]
        if nested:
            continue
        stores = {n.id for n in ast.walk(fn) if isinstance(n, ast.Name) and isinstance(n.ctx, ast.Store)}
        # skip names captured from an enclosing function
        ren = {nm: f"{nm}_zq" for nm in stores if nm not in params and not nm.startswith("__")}
        if not ren:
            continue
        for n in ast.walk(fn):
            if isinstance(n, ast.Name) and n.id in ren:
                n.id = ren[n.id]
    return True


def t_shift_spelling(tree):
    """k // 8 -> k >> 3 ; k % 8 -> k & 7 ; range(0, n) <-> range(n)"""
    class T(ast.NodeTransformer):
        def visit_BinOp(self, node):
            self.generic_visit(node)
            if isinstance(node.right, ast.Constant) and node.right.value == 8:
                if isinstance(node.op, ast.FloorDiv):
                    return ast.copy_location(ast.BinOp(node.left, ast.RShift(), ast.Constant(3)), node)
                if isinstance(node.op, ast.Mod):
                    return ast.copy_location(ast.BinOp(node.left, ast.BitAnd(), ast.Constant(7)), node)
            return node

        def visit_Call(self, node):
            self.generic_visit(node)
            if isinstance(node.func, ast.Name) and node.func.id == "range" and not node.keywords:
                if len(node.args) == 1:
                    node.args = [ast.Constant(0), node.args[0]]
                elif len(node.args) == 2 and isinstance(node.args[0], ast.Constant) and node.args[0].value == 0:
                    node.args = [node.args[1]]
            return node
    T().visit(tree)
    return True


def t_temporaries(tree):
    """introduce a temporary for every subscript index that is a compound expression in an assignment statement"""
    counter = [0]
    for fn in [n for n in ast.walk(tree) if isinstance(n, ast.FunctionDef)]:
        for b in list(_stmt_lists(fn)):
            i = 0
            while i < len(b):
                st = b[i]
                if isinstance(st, ast.Assign) and len(st.targets) == 1 and isinstance(st.targets[0], ast.Subscript) \
                        and isinstance(st.targets[0].slice, (ast.BinOp,)) and not isinstance(st.value, ast.Tuple):
                    # only when the index expression does not occur in the value (evaluation order irrelevant: pure)
                    idx = st.targets[0].slice
                    src = ast.unparse(idx)
                    if "(" not in src.replace("(", "", 0) or True:
                        counter[0] += 1
                        nm = f"tmp_idx_{counter[0]}"
                        b.insert(i, ast.Assign([ast.Name(nm, ast.Store())], copy.deepcopy(idx), lineno=st.lineno))
                        st.targets[0].slice = ast.Name(nm, ast.Load())
                        for sub in ast.walk(st.value):
                            for fld, val in ast.iter_fields(sub):
                                if isinstance(val, ast.expr) and _same(val, src):
                                    setattr(sub, fld, ast.Name(nm, ast.Load()))
                        i += 1
                i += 1
    ast.fix_missing_locations(tree)
    return True


def t_unrelated_members(tree):
    for n in tree.body:
        if isinstance(n, ast.ClassDef) and not any(isinstance(b, ast.Name) and b.id.endswith("Exception") for b in n.bases):
            n.body.extend(ast.parse(
                "def zq_unrelated_info(self):\n    \"\"\"unrelated\"\"\"\n    return 'info'\n").body)
    return True


def t_ifexp_to_stmt(tree):
    """x = a if c else b  ->  if c: x = a / else: x = b   (simple-name targets only)"""
    for fn in [n for n in ast.walk(tree) if isinstance(n, ast.FunctionDef)]:
        for b in list(_stmt_lists(fn)):
            for i, st in enumerate(list(b)):
                if isinstance(st, ast.Assign) and len(st.targets) == 1 and isinstance(st.targets[0], ast.Name) and isinstance(st.value, ast.IfExp):
                    t = st.targets[0]
                    new = ast.If(st.value.test, [ast.Assign([ast.Name(t.id, ast.Store())], st.value.body, lineno=st.lineno)],
                                 [ast.Assign([ast.Name(t.id, ast.Store())], st.value.orelse, lineno=st.lineno)])
                    b[b.index(st)] = ast.copy_location(new, st)
    return True


def t_neq_spelling(tree):
    """a != b -> not a == b ; a == b kept"""
    class T(ast.NodeTransformer):
        def visit_Compare(self, node):
            self.generic_visit(node)
            if len(node.ops) == 1 and isinstance(node.ops[0], ast.NotEq):
                return ast.copy_location(ast.UnaryOp(ast.Not(), ast.Compare(node.left, [ast.Eq()], node.comparators)), node)
            return node
    T().visit(tree)
    return True


def t_expand_augassign(tree):
    """x += y -> x = x + y   for simple names and self attributes (no subscripts: evaluation order of the index stays untouched)"""
    class T(ast.NodeTransformer):
        def visit_AugAssign(self, node):
            self.generic_visit(node)
            t = node.target
            if isinstance(t, ast.Name) or (isinstance(t, ast.Attribute) and isinstance(t.value, ast.Name)):
                load = copy.deepcopy(t)
                for n in ast.walk(load):
                    if hasattr(n, "ctx"):
                        n.ctx = ast.Load()
                return ast.copy_location(ast.Assign([t], ast.BinOp(load, node.op, node.value)), node)
            return node
    T().visit(tree)
    return True


def t_enumerate_to_range(tree):
    """for i, v in enumerate(xs): ...  ->  for i in range(len(xs)): v = xs[i]; ...   (xs a plain name or self attribute)"""
    for fn in [n for n in ast.walk(tree) if isinstance(n, ast.FunctionDef)]:
        for st in [n for n in ast.walk(fn) if isinstance(n, ast.For)]:
            it = st.iter
            if isinstance(it, ast.Call) and isinstance(it.func, ast.Name) and it.func.id == "enumerate" and len(it.args) == 1 and not it.keywords \
                    and isinstance(st.target, ast.Tuple) and len(st.target.elts) == 2 and all(isinstance(e, ast.Name) for e in st.target.elts):
                xs = it.args[0]
                if not (isinstance(xs, ast.Name) or (isinstance(xs, ast.Attribute) and isinstance(xs.value, ast.Name))):
                    continue
                i, v = st.target.elts
                st.target = ast.Name(i.id, ast.Store())
                st.iter = ast.Call(ast.Name("range", ast.Load()), [ast.Call(ast.Name("len", ast.Load()), [copy.deepcopy(xs)], [])], [])
                if v.id != "_":
                    st.body.insert(0, ast.Assign([ast.Name(v.id, ast.Store())], ast.Subscript(copy.deepcopy(xs), ast.Name(i.id, ast.Load()), ast.Load()), lineno=st.lineno))
    ast.fix_missing_locations(tree)
    return True


def t_else_to_early_return(tree):
    """a trailing  if c: A else: B  of a function body becomes  if c: A; return  followed by B  (A without return/yield)"""
    for fn in [n for n in ast.walk(tree) if isinstance(n, ast.FunctionDef)]:
        if any(isinstance(n, (ast.Yield, ast.YieldFrom)) for n in ast.walk(fn)):
            continue
        last = fn.body[-1] if fn.body else None
        if isinstance(last, ast.If) and last.orelse and not (len(last.orelse) == 1 and isinstance(last.orelse[0], ast.If)):
            if any(isinstance(n, ast.Return) for n in ast.walk(last)):
                continue
            rest = last.orelse
            last.orelse = []
            last.body.append(ast.Return(None))
            fn.body.extend(rest)
    ast.fix_missing_locations(tree)
    return True


def t_hoist_fields(tree):
    """fld = self.fld once at the top of a method that reads self.fld several times, never assigns it and calls no method on self"""
    for cls in [n for n in tree.body if isinstance(n, ast.ClassDef)]:
        for fn in [n for n in cls.body if isinstance(n, ast.FunctionDef)]:
            if any(isinstance(d, ast.Name) and d.id in ("property", "staticmethod", "classmethod") or isinstance(d, ast.Attribute) for d in fn.decorator_list):
                continue
            if not fn.args.args or fn.args.args[0].arg != "self" or fn.name == "__init__":
                continue
            if any(isinstance(n, (ast.FunctionDef, ast.Lambda, ast.Yield, ast.YieldFrom, ast.Try, ast.With)) for n in ast.walk(fn) if n is not fn):
                continue
            attrs = [n for n in ast.walk(fn) if isinstance(n, ast.Attribute) and isinstance(n.value, ast.Name) and n.value.id == "self"]
            called = {n.func.attr for n in ast.walk(fn) if isinstance(n, ast.Call) and isinstance(n.func, ast.Attribute)
                      and isinstance(n.func.value, (ast.Name, ast.Call)) and (not isinstance(n.func.value, ast.Name) or n.func.value.id == "self")}
            if called:
                continue  # a callee may rebind the field
            stored = {n.attr for n in attrs if not isinstance(n.ctx, ast.Load)}
            names = {n.id for n in ast.walk(fn) if isinstance(n, ast.Name)} | {a.arg for a in fn.args.args + fn.args.kwonlyargs}
            counts = {}
            for n in attrs:
                if isinstance(n.ctx, ast.Load) and n.attr.startswith("_") and not n.attr.startswith("__"):
                    counts[n.attr] = counts.get(n.attr, 0) + 1
            hoist = [a for a, c in counts.items() if c >= 2 and a not in stored and ("h" + a) not in names]
            if not hoist:
                continue

            class T(ast.NodeTransformer):
                def visit_Attribute(self, node):
                    self.generic_visit(node)
                    if isinstance(node.value, ast.Name) and node.value.id == "self" and node.attr in hoist and isinstance(node.ctx, ast.Load):
                        return ast.copy_location(ast.Name("h" + node.attr, ast.Load()), node)
                    return node
            for i, st in enumerate(fn.body):
                fn.body[i] = T().visit(st)
            start = 1 if (fn.body and isinstance(fn.body[0], ast.Expr) and isinstance(fn.body[0].value, ast.Constant)) else 0
            fn.body[start:start] = [ast.Assign([ast.Name("h" + a, ast.Store())], ast.Attribute(ast.Name("self", ast.Load()), a, ast.Load()), lineno=fn.lineno)
                                    for a in sorted(hoist)]
    ast.fix_missing_locations(tree)
    return True


def t_append_loop_to_comprehension(tree):
    """r = []; for x in xs: r.append(e)   ->   r = [e for x in xs]"""
    for fn in [n for n in ast.walk(tree) if isinstance(n, ast.FunctionDef)]:
        for b in list(_stmt_lists(fn)):
            i = 0
            while i + 1 < len(b):
                a, f = b[i], b[i + 1]
                if isinstance(a, (ast.Assign, ast.AnnAssign)) and isinstance(f, ast.For) and not f.orelse and len(f.body) == 1:
                    tgt = a.targets[0] if isinstance(a, ast.Assign) and len(a.targets) == 1 else (a.target if isinstance(a, ast.AnnAssign) else None)
                    val = a.value
                    call = f.body[0].value if isinstance(f.body[0], ast.Expr) else None
                    if isinstance(tgt, ast.Name) and isinstance(val, ast.List) and not val.elts and isinstance(call, ast.Call) \
                            and isinstance(call.func, ast.Attribute) and call.func.attr == "append" and isinstance(call.func.value, ast.Name) \
                            and call.func.value.id == tgt.id and len(call.args) == 1 \
                            and not any(isinstance(n, ast.Name) and n.id == tgt.id for n in ast.walk(call.args[0])):
                        comp = ast.ListComp(call.args[0], [ast.comprehension(f.target, f.iter, [], 0)])
                        b[i:i + 2] = [ast.copy_location(ast.Assign([ast.Name(tgt.id, ast.Store())], comp), a)]
                i += 1
    ast.fix_missing_locations(tree)
    return True


SILENT_GLOBAL = [
    ("unparse round trip", t_roundtrip),
    ("method order reversed", t_reverse_methods),
    ("locals alpha-renamed", t_rename_locals),
    ("//8,%8 spelled as >>3,&7; range(0,n)<->range(n)", t_shift_spelling),
    ("temporaries for subscript indices", t_temporaries),
    ("unrelated public method added to every class", t_unrelated_members),
    ("conditional expressions written as if/else statements", t_ifexp_to_stmt),
    ("!= spelled as not ==", t_neq_spelling),
    ("augmented assignments expanded", t_expand_augassign),
    ("enumerate loops written as range(len(...)) loops", t_enumerate_to_range),
    ("trailing if/else written with an early return", t_else_to_early_return),
    ("repeatedly read fields hoisted into locals", t_hoist_fields),
    ("append loops written as comprehensions", t_append_loop_to_comprehension),
]


@dataclass
class Mutant:
    name: str
    file: str  # path suffix, e.g. "blooms/bloom.py"
    edit: Callable[[ast.Module], bool]
    expect: str = "fire"  # fire | silent
    rule: Optional[str] = None  # rule id prefix expected among the new violations


def variant(prog: Program, file_suffix: str, edit) -> Optional[Program]:
    rel = None
    for r in prog.sources:
        if r.endswith(file_suffix):
            rel = r
    if rel is None:
        return None
    tree = ast.parse(prog.sources[rel])
    try:
        if not edit(tree):
            return None
    except Exception:
        return None
    ast.fix_missing_locations(tree)
    try:
        src = ast.unparse(tree)
        compile(src, rel, "exec")
    except Exception:
        return None
    return prog.with_source(rel, src, label=f"variant:{file_suffix}")


def run_variant(pid: str, prog2: Program):
    from .cli import run_property
    clear_caches()
    rep2, err = run_property(pid, prog2, "quick")
    clear_caches()
    return rep2, err


_G = {}


def _job(i):
    """worker: evaluate variant i (fork start method: _G is inherited)"""
    pid, prog, jobs, base_keys = _G["pid"], _G["prog"], _G["jobs"], _G["base_keys"]
    name, suffix, edit, expect, rule = jobs[i]
    if isinstance(edit, str):
        rel = [r for r in prog.sources if r.endswith(suffix)][0]
        p2 = prog.with_source(rel, edit, label="generic-mutant")
    else:
        p2 = variant(prog, suffix, edit)
    if p2 is None:
        return (i, "skipped", None, None)
    rep2, err = run_variant(pid, p2)
    new = [(v.rule, v.where, v.key) for v in rep2.violations if v.key not in base_keys]
    return (i, "done", new, err)


def run(pid: str, prog: Program, rep, seed: int = 0) -> None:
    import multiprocessing as mp
    import os
    mod = importlib.import_module(f"va.rules.{pid}")
    mutants: List[Mutant] = list(getattr(mod, "MUTANTS", []))
    files = getattr(mod, "FILES", None) or []
    base_keys = {v.key for v in rep.violations}
    jobs = [(m.name, m.file, m.edit, m.expect, m.rule) for m in mutants]
    for name, t in SILENT_GLOBAL:
        for suffix in files:
            jobs.append((f"{name} on {suffix}", suffix, t, "silent", None))
    # informational: a seeded sample of generic single-point mutants (comparison flips, operator swaps, +1 on constants,
    # negated conditions, statement deletion, shortened ranges) of the property's files
    n_curated = len(jobs)
    try:
        import random
        from .sweep import mutants_of
        gen = []
        for suffix in files:
            for rel, src in prog.sources.items():
                if rel.endswith(suffix):
                    for qual, line, kind, orig, new_src in mutants_of(src):
                        gen.append((f"generic {kind} in {qual}: {orig[:60]}", suffix, new_src, "info", None))
        random.Random(seed).shuffle(gen)
        jobs += gen[: int(os.environ.get("VERIF_GENERIC_SAMPLE", "120"))]
    except Exception as ex:  # the information is optional
        rep.notes.append(f"generic mutation sample skipped: {type(ex).__name__}: {ex}")
    _G.update(pid=pid, prog=prog, jobs=jobs, base_keys=base_keys)
    nproc = min(int(os.environ.get("VERIF_JOBS", "16")), max(1, len(jobs)))
    results = []
    if nproc > 1 and len(jobs) > 2:
        try:
            ctx = mp.get_context("fork")
            with ctx.Pool(nproc) as pool:
                results = pool.map(_job, range(len(jobs)), chunksize=1)
        except Exception:
            results = [_job(i) for i in range(len(jobs))]
    else:
        results = [_job(i) for i in range(len(jobs))]
    tally = {"must_fire": 0, "fired": 0, "must_silent": 0, "silent": 0, "skipped": 0, "mismatches": []}
    details = []
    for (i, state, new, err) in results:
        name, suffix, edit, expect, rule = jobs[i]
        if state == "skipped":
            tally["skipped"] += 1
            if i < len(mutants):
                print(f"SELFTEST-NOTE property={pid} variant '{name}' skipped: construct not present on this tree")
            details.append({"variant": name, "result": "skipped (construct not present on this tree)"})
            continue
        if expect == "info":
            g = tally.setdefault("generic", {"n": 0, "reported": 0, "undecided": 0, "silent": 0})
            g["n"] += 1
            g["reported" if new else ("undecided" if err else "silent")] += 1
            continue
        if expect == "fire":
            tally["must_fire"] += 1
            hit = [v for v in new if rule is None or v[0].startswith(rule)]
            if hit:
                tally["fired"] += 1
                details.append({"variant": name, "result": "reported", "by": hit[0][0], "at": hit[0][1]})
            else:
                res = "undecided: " + err[:160] if err else ("reported by another rule: " + new[0][0] if new else "NOT reported")
                tally["mismatches"].append(f"must-fire '{name}': {res}")
                details.append({"variant": name, "result": res})
        else:
            tally["must_silent"] += 1
            if not new and not err:
                tally["silent"] += 1
                if i < len(mutants):
                    details.append({"variant": name, "result": "silent"})
            else:
                res = ("undecided: " + err[:200]) if err else f"false alarm {new[0][2]}"
                tally["mismatches"].append(f"must-stay-silent '{name}': {res}")
                details.append({"variant": name, "result": res})
    if "generic" in tally:
        rep.extra["generic_mutation_sample"] = dict(tally.pop("generic"), note="informational: single-point mutants of the property's files, seeded by VERIF_SEED; "
                                                    "silent mutants include equivalent ones and ones irrelevant to this property")
    rep.extra["selftest"] = {k: v for k, v in tally.items()}
    rep.extra["selftest_details"] = details[:80]
    for mm in tally["mismatches"]:
        print(f"SELFTEST-MISMATCH property={pid} {mm}")
    clear_caches()
